"""tools/seed_table_into_design.py <seed_table output>: replace the detection table of DESIGN.md §10.7 by the one at the end
of the given tools/seed_table.py output."""
import re, sys
out = open(sys.argv[1]).read()
i = out.index("| seed | file | detected by checks")
table = out[i:].strip() + "\n"
s = open("/verif/DESIGN.md").read()
a = s.index("| seed | file | detected by checks")
b = a
lines = s[a:].split("\n")
n = 0
for ln in lines:
    if not ln.startswith("|"):
        break
    n += len(ln) + 1
s = s[:a] + table + s[a + n:]
open("/verif/DESIGN.md", "w").write(s)
print("table rows:", table.count("\n") - 2)
