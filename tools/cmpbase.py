"""Compare junit xml file(s) with the stable baseline: tools/cmpbase.py junit.xml [more.xml ...] (a test passes if it passes in any file)"""
import json, sys, xml.etree.ElementTree as ET
base = json.load(open("/root/.vp/BASELINE.json"))
stable = set(base["stable_pass"])
passed = set()
for fn in sys.argv[1:]:
    for tc in ET.parse(fn).getroot().iter("testcase"):
        ok = not any(ch.tag in ("failure", "error", "skipped") for ch in tc)
        name = f"{tc.get('classname')}::{tc.get('name')}"
        if ok:
            passed.add(name)
missing = sorted(stable - passed)
print(f"stable={len(stable)} passed_now={len(passed)} stable_missing={len(missing)} newly_passing={len(passed - stable)}")
for m in missing:
    print("  MISSING", m)
for m in sorted(passed - stable)[:40]:
    print("  NEW", m)
sys.exit(1 if missing else 0)
