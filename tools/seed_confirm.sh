#!/bin/sh
# tools/seed_confirm.sh <agent dir> <scratch worktree>
# Confirms a seeded change independently: demo passes on the clean tree, fails on the patched tree, and the
# stable baseline tests still pass with the patch. Leaves the worktree clean. Writes <agent dir>/confirm.txt.
d=$1; wt=$2
[ -f "$d/patch.diff" ] || { echo "no patch"; exit 2; }
demo=$(ls "$d"/demo.py "$d"/test_demo.py 2>/dev/null | head -1)
[ -n "$demo" ] || { echo "no demo"; exit 2; }
cd "$wt" || exit 2
git checkout -q -- . ; git clean -fdq -e __pycache__
run_demo() { if echo "$demo" | grep -q test_demo; then PYTHONPATH="$wt" timeout 1200 /venv/bin/python -m pytest -q -p no:cacheprovider "$demo" >/tmp/demo_out.$$ 2>&1; else PYTHONPATH="$wt" timeout 1200 /venv/bin/python "$demo" >/tmp/demo_out.$$ 2>&1; fi; rc=$?; tail -3 /tmp/demo_out.$$ | cut -c1-200; rm -f /tmp/demo_out.$$; return $rc; }
echo "== demo on clean tree"; run_demo; c1=$?
git apply "$d/patch.diff" || { echo "patch does not apply"; exit 2; }
echo "== demo on patched tree"; run_demo; c2=$?
echo "== stable baseline on patched tree"
# the two stable tests that time out on a loaded machine run alone afterwards (same tree, same patch)
SLOW="test/emu_base/test_algebra.py::test_zip_right_step_mpompo_accuracy test/emu_mps/test_hamiltonian.py::test_differentiation"
timeout 3000 /venv/bin/python -m pytest -q -p no:cacheprovider --timeout=900 --continue-on-collection-errors -n ${NPROC:-8} --junitxml=/tmp/junit_seed.$$.xml $(for t in $SLOW; do echo --deselect $t; done) >/dev/null 2>&1
OMP_NUM_THREADS=4 timeout 3000 /venv/bin/python -m pytest -q -p no:cacheprovider --timeout=2400 --junitxml=/tmp/junit_seed2.$$.xml $SLOW >/dev/null 2>&1
/venv/bin/python /verif/tools/cmpbase.py /tmp/junit_seed.$$.xml /tmp/junit_seed2.$$.xml | head -5; c3=$?
rm -f /tmp/junit_seed.$$.xml /tmp/junit_seed2.$$.xml
git checkout -q -- . ; git clean -fdq -e __pycache__
echo "clean_demo_rc=$c1 patched_demo_rc=$c2" | tee "$d/confirm.txt"
[ $c1 -eq 0 ] && [ $c2 -ne 0 ] && echo CONFIRMED-DEMO
