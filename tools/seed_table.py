"""tools/seed_table.py [IDs…]: for every kept seeded change, apply it to /repo, run every quick check (in parallel),
undo it, and record which checks (and which rules) report a new violation.  Rewrites the `detected_now` entry of each
meta.json and prints a markdown table.  /repo is always restored."""
import json, os, re, subprocess, sys
from concurrent.futures import ThreadPoolExecutor
sys.path.insert(0, "/verif")
from sa import props

SEEDED = "/verif/seeded"
REPO = os.environ.get("TABLE_REPO", "/repo")   # a scratch worktree of /repo's HEAD may be given instead of /repo itself
ENV = dict(os.environ, VERIF_REPO=REPO)
ids = sys.argv[1:] or sorted(os.listdir(SEEDED))
pids = props.ids()


def run(pid):
    r = subprocess.run(["/verif/check", pid, "--no-evidence"], capture_output=True, text=True, env=ENV)
    rules = sorted(set(re.findall(r"^  \S+: \[([A-Za-z\-]+)\]", r.stdout, flags=re.M)))
    return pid, r.returncode, rules


assert subprocess.run(["git", "-C", REPO, "diff", "--quiet"]).returncode == 0, "/repo has local modifications"
with ThreadPoolExecutor(16) as ex:
    base = {pid: (rc, rules) for pid, rc, rules in ex.map(run, pids)}
assert all(rc == 0 for rc, _ in base.values()), f"checks fail on the unchanged tree: {[p for p, (rc, _) in base.items() if rc]}"
rows = []
for sid in ids:
    d = os.path.join(SEEDED, sid)
    patch = os.path.join(d, "patch.diff")
    if not os.path.exists(patch):
        continue
    try:
        subprocess.run(["git", "-C", REPO, "apply", patch], check=True)
        with ThreadPoolExecutor(16) as ex:
            res = list(ex.map(run, pids))
    finally:
        subprocess.run(["git", "-C", REPO, "checkout", "--", "."], check=True)
    hits = {pid: rules for pid, rc, rules in res if rc == 1}
    broken = [pid for pid, rc, _ in res if rc not in (0, 1)]
    meta = json.load(open(os.path.join(d, "meta.json")))
    meta["detected_now"] = {"checks": sorted(hits), "rules": hits, "analysis_errors": broken}
    json.dump(meta, open(os.path.join(d, "meta.json"), "w"), indent=1)
    own = sid if sid in hits else "—"
    rows.append((sid, meta.get("files", ["?"]), sorted(hits), sorted({r for v in hits.values() for r in v}), broken,
                 meta.get("confirmed_by_verif", {}).get("missed_by_the_checks_as_first_built")))
    print(f"{sid}: detected by {sorted(hits) or 'NOTHING'} rules {sorted({r for v in hits.values() for r in v})}"
          + (f" ANALYSIS-ERROR in {broken}" if broken else ""), flush=True)
print()
print("| seed | file | detected by checks | rules that fire | missed when first built |")
print("|---|---|---|---|---|")
for sid, files, checks, rules, broken, missed in rows:
    print(f"| {sid} | {', '.join(files) if isinstance(files, list) else files} | {', '.join(checks) or '**none**'}"
          f"{' (analysis error: ' + ', '.join(broken) + ')' if broken else ''} | {', '.join(rules)} | {'yes' if missed else 'no'} |")
