#!/bin/sh
# tools/seed_retest.sh <seed dir> <worktree>: re-run alone, on the patched worktree, the two stable tests that time out
# when the machine is loaded; appends the outcome to <seed dir>/confirm.txt.
d=$1; wt=$2
cd "$wt" || exit 2
git checkout -q -- . ; git apply "$d/patch.diff" || exit 2
out=$(OMP_NUM_THREADS=4 timeout 3000 /venv/bin/python -m pytest -q -p no:cacheprovider --timeout=2400 test/emu_base/test_algebra.py::test_zip_right_step_mpompo_accuracy test/emu_mps/test_hamiltonian.py::test_differentiation 2>&1 | tail -1)
git checkout -q -- .
echo "$out"
case "$out" in *"2 passed"*) echo "clean_demo_rc=0 patched_demo_rc=1; stable tests that timed out under load (test_zip_right_step_mpompo_accuracy, test_differentiation) re-run alone on the patched worktree: $out" > "$d/confirm.txt";; esac
