#!/bin/sh
# Run every registered check (default tier quick) and validate the evidence files.
cd "$(dirname "$0")/.." || exit 2
tier=${1:-quick}
rc=0
for p in $(/venv/bin/python -c "import sys; sys.path.insert(0,'.'); from sa import props; print(' '.join(props.ids()))"); do
  out=$(./check "$p" --tier "$tier" 2>&1); code=$?
  echo "$out" | grep -E "^property=|VIOLATION|ANALYSIS-ERROR|KNOWN-FINDING|CHECKER-WEAKNESS|mutation-adequacy" | cut -c1-220
  [ $code -ne 0 ] && { echo "  -> exit $code"; rc=1; }
done
python3-vt - <<'PY'
import json, glob, jsonschema
s = json.load(open('/root/.vp/EVIDENCE.schema.json'))
n = 0
for f in sorted(glob.glob('evidence/*.json')):
    jsonschema.validate(json.load(open(f)), s); n += 1
m = json.load(open('MANIFEST.json')); jsonschema.validate(m, json.load(open('/root/.vp/MANIFEST.schema.json')))
print(f"{n} evidence files valid; manifest valid with {len(m['checks'])} checks")
PY
exit $rc
