#!/bin/sh
# tools/seed_eval.sh <dir with patch.diff> [checks...] : apply the patch to /repo, run the checks, undo the patch.
# Prints one line per check that reports something new. Never leaves /repo modified.
d=$1; shift
cd /verif || exit 2
[ -f "$d/patch.diff" ] || { echo "no patch.diff in $d"; exit 2; }
git -C /repo diff --quiet || { echo "/repo has local modifications, refusing"; exit 2; }
git -C /repo apply "$d/patch.diff" || { echo "patch does not apply"; exit 2; }
trap 'git -C /repo checkout -- . ' EXIT INT TERM
checks=${*:-$(/venv/bin/python -c "import sys; sys.path.insert(0,'.'); from sa import props; print(' '.join(props.ids()))")}
hit=""
for p in $checks; do
  out=$(./check "$p" --no-evidence 2>&1); code=$?
  if [ $code -ne 0 ]; then
    hit="$hit $p($code)"
    echo "$out" | grep -E "^  [a-z_/]+.*\[|ANALYSIS-ERROR" | head -4 | cut -c1-330
  fi
done
echo "ALARMS:${hit:- none}"
