"""Global behaviour-preserving twins: every check must give the same verdicts (and the same obligation keys).
  unparse : every module replaced by ast.unparse(ast.parse(src)) (reformatted, comments dropped, lines moved)
  pad     : 7 blank/comment lines inserted at the top of every module (all line numbers shift)
"""
import ast, os, sys
sys.path.insert(0, "/verif")
from sa.cli import run_property
from sa.model import repo_root, AnalysisError, PACKAGES
from sa import props

class _Renamer(ast.NodeTransformer):
    """Rename every local variable of every top-level function/method (nested defs included) by appending `_v`."""
    def __init__(self):
        self.map = None

    def _unit(self, node):
        params = set()
        stores = set()
        glob = set()
        for n in ast.walk(node):
            if isinstance(n, (ast.FunctionDef, ast.AsyncFunctionDef, ast.Lambda)):
                a = n.args
                for x in a.posonlyargs + a.args + a.kwonlyargs:
                    params.add(x.arg)
                if a.vararg:
                    params.add(a.vararg.arg)
                if a.kwarg:
                    params.add(a.kwarg.arg)
                if not isinstance(n, ast.Lambda) and n is not node:
                    stores.add(n.name)
            elif isinstance(n, ast.Name) and isinstance(n.ctx, (ast.Store, ast.Del)):
                stores.add(n.id)
            elif isinstance(n, (ast.Global, ast.Nonlocal)):
                glob |= set(n.names)
            elif isinstance(n, ast.ExceptHandler) and n.name:
                stores.add(n.name)
            elif isinstance(n, (ast.Import, ast.ImportFrom)):
                for al in n.names:
                    glob.add((al.asname or al.name).split(".")[0])
        return {x: x + "_v" for x in stores - params - glob}

    def visit_FunctionDef(self, node):
        if self.map is None:
            self.map = self._unit(node)
            for i, st in enumerate(node.body):
                node.body[i] = self.visit(st)
            self.map = None
            return node
        if node.name in self.map:
            node.name = self.map[node.name]
        self.generic_visit(node)
        return node

    def visit_Name(self, node):
        if self.map and node.id in self.map:
            node.id = self.map[node.id]
        return node

    def visit_ExceptHandler(self, node):
        if self.map and node.name in self.map:
            node.name = self.map[node.name]
        self.generic_visit(node)
        return node


class _Assert2If(ast.NodeTransformer):
    """assert c, m  →  if not c: raise AssertionError(m)"""
    def visit_Assert(self, node):
        exc = ast.Call(func=ast.Name(id="AssertionError", ctx=ast.Load()), args=[node.msg] if node.msg else [], keywords=[])
        return ast.copy_location(ast.If(test=ast.UnaryOp(op=ast.Not(), operand=node.test),
                                        body=[ast.Raise(exc=exc, cause=None)], orelse=[]), node)


class _Logger(ast.NodeTransformer):
    """Insert a harmless logging call at the start of every function body."""
    def visit_FunctionDef(self, node):
        self.generic_visit(node)
        stmt = ast.parse('__import__("logging").getLogger("emulators").debug("enter")').body[0]
        i = 1 if (node.body and isinstance(node.body[0], ast.Expr) and isinstance(node.body[0].value, ast.Constant)
                  and isinstance(node.body[0].value.value, str)) else 0
        node.body.insert(i, stmt)
        return node


def overlay(kind):
    ov = {}
    root = repo_root()
    for pkg in PACKAGES:
        for dp, dn, fn in os.walk(os.path.join(root, pkg)):
            for f in fn:
                if f.endswith(".py"):
                    rel = os.path.relpath(os.path.join(dp, f), root)
                    src = open(os.path.join(dp, f)).read()
                    if kind == "unparse":
                        ov[rel] = ast.unparse(ast.parse(src)) + "\n"
                    elif kind == "rename":
                        ov[rel] = ast.unparse(ast.fix_missing_locations(_Renamer().visit(ast.parse(src)))) + "\n"
                        compile(ov[rel], rel, "exec")
                    elif kind == "assert2if":
                        ov[rel] = ast.unparse(ast.fix_missing_locations(_Assert2If().visit(ast.parse(src)))) + "\n"
                        compile(ov[rel], rel, "exec")
                    elif kind == "log":
                        ov[rel] = ast.unparse(ast.fix_missing_locations(_Logger().visit(ast.parse(src)))) + "\n"
                        compile(ov[rel], rel, "exec")
                    else:
                        ov[rel] = "# pad\n" * 7 + src if not src.startswith("from __future__") else src.replace("\n", "\n" + "# pad\n" * 7, 1)
    return ov

bad = 0
KINDS = [k for k in os.environ.get("TWIN_KINDS", "unparse,pad,rename,log").split(",")]
for kind in KINDS:
    ov = overlay(kind)
    for pid in (sys.argv[1:] or props.ids()):
        try:
            base, _ = run_property(pid, "quick")
            tw, _ = run_property(pid, "quick", overlay=ov)
        except AnalysisError as e:
            print(f"{kind} {pid}: ANALYSIS-ERROR {e}"); bad += 1; continue
        b = {o.key: o.ok for o in base.obs}
        t = {o.key: o.ok for o in tw.obs}
        if b != t:
            bad += 1
            diff = [(k, b.get(k), t.get(k)) for k in set(b) | set(t) if b.get(k) != t.get(k)]
            print(f"{kind} {pid}: {len(diff)} obligation(s) differ, e.g. {diff[:3]}")
        else:
            print(f"{kind} {pid}: identical ({len(b)} obligations)")
sys.exit(1 if bad else 0)
