"""Global behaviour-preserving twins: every check must give the same verdicts (and the same obligation keys).
  unparse : every module replaced by ast.unparse(ast.parse(src)) (reformatted, comments dropped, lines moved)
  pad     : 7 blank/comment lines inserted at the top of every module (all line numbers shift)
"""
import ast, os, sys
sys.path.insert(0, "/verif")
from sa.cli import run_property
from sa.model import repo_root, AnalysisError, PACKAGES
from sa import props

def overlay(kind):
    ov = {}
    root = repo_root()
    for pkg in PACKAGES:
        for dp, dn, fn in os.walk(os.path.join(root, pkg)):
            for f in fn:
                if f.endswith(".py"):
                    rel = os.path.relpath(os.path.join(dp, f), root)
                    src = open(os.path.join(dp, f)).read()
                    if kind == "unparse":
                        ov[rel] = ast.unparse(ast.parse(src)) + "\n"
                    else:
                        ov[rel] = "# pad\n" * 7 + src if not src.startswith("from __future__") else src.replace("\n", "\n" + "# pad\n" * 7, 1)
    return ov

bad = 0
for kind in ("unparse", "pad"):
    ov = overlay(kind)
    for pid in (sys.argv[1:] or props.ids()):
        try:
            base, _ = run_property(pid, "quick")
            tw, _ = run_property(pid, "quick", overlay=ov)
        except AnalysisError as e:
            print(f"{kind} {pid}: ANALYSIS-ERROR {e}"); bad += 1; continue
        b = {o.key: o.ok for o in base.obs}
        t = {o.key: o.ok for o in tw.obs}
        if b != t:
            bad += 1
            diff = [(k, b.get(k), t.get(k)) for k in set(b) | set(t) if b.get(k) != t.get(k)]
            print(f"{kind} {pid}: {len(diff)} obligation(s) differ, e.g. {diff[:3]}")
        else:
            print(f"{kind} {pid}: identical ({len(b)} obligations)")
sys.exit(1 if bad else 0)
