"""tools/twin_global.py [PIDs…]  (TWIN_KINDS=kind,kind…): every check must give the same verdicts on a behaviour-preserving
rewrite of the whole repository (see sa/twins.py for the kinds)."""
import os, sys
sys.path.insert(0, "/verif")
from sa import props, twins
from sa.cli import run_property

bad = 0
kinds = [k for k in os.environ.get("TWIN_KINDS", ",".join(twins.ALL_KINDS)).split(",") if k]
for kind in kinds:
    for pid in (sys.argv[1:] or props.ids()):
        verdict, detail = twins.compare(pid, kind)
        print(f"{kind} {pid}: {'identical (' + detail + ')' if verdict == 'identical' else detail}")
        bad += verdict in ("differs", "error")
sys.exit(1 if bad else 0)
