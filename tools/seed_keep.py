"""tools/seed_keep.py <PID> <agent dir> <detected_by csv> <originally_missed yes/no> [note]
Copies a confirmed seeded change into /verif/seeded/<PID>/ and writes meta.json."""
import json, os, shutil, sys
pid, d, det, missed = sys.argv[1:5]
note = sys.argv[5] if len(sys.argv) > 5 else ""
dst = f"/verif/seeded/{pid}"
os.makedirs(dst, exist_ok=True)
shutil.copy(os.path.join(d, "patch.diff"), dst)
demo = "demo.py" if os.path.exists(os.path.join(d, "demo.py")) else "test_demo.py"
shutil.copy(os.path.join(d, demo), dst)
meta = {}
mp = os.path.join(d, "meta.json")
if os.path.exists(mp):
    try:
        meta = json.load(open(mp))
    except Exception:
        meta = {"raw": open(mp).read()[:2000]}
meta.setdefault("property", pid)
conf = open(os.path.join(d, "confirm.txt")).read().strip() if os.path.exists(os.path.join(d, "confirm.txt")) else ""
meta["confirmed_by_verif"] = {
    "what_was_run": ["tools/seed_confirm.sh: demo on the clean scratch worktree (exit 0) and on the patched one (exit != 0)",
                     "full pytest run of the patched worktree compared with /root/.vp/BASELINE.json stable_pass (tools/cmpbase.py): all 364 stable tests pass",
                     "tools/seed_eval.sh: patch applied to /repo, every quick check run, patch reverted"],
    "demo": conf,
    "detected_by_checks": [x for x in det.split(",") if x],
    "missed_by_the_checks_as_first_built": missed == "yes",
    "note": note,
}
json.dump(meta, open(os.path.join(dst, "meta.json"), "w"), indent=1)
print("kept", dst, meta["confirmed_by_verif"]["detected_by_checks"])
