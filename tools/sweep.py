"""tools/sweep.py <relpath> [<relpath>…]  — generic mutation sweep (a coverage probe for the rule set, not a check).

For every function of the given source files, small syntactic mutants are generated (statement deletion, comparison /
arithmetic / boolean operator swaps, small-integer shifts, swap of the first two positional arguments, negated
condition) and the quick checks of every property whose anchors name the file are run on the in-memory mutant.
Output: /tmp/sweep_<file>.json and a list of the mutants NO check reports (survivors).  Survivors are read by hand:
some are equivalent, some break only numerical behaviour no static rule claims, some point at a missing clause."""
import ast, json, os, sys, concurrent.futures as cf
sys.path.insert(0, "/verif")
from sa import props
from sa.cli import run_property
from sa.model import AnalysisError, repo_root

ROOT = repo_root()
ANCH = {}
for l in open("/verif/properties.jsonl"):
    p = json.loads(l)
    for f in p["anchors"]["files"]:
        ANCH.setdefault(f, set()).add(p["id"])
EXTRA = {  # files consulted by checks beyond the anchors
    "emu_mps/mps_backend_impl.py": {"C02", "C03", "C09", "C10", "C13", "C14", "C17", "C18", "C21", "C23", "C25", "C26", "C27", "C04", "C33"},
    "emu_sv/sv_backend_impl.py": {"C01", "C04", "C13", "C14", "C16", "C21", "C23", "C30"},
    "emu_base/pulser_adapter.py": {"C01", "C02", "C04", "C14", "C21", "C22", "C23", "C24", "C30", "C34", "C31"},
    "emu_mps/mps_backend.py": {"C03", "C26", "C27", "C34", "C04", "C33"},
    "emu_sv/sv_backend.py": {"C34", "C04", "C01"},
    "emu_mps/mps_config.py": {"C33", "C03", "C10"},
}


def mutants(rel: str, src: str):
    tree = ast.parse(src)
    lines = src.splitlines(keepends=True)
    offs = [0]
    for ln in lines:
        offs.append(offs[-1] + len(ln.encode("utf-8")))
    bsrc = src.encode("utf-8")

    def span(n):
        return offs[n.lineno - 1] + n.col_offset, offs[n.end_lineno - 1] + n.end_col_offset

    def rep(n, new: str, what: str, fn: str):
        a, b = span(n)
        out = (bsrc[:a] + new.encode() + bsrc[b:]).decode("utf-8")
        return {"file": rel, "line": n.lineno, "func": fn, "op": what, "old": bsrc[a:b].decode()[:120], "new": new[:120], "src": out}

    for fn in ast.walk(tree):
        if not isinstance(fn, (ast.FunctionDef, ast.AsyncFunctionDef)):
            continue
        name = fn.name
        body_nodes = []
        for st in ast.walk(fn):
            if isinstance(st, (ast.FunctionDef, ast.AsyncFunctionDef)) and st is not fn:
                continue
            body_nodes.append(st)
        for n in body_nodes:
            seg = ast.get_source_segment(src, n) if hasattr(n, "lineno") else None
            if isinstance(n, ast.Expr) and isinstance(n.value, ast.Call):
                yield rep(n, "pass", "delete-call", name)
            elif isinstance(n, (ast.Assign, ast.AugAssign)) and not isinstance(getattr(n, "value", None), ast.Constant):
                if isinstance(n, ast.AugAssign) or any(isinstance(t, (ast.Attribute, ast.Subscript)) for t in n.targets):
                    yield rep(n, "pass", "delete-store", name)
            elif isinstance(n, ast.Compare) and len(n.ops) == 1:
                sw = {ast.Lt: "<=", ast.LtE: "<", ast.Gt: ">=", ast.GtE: ">", ast.Eq: "!=", ast.NotEq: "=="}.get(type(n.ops[0]))
                if sw:
                    l, r = ast.get_source_segment(src, n.left), ast.get_source_segment(src, n.comparators[0])
                    yield rep(n, f"{l} {sw} {r}", "cmp-op", name)
            elif isinstance(n, ast.BinOp) and type(n.op) in (ast.Add, ast.Sub, ast.Mult, ast.Div):
                sw = {ast.Add: "-", ast.Sub: "+", ast.Mult: "/", ast.Div: "*"}[type(n.op)]
                l, r = ast.get_source_segment(src, n.left), ast.get_source_segment(src, n.right)
                if l and r and not isinstance(n.left, ast.Constant) or not isinstance(n.right, ast.Constant):
                    yield rep(n, f"({l}) {sw} ({r})", "arith-op", name)
            elif isinstance(n, ast.BoolOp):
                sw = " or " if isinstance(n.op, ast.And) else " and "
                parts = [ast.get_source_segment(src, v) for v in n.values]
                yield rep(n, "(" + sw.join(f"({x})" for x in parts) + ")", "bool-op", name)
            elif isinstance(n, ast.UnaryOp) and isinstance(n.op, ast.Not):
                yield rep(n, f"({ast.get_source_segment(src, n.operand)})", "drop-not", name)
            elif isinstance(n, ast.Constant) and isinstance(n.value, int) and not isinstance(n.value, bool) and 0 <= n.value <= 2:
                yield rep(n, str(n.value + 1), "int+1", name)
            elif isinstance(n, ast.Call) and len(n.args) >= 2 and not any(isinstance(a, ast.Starred) for a in n.args[:2]) \
                    and all(isinstance(a, (ast.Name, ast.Attribute, ast.Subscript)) for a in n.args[:2]):
                a0, a1 = (ast.get_source_segment(src, a) for a in n.args[:2])
                if a0 != a1:
                    s0, s1 = span(n.args[0]), span(n.args[1])
                    out = (bsrc[:s0[0]] + a1.encode() + bsrc[s0[1]:s1[0]] + a0.encode() + bsrc[s1[1]:]).decode()
                    yield {"file": rel, "line": n.lineno, "func": name, "op": "swap-args", "old": f"{a0}, {a1}", "new": f"{a1}, {a0}", "src": out}
            elif isinstance(n, ast.If):
                t = ast.get_source_segment(src, n.test)
                yield rep(n.test, f"not ({t})", "negate-if", name)


def job(args):
    m, pids = args
    try:
        compile(m["src"], m["file"], "exec")
    except SyntaxError:
        return m, None
    hit, err = [], []
    for pid in pids:
        try:
            ctx, _ = run_property(pid, "quick", overlay={m["file"]: m["src"]})
            bad = [o for o in ctx.obs if not o.ok and not o.key.startswith(("APICOMPAT-super", "BASIS|eff_noise ising|basis change"))]
            if bad:
                hit.append((pid, sorted({o.rule for o in bad})))
        except AnalysisError:
            err.append(pid)
        except Exception:
            err.append(pid)
    return m, {"violation": hit, "analysis_error": err}


def main():
    files = sys.argv[1:]
    workers = int(os.environ.get("MUT_WORKERS", "14"))
    for rel in files:
        src = open(os.path.join(ROOT, rel)).read()
        pids = sorted((ANCH.get(rel, set()) | EXTRA.get(rel, set())) & set(props.ids()))
        ms = list(mutants(rel, src))
        only = os.environ.get("SWEEP_FUNCS")
        if only:
            ms = [m for m in ms if m["func"] in only.split(",")]
        print(f"{rel}: {len(ms)} mutants, checks {pids}", flush=True)
        res = []
        with cf.ProcessPoolExecutor(max_workers=workers) as ex:
            for m, r in ex.map(job, [(m, pids) for m in ms], chunksize=4):
                if r is None:
                    continue
                m = dict(m); m.pop("src")
                m.update(r)
                res.append(m)
        out = f"/tmp/sweep_{rel.replace('/', '_')}.json"
        json.dump(res, open(out, "w"), indent=1)
        surv = [m for m in res if not m["violation"] and not m["analysis_error"]]
        print(f"{rel}: {len(res)} compiled, {sum(1 for m in res if m['violation'])} reported as violation, "
              f"{sum(1 for m in res if not m['violation'] and m['analysis_error'])} analysis-error only, {len(surv)} survive → {out}")
        by = {}
        for m in surv:
            by.setdefault(m["func"], []).append(m)
        for fn, L in sorted(by.items()):
            print(f"  {fn}: " + "; ".join(f"L{m['line']} {m['op']} [{m['old'][:40]}→{m['new'][:40]}]" for m in L[:60]))


main()
