"""Print the prompt for a seeding sub-agent: tools/seed_prompt.py C02 /tmp/wt_C02"""
import json, sys
pid, wt = sys.argv[1], sys.argv[2]
used = sys.argv[3] if len(sys.argv) > 3 else ""   # one-line descriptions of changes already collected for this property
outdir = sys.argv[4] if len(sys.argv) > 4 else f"/tmp/seed_{pid}"
for l in open('/verif/properties.jsonl'):
    p = json.loads(l)
    if p['id'] == pid:
        break
print(f"""You are helping to evaluate how well a set of (hidden) checkers protects a Python code base. Your job: introduce ONE realistic, subtle defect.

Code base: a git worktree of pasqal-io/emulators at {wt} (packages emu_base, emu_mps, emu_sv; tests under test/). Work ONLY inside {wt} (and {outdir} for your outputs). Never touch /repo or /verif, and do not look into other /tmp/seed_* or /tmp/wt_* directories. Run Python with /venv/bin/python, from inside {wt} (so that the worktree's packages are imported: check with `/venv/bin/python -c "import emu_mps; print(emu_mps.__file__)"` run from {wt} — it must print a path under {wt}; if it does not, use `PYTHONPATH={wt}`).

The property your change must break:
  id: {p['id']}
  title: {p['title']}
  statement: {p['statement']}
  it is quantified over: {p['quantifier']['text']}

What to produce: a change to the library source (not the tests) that
  (a) BREAKS this property for some input / configuration / schedule / crash point,
  (b) still imports/compiles, and the existing test-suite still passes exactly as before (see below),
  (c) needs something specific to manifest — an unusual but legitimate input, a particular configuration combination, a multi-step sequence of operations, a crash at a particular point, or two cooperating sites that each look fine alone — NOT something every ordinary use would expose at once,
  (d) looks like a plausible mistake or well-meant refactoring/optimisation a maintainer could make (no comments announcing it, no dead giveaway names).
Prefer a small diff (1–15 lines). One defect only.
{("Changes of the following kind have ALREADY been collected for this property — produce something different in mechanism and location: " + used) if used else ""}

Facts about this sandbox you need:
  * The installed pulser-core is 1.9.1 and the code base targets 1.8, so every test that constructs a backend end-to-end fails ALREADY before your change (Observable.__init__ needs `default_aggregation_method`). Baseline: from {wt} run `OMP_NUM_THREADS=2 MKL_NUM_THREADS=2 /venv/bin/python -m pytest -q -p no:cacheprovider --timeout=1800 --continue-on-collection-errors -n 3 -rf 2>&1 | tail -80` (10-25 minutes; the machine is shared, keep to -n 3 and the two *_NUM_THREADS=2 settings for every Python process you start; if `test_differentiation` or `test_zip_right_step_mpompo_accuracy` time out, rerun them alone) — the result on the unchanged tree is already known: exactly 364 passed, 69 failed, and the 69 failing test ids are listed in /tmp/baseline_failed_ids.txt (classname::name as in a junit xml) — you do NOT need to run the suite on the unchanged tree. After your change the same 364 must still pass: run the suite ONCE on the changed tree and compare the set of failing test ids with that file, they must be identical.
  * To demonstrate behaviour end-to-end anyway, a demonstration script may (i) monkey-patch `pulser.backend.observable.Observable.__init__` to supply `default_aggregation_method=AggregationMethod.SKIP` when missing, and (ii) bypass Pulser's sampling by building `emu_base.pulser_adapter.SequenceData` by hand (fields: omega, delta, phi as complex128 tensors of shape (steps, atoms); interaction_matrix = `_InteractionMatrixCallable(full, masked, slm_end_time)`; qubit_ids; bad_atoms; lindblad_ops; state_prep_error; target_times (len steps+1, ns); eigenstates; hamiltonian_type) and calling `MPSBackend._run_from_sequence_data(sd, config)` / `SVBackend._run_from_sequence_data(sd, config)`, or by calling lower-level functions directly. No GPU is available (use gpu=False / num_gpus_to_use=0).

Deliverables, all under {outdir}/ :
  1. patch.diff — `git -C {wt} diff` of your change (source files only).
  2. demo.py (or test_demo.py) — a small self-contained program that exits 0 / passes on the UNCHANGED tree and exits non-zero / fails on the changed tree, demonstrating the property violation (print what differs). It must locate the code through the current working directory (it will be run from the root of a worktree with and without the patch), e.g. start with `import sys, os; sys.path.insert(0, os.getcwd())`.
  3. meta.json — {{"property": "{p['id']}", "summary": "...what the change does...", "needs": "...what specific input/config/sequence/crash point is needed for it to manifest...", "files": [...], "ran": ["commands you ran and their outcomes, incl. the before/after pytest comparison"]}}
Verify all of it yourself: run demo on the patched tree (fails) and on a clean tree (save your diff to a file, `git -C {wt} checkout -- .`, run, `git -C {wt} apply <file>`; never use `git stash`, it is shared between worktrees) (passes), and the full test comparison. Leave the worktree with your change applied. In your final answer, state the paths of the three files and a two-line description.""")
