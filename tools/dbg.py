"""tools/dbg.py <PID> [rule-substring]: run a property's rules without floors and print every obligation."""
import sys
sys.path.insert(0, "/verif")
from sa import props
from sa.cli import load_program
from sa.report import Ctx
pid = sys.argv[1]
sub = sys.argv[2] if len(sys.argv) > 2 else ""
ctx = Ctx(load_program(), pid, "quick")
try:
    props.get(pid).check(ctx)
except Exception as e:
    print("EXC", type(e).__name__, str(e)[:300])
for o in ctx.obs:
    if sub in o.key:
        print("ok " if o.ok else "BAD", o.key[:150], "@", o.where)
