"""Ad-hoc in-memory mutant: tools/mut.py C03 emu_mps/mps_backend_impl.py 'old' 'new' [...more triples]"""
import sys
sys.path.insert(0, "/verif")
from sa.cli import run_property
from sa.model import AnalysisError, repo_root
import os

pid = sys.argv[1]
overlay = {}
args = sys.argv[2:]
for i in range(0, len(args), 3):
    rel, old, new = args[i:i + 3]
    src = overlay.get(rel) or open(os.path.join(repo_root(), rel)).read()
    assert src.count(old) >= 1, f"pattern not found in {rel}: {old!r}"
    overlay[rel] = src.replace(old, new, 1)
    compile(overlay[rel], rel, "exec")
try:
    base, _ = run_property(pid, "quick")
    ctx, _ = run_property(pid, "quick", overlay=overlay)
except AnalysisError as e:
    print("ANALYSIS-ERROR", e)
    sys.exit(2)
basebad = {o.key for o in base.obs if not o.ok}
new = [o for o in ctx.obs if not o.ok and o.key not in basebad]
gone = basebad - {o.key for o in ctx.obs if not o.ok}
print(f"base violated={len(basebad)} mutant violated={sum(not o.ok for o in ctx.obs)} new={len(new)} gone={len(gone)}")
for o in new:
    print("  NEW", o.where, o.key[:150], "—", o.detail[:200])
for k in gone:
    print("  GONE", k[:150])
