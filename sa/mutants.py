"""Kill-mutants and behaviour-preserving twins for the checker's self-test (see sa.mutate)."""
from .mutate import M

IMPL = "emu_mps/mps_backend_impl.py"
BACK = "emu_mps/mps_backend.py"
SVI = "emu_sv/sv_backend_impl.py"
TE = "emu_sv/time_evolution.py"
SU = "emu_mps/solver_utils.py"
PA = "emu_base/pulser_adapter.py"
JL = "emu_base/jump_lindblad_operators.py"

# ---------------------------------------------------------------- C01
M("C01", "dt uses T[k]-T[k-1]", "kill",
  [(SVI, "return self.target_times[step_idx + 1] - self.target_times[step_idx]",
    "return self.target_times[step_idx] - self.target_times[step_idx - 1]")], "STEP-sv")
M("C01", "omega row k+1", "kill", [(SVI, "            self.omega[step_idx],\n", "            self.omega[step_idx + 1],\n")], "STEP-sv")
M("C01", "delta/phi swapped", "kill",
  [(SVI, "            self.delta[step_idx],\n            self.phi[step_idx],\n",
    "            self.phi[step_idx],\n            self.delta[step_idx],\n")], "STEP-sv")
M("C01", "no unit conversion", "kill", [(SVI, "dt * _TIME_CONVERSION_COEFF,", "dt,")], "UNITS-sv")
M("C01", "conversion coefficient 0.01", "kill", [(SVI, "_TIME_CONVERSION_COEFF = 0.001", "_TIME_CONVERSION_COEFF = 0.01")], "UNITS-sv")
M("C01", "observables before the state store use stale index", "kill",
  [(SVI, "        step_idx += 1\n        self._apply_observables(step_idx)", "        self._apply_observables(step_idx)\n        step_idx += 1")], "STEP-sv")
M("C01", "loop skips the last step", "kill", [(SVI, "for step in range(self.nsteps):", "for step in range(self.nsteps - 1):")], "STEP-sv")
M("C01", "interaction matrix of the previous step", "kill",
  [(SVI, "self.interaction_matrix(self.target_times[step_idx]),", "self.interaction_matrix(self.target_times[step_idx - 1]),")], "STEP-sv")
M("C01", "state vector stepper not hermitian flag", "kill", [(TE, "            is_hermitian=True,\n", "            is_hermitian=False,\n")], "HERM")
M("C01", "evolve swaps omegas/phis", "kill",
  [(TE, "        res, ham = EvolveStateVector.evolve(\n            dt,\n            omegas,\n            deltas,\n            phis,",
    "        res, ham = EvolveStateVector.evolve(\n            dt,\n            phis,\n            deltas,\n            omegas,")], "ROLE-sv")
M("C01", "sign of the exponent", "kill", [(TE, "            return -1j * dt * (ham * x)\n\n        res = krylov_exp(", "            return 1j * dt * (ham * x)\n\n        res = krylov_exp(")], "UNITS-sv")
M("C01", "twin: hoist dt conversion", "twin",
  [(SVI, "        self.state.data, self._current_H = self.stepper.apply(\n            dt * _TIME_CONVERSION_COEFF,",
    "        dt_us = _TIME_CONVERSION_COEFF * dt\n        self.state.data, self._current_H = self.stepper.apply(\n            dt_us,")])
M("C01", "twin: inline _compute_dt", "twin",
  [(SVI, "        dt = self._compute_dt(step_idx)\n", "        dt = self.target_times[1 + step_idx] - self.target_times[step_idx]\n")])

# ---------------------------------------------------------------- C02
M("C02", "drives not permuted", "kill",
  [(IMPL, "self.omega = pulser_data.omega[:, self.qubit_permutation]", "self.omega = pulser_data.omega")], "PERM")
M("C02", "matrix not permuted", "kill",
  [(IMPL, "            matrix = optimat.permute_tensor(matrix, self.qubit_permutation)\n", "            pass\n")], "PERM")
M("C02", "matrix permuted with inverse", "kill",
  [(IMPL, "            matrix = optimat.permute_tensor(matrix, self.qubit_permutation)\n",
    "            matrix = optimat.permute_tensor(matrix, optimat.inv_permutation(self.qubit_permutation))\n")], "PERM")
M("C02", "TDVP right sweep coefficient 1 instead of 1/2", "kill",
  [(IMPL, "                dt=delta_time / 2,\n                orth_center_right=True,", "                dt=delta_time,\n                orth_center_right=True,")], "TDVP")
M("C02", "TDVP backward single-site sign", "kill", [(IMPL, "self._evolve(self._sweep_index + 1, dt=-delta_time / 2)", "self._evolve(self._sweep_index + 1, dt=delta_time / 2)")], "TDVP")
M("C02", "TDVP bath pushed after the single-site step", "kill",
  [(IMPL, "            self._evolve(self._sweep_index + 1, dt=-delta_time / 2)\n            self.right_baths.pop()",
    "            self.right_baths.pop()\n            self._evolve(self._sweep_index + 1, dt=-delta_time / 2)")], "TDVP")
M("C02", "left sweep centre flag flipped", "kill",
  [(IMPL, "                dt=delta_time / 2,\n                orth_center_right=False,", "                dt=delta_time / 2,\n                orth_center_right=True,")], "TDVP")
M("C02", "left bath from the wrong factor", "kill",
  [(IMPL, "                    self.state.factors[self._sweep_index],\n                    self.hamiltonian.factors[self._sweep_index],\n                ).to(self.state.factors[self._sweep_index + 1].device)",
    "                    self.state.factors[self._sweep_index + 1],\n                    self.hamiltonian.factors[self._sweep_index],\n                ).to(self.state.factors[self._sweep_index + 1].device)")], "BATHS")
M("C02", "target_times[idx] after increment", "kill",
  [(IMPL, "self.target_time = self.target_times[self._timestep_index + 1]\n            self.update_H()",
    "self.target_time = self.target_times[self._timestep_index]\n            self.update_H()")], "STEP-mps")
M("C02", "baths rebuilt before the Hamiltonian is refreshed", "kill",
  [(IMPL, "            self.update_H()\n            self.init_baths()\n\n        self.statistics.data.append", "            self.init_baths()\n            self.update_H()\n\n        self.statistics.data.append")], "BATHS")
M("C02", "current_time not advanced", "kill", [(IMPL, "    def sweep_complete(self) -> None:\n        self.current_time = self.target_time\n        self.timestep_complete()",
                                                  "    def sweep_complete(self) -> None:\n        self.timestep_complete()")], "STEP-mps")
M("C02", "update_H row off by one", "kill",
  [(IMPL, "            omega=self.omega[self._timestep_index, :],\n            delta=self.delta[self._timestep_index, :],\n            phi=self.phi[self._timestep_index, :],\n            noise=self.lindblad_noise,",
    "            omega=self.omega[self._timestep_index - 1, :],\n            delta=self.delta[self._timestep_index, :],\n            phi=self.phi[self._timestep_index, :],\n            noise=self.lindblad_noise,")], "STEP-mps")
M("C02", "no unit conversion in evolve_pair", "kill", [(SU, "    time_step = -1j * _TIME_CONVERSION_COEFF * dt\n", "    time_step = -1j * dt\n")], "UNITS-mps")
M("C02", "double conversion in evolve_single", "kill",
  [(SU, "    time_step = -_TIME_CONVERSION_COEFF * 1j * dt\n", "    time_step = -_TIME_CONVERSION_COEFF * 1j * dt * _TIME_CONVERSION_COEFF\n")], "UNITS-mps")
M("C02", "hermitian flag inverted", "kill",
  [(IMPL, "                is_hermitian=not self.has_lindblad_noise,\n                dim=self.dim,", "                is_hermitian=self.has_lindblad_noise,\n                dim=self.dim,")], "HERM")
M("C02", "krylov tolerance ignores extra factor", "kill",
  [(SU, "        exp_tolerance=config.precision * config.extra_krylov_tolerance,\n        norm_tolerance=config.precision * config.extra_krylov_tolerance,\n        max_krylov_dim=config.max_krylov_dim,\n        is_hermitian=is_hermitian,\n    ).view(",
    "        exp_tolerance=config.precision,\n        norm_tolerance=config.precision * config.extra_krylov_tolerance,\n        max_krylov_dim=config.max_krylov_dim,\n        is_hermitian=is_hermitian,\n    ).view(")], "ROLE-mps")
M("C02", "dim not forwarded to evolve_pair", "kill", [(IMPL, "                is_hermitian=not self.has_lindblad_noise,\n                dim=self.dim,\n", "                is_hermitian=not self.has_lindblad_noise,\n")], "ROLE-mps")
M("C02", "twin: 0.5*delta_time", "twin", [(IMPL, "self._evolve(self._sweep_index + 1, dt=-delta_time / 2)", "self._evolve(1 + self._sweep_index, dt=-0.5 * delta_time)")])
M("C02", "twin: hoist permutation", "twin",
  [(IMPL, "            matrix = optimat.permute_tensor(matrix, self.qubit_permutation)\n", "            perm = self.qubit_permutation\n            matrix = optimat.permute_tensor(matrix, perm)\n")])
M("C02", "twin: unconditional permute of the matrix", "twin",
  [(IMPL, "        if not torch.equal(\n            self.qubit_permutation, optimat.eye_permutation(self.qubit_count)\n        ):\n            matrix = optimat.permute_tensor(matrix, self.qubit_permutation)\n",
    "        matrix = optimat.permute_tensor(matrix, self.qubit_permutation)\n")])
M("C02", "twin: temporaries for the new left bath", "twin",
  [(IMPL, "            self.left_baths.append(\n                new_left_bath(\n                    self.get_current_left_bath(),\n                    self.state.factors[self._sweep_index],\n                    self.hamiltonian.factors[self._sweep_index],\n                ).to(self.state.factors[self._sweep_index + 1].device)\n            )\n            self._evolve(self._sweep_index + 1, dt=-delta_time / 2)",
    "            nb = new_left_bath(\n                self.get_current_left_bath(),\n                self.state.factors[self._sweep_index],\n                self.hamiltonian.factors[self._sweep_index],\n            )\n            self.left_baths.append(nb.to(self.state.factors[self._sweep_index + 1].device))\n            self._evolve(self._sweep_index + 1, dt=-delta_time / 2)")])

# ---------------------------------------------------------------- C03
M("C03", "resume without permute_results", "kill",
  [(BACK, "        return impl.permute_results(result, impl.config.optimize_qubit_ordering)\n\n    def run", "        return result\n\n    def run")], "PERM-entry")
M("C03", "run without permute_results", "kill", [(BACK, "        return impl.permute_results(result, config.optimize_qubit_ordering)", "        return result")], "PERM-entry")
M("C03", "permute_results flag literal False", "kill", [(BACK, "        return impl.permute_results(result, config.optimize_qubit_ordering)", "        return impl.permute_results(result, False)")], "PERM-entry")
M("C03", "forward permutation in permute_results", "kill", [(IMPL, "            inv_perm = optimat.inv_permutation(self.qubit_permutation)", "            inv_perm = self.qubit_permutation")], "PERM-unpermute")
M("C03", "atom order not un-permuted", "kill", [(IMPL, "            permute_atom_order(results, inv_perm)\n", "")], "PERM")
M("C03", "atom_order in register order", "kill",
  [(IMPL, "            atom_order=optimat.permute_tuple(\n                pulser_data.qubit_ids, self.qubit_permutation\n            ),", "            atom_order=pulser_data.qubit_ids,")], "PERM")
M("C03", "initial state permuted with inverse", "kill",
  [(IMPL, "optimat.permute_string(bstr, self.qubit_permutation): amp", "optimat.permute_string(bstr, optimat.inv_permutation(self.qubit_permutation)): amp")], "PERM-sink")
M("C03", "initial state not permuted", "kill",
  [(IMPL, "            initial_state = MPS.from_state_amplitudes(eigenstates=eigs, amplitudes=ampl)\n", "            pass\n")], "PERM-sink")
M("C03", "literal tag lookup", "kill",
  [(IMPL, "    for tag in _tags_with_base_tag(results, \"bitstrings\"):\n", "    for tag in [\"bitstrings\"] if \"bitstrings\" in results.get_result_tags() else []:\n")], "TAGKEY")
M("C03", "whitelist gains an unhandled per-atom tag", "kill", [("emu_mps/mps_config.py", "                \"statistics\",\n                \"energy\",", "                \"statistics\",\n                \"fidelity\",\n                \"energy\",")], "TABLES-whitelist")
M("C03", "optimiser used regardless of the flag", "kill",
  [(IMPL, "            if self.config.optimize_qubit_ordering\n            else optimat.eye_permutation(self.qubit_count)", "            if self.config.optimize_qubit_ordering or self.qubit_count > 8\n            else optimat.eye_permutation(self.qubit_count)")], "PERM-field")
M("C03", "twin: permute_results flag True", "twin", [(BACK, "        return impl.permute_results(result, config.optimize_qubit_ordering)", "        return impl.permute_results(result, True)")])
M("C03", "twin: inline helper call order", "twin",
  [(IMPL, "            permute_bitstrings(results, inv_perm)\n            permute_occupations_and_correlations(results, inv_perm)\n", "            permute_occupations_and_correlations(results, inv_perm)\n            permute_bitstrings(results, inv_perm)\n")])

# ---------------------------------------------------------------- C04
M("C04", "sv XY guard removed", "kill",
  [(SVI, "        if data.hamiltonian_type != HamiltonianType.Rydberg or data.dim != 2:", "        if data.dim != 2:")], "DISPATCH-consume")
M("C04", "sv dim guard removed", "kill",
  [(SVI, "        if data.hamiltonian_type != HamiltonianType.Rydberg or data.dim != 2:", "        if data.hamiltonian_type != HamiltonianType.Rydberg:")], "DISPATCH-consume")
M("C04", "noise before solver", "kill",
  [(IMPL, "    if config.solver == Solver.DMRG:\n        # DMRGBackendImpl refuses noise models with noise\n        return DMRGBackendImpl(config, data)\n    if data.lindblad_ops:\n        return NoisyMPSBackendImpl(config, data)\n",
    "    if data.lindblad_ops:\n        return NoisyMPSBackendImpl(config, data)\n    if config.solver == Solver.DMRG:\n        return DMRGBackendImpl(config, data)\n")], "DISPATCH-solver")
M("C04", "make_H falls back to Rydberg", "kill",
  [("emu_mps/hamiltonian.py", "    raise ValueError(f\"Unsupported hamiltonian_type: {hamiltonian_type}\")", "    return MPO(list(RydbergHamiltonianMPOFactors(interaction_matrix, dim=dim)), num_gpus_to_use=num_gpus_to_use)")], "DISPATCH-exhaustive")
M("C04", "unknown noise type yields no operators", "kill", [(JL, "    raise ValueError(f\"Unknown noise type: {noise_type}\")", "    return []")], "DISPATCH-exhaustive")
M("C04", "hyperfine dephasing accepted", "kill",
  [(JL, "        if noise_model.hyperfine_dephasing_rate != 0.0:\n            raise NotImplementedError(\n                \"hyperfine_dephasing_rate is supported only in the digital basis\"\n            )\n", "")], "DISPATCH-hyperfine")
M("C04", "unsupported interaction type defaults to Rydberg", "kill",
  [(PA, "        else:\n            raise ValueError(f\"Unsupported basis: {int_type}\")", "        else:\n            self.hamiltonian_type = HamiltonianType.Rydberg")], "DISPATCH-exhaustive")
M("C04", "DMRG noise guard inverted", "kill",
  [(IMPL, "        if mps_config.noise_model.noise_types != () or pulser_data.lindblad_ops:", "        if mps_config.noise_model.noise_types == ():")], "DISPATCH-dmrg-noise")
M("C04", "a Lindblad noise type filtered as non-Lindbladian", "kill", [(PA, "    \"dmm_crosstalk\",\n}", "    \"dmm_crosstalk\",\n    \"relaxation\",\n}")], "DISPATCH-noise")
M("C04", "twin: assert-style sv guard", "twin",
  [(SVI, "        if data.hamiltonian_type != HamiltonianType.Rydberg or data.dim != 2:\n            raise NotImplementedError(",
    "        unsupported = data.hamiltonian_type != HamiltonianType.Rydberg or data.dim != 2\n        if unsupported:\n            raise NotImplementedError(")])
M("C04", "twin: elif chain in make_H", "twin",
  [("emu_mps/hamiltonian.py", "    if hamiltonian_type == HamiltonianType.XY:\n        return MPO(", "    elif hamiltonian_type == HamiltonianType.XY:\n        return MPO(")])

# ---------------------------------------------------------------- C06
LO = "emu_sv/lindblad_operator.py"
MM = "emu_base/math/matmul.py"
M("C06", "batched arm drops conj", "kill", [(LO, "density_matrix = matmul_2x2_with_batched(local_op.conj(), density_matrix)", "density_matrix = matmul_2x2_with_batched(local_op, density_matrix)")], "DEVICE-arms")
M("C06", "batched arm swaps operands", "kill", [(LO, "            density_matrix = matmul_2x2_with_batched(local_op, density_matrix)\n", "            density_matrix = matmul_2x2_with_batched(density_matrix, local_op)\n")], "DEVICE-arms")
M("C06", "kernel uses left[0,1] twice", "kill", [(MM, "        alpha=left[1, 0],  # type: ignore [arg-type]", "        alpha=left[0, 1],  # type: ignore [arg-type]")], "DEVICE-kernel")
M("C06", "kernel selects wrong column", "kill",
  [(MM, "        one,\n        right.select(1, 1).unsqueeze(1),\n        alpha=left[1, 1],", "        one,\n        right.select(1, 0).unsqueeze(1),\n        alpha=left[1, 1],")], "DEVICE-kernel")
M("C06", "twin: is_cuda test with swapped arms", "twin",
  [(LO, "        if density_matrix.is_cpu:\n            density_matrix = local_op @ density_matrix\n        else:\n            density_matrix = matmul_2x2_with_batched(local_op, density_matrix)",
    "        if not density_matrix.is_cpu:\n            density_matrix = matmul_2x2_with_batched(local_op, density_matrix)\n        else:\n            density_matrix = local_op @ density_matrix")])

# ---------------------------------------------------------------- C07 / C08
KE = "emu_base/math/krylov_exp.py"
KM = "emu_base/math/krylov_energy_min.py"
DK = "emu_base/math/double_krylov.py"
M("C07", "last iteration reported converged", "kill",
  [(KE, "        converged=False,\n        happy_breakdown=False,\n        iteration_count=max_krylov_dim,", "        converged=True,\n        happy_breakdown=False,\n        iteration_count=max_krylov_dim,")], "CONV-honest")
M("C07", "tolerance scaled in the test", "kill", [(KE, "        if err < exp_tolerance:", "        if err < 100 * exp_tolerance:")], "CONV-honest")
M("C07", "krylov_exp does not raise", "kill",
  [(KE, "    if not krylov_result.converged:\n        raise RecursionError(\n            \"exponentiation algorithm did not converge to precision in allotted number of steps.\"\n        )\n", "")], "CONV-entry")
M("C07", "client bypasses the raising entry", "kill",
  [(SU, "from emu_base import krylov_exp\n", "from emu_base import krylov_exp\nfrom emu_base.math.krylov_exp import krylov_exp_impl\n"),
   (SU, "    return krylov_exp(\n        op,\n        state_factor,\n        exp_tolerance=config.precision * config.extra_krylov_tolerance,\n        norm_tolerance=config.precision * config.extra_krylov_tolerance,\n        max_krylov_dim=config.max_krylov_dim,\n        is_hermitian=is_hermitian,\n    )\n",
    "    return krylov_exp_impl(\n        op,\n        state_factor,\n        exp_tolerance=config.precision * config.extra_krylov_tolerance,\n        norm_tolerance=config.precision * config.extra_krylov_tolerance,\n        max_krylov_dim=config.max_krylov_dim,\n        is_hermitian=is_hermitian,\n    ).result\n")], "CONV-callers")
M("C07", "lanczos never raises", "kill", [(DK, "    if not converged:\n        raise RecursionError(", "    if False:\n        raise RecursionError(")], "CONV-entry")
M("C07", "twin: flipped comparison", "twin", [(KE, "        if err < exp_tolerance:", "        if exp_tolerance > err:")])
M("C08", "converged without the residual test", "kill", [(KM, "        if resid.item() < residual_tolerance:\n            converged = True\n            break", "        if resid.item() < residual_tolerance or j == max_krylov_dim - 1:\n            converged = True\n            break")], "CONV-honest")
M("C08", "entry does not raise", "kill", [(KM, "    if not result.converged and not result.happy_breakdown:", "    if not result.converged and not result.happy_breakdown and False:")], "CONV-entry")
M("C08", "client uses the non-raising impl", "kill",
  [(SU, "from emu_base.math.krylov_energy_min import krylov_energy_minimization\n", "from emu_base.math.krylov_energy_min import krylov_energy_minimization, krylov_energy_minimization_impl\n"),
   (SU, "    updated_state, updated_energy = krylov_energy_minimization(\n", "    _r = krylov_energy_minimization_impl(\n"),
   (SU, "        max_krylov_dim=config.max_krylov_dim,\n    )\n    updated_state = updated_state.view(", "        max_krylov_dim=config.max_krylov_dim,\n    )\n    updated_state, updated_energy = _r.ground_state, _r.ground_energy.item()\n    updated_state = updated_state.view(")], "CONV-callers")

# ---------------------------------------------------------------- C09 / C10
M("C09", "DMRG completes a step without convergence", "kill",
  [(IMPL, "        if self.convergence_check(self.energy_tolerance):\n            self.current_time = self.target_time", "        if self.convergence_check(self.energy_tolerance) or self.sweep_count > 5:\n            self.current_time = self.target_time")], "CONV-gate")
M("C09", "DMRG centre flag inverted", "kill", [(IMPL, "        self.state.orthogonality_center = idx + 1 if orth_center_right else idx", "        self.state.orthogonality_center = idx if orth_center_right else idx + 1")], "CENTER")
M("C09", "DMRG left bath not popped", "kill", [(IMPL, "            ).to(self.state.factors[idx].device)\n            )\n            self.left_baths.pop()\n", "            ).to(self.state.factors[idx].device)\n            )\n")], "BATHS")
M("C09", "DMRG residual tolerance literal", "kill", [(IMPL, "            residual_tolerance=self.config.precision,", "            residual_tolerance=1e-3,")], "ROLE-mps")
M("C09", "DMRG no orthogonalize before the gate", "kill", [(IMPL, "            self.state.orthogonalize(0)\n            self._swipe_direction = SwipeDirection.LEFT_TO_RIGHT\n            self.sweep_count += 1", "            self._swipe_direction = SwipeDirection.LEFT_TO_RIGHT\n            self.sweep_count += 1")], "JUMP-path")
M("C09", "split in minimize_energy_pair uses default rank", "kill",
  [(SU, "        max_error=config.precision,\n        max_rank=config.max_bond_dim,\n        orth_center_right=orth_center_right,\n    )\n\n    return (", "        max_error=config.precision,\n        orth_center_right=orth_center_right,\n    )\n\n    return (")], "TRUNCARGS")
M("C10", "truncate does not orthogonalize first", "kill", [("emu_mps/mps.py", "        self.orthogonalize(self.num_sites - 1)\n        truncate_impl(", "        truncate_impl(")], "CENTER")
M("C10", "truncate leaves stale centre", "kill", [("emu_mps/mps.py", "            self.factors, precision=self.precision, max_bond_dim=self.max_bond_dim\n        )\n        self.orthogonality_center = 0", "            self.factors, precision=self.precision, max_bond_dim=self.max_bond_dim\n        )")], "CENTER")
M("C10", "evolve_pair ignores the bond cap", "kill", [(SU, "        max_rank=config.max_bond_dim,\n        orth_center_right=orth_center_right,\n        preserve_norm", "        orth_center_right=orth_center_right,\n        preserve_norm")], "TRUNCARGS")
M("C10", "apply_to truncates with the default precision", "kill", [("emu_mps/mpo.py", "            precision=other.precision,\n            max_bond_dim=other.max_bond_dim,", "            precision=DEFAULT_PRECISION,\n            max_bond_dim=other.max_bond_dim,")], "TRUNCARGS")
M("C10", "splitter flag ignored", "kill", [(SU, "        orth_center_right=orth_center_right,\n        preserve_norm=not is_hermitian,", "        orth_center_right=True,\n        preserve_norm=not is_hermitian,")], "CENTER")
M("C10", "apply without orthogonalize", "kill", [("emu_mps/mps.py", "        self.orthogonalize(qubit_index)\n\n        self.factors[qubit_index] = (", "        self.factors[qubit_index] = (")], "CENTER")
M("C10", "twin: keyword order", "twin", [("emu_mps/mps.py", "            self.factors, precision=self.precision, max_bond_dim=self.max_bond_dim\n", "            self.factors, max_bond_dim=self.max_bond_dim, precision=self.precision\n")])

# ---------------------------------------------------------------- C11 / C12
M("C11", "scale_factors in place", "kill", [("emu_mps/algebra.py", "    return [scalar * f if i == which else f for i, f in enumerate(factors)]", "    factors[which] = scalar * factors[which]\n    return factors")], "PURE")
M("C11", "inner truncates its operand", "kill",
  [("emu_mps/mps.py", "        acc = torch.ones(1, 1, dtype=self.factors[0].dtype, device=self.factors[0].device)\n\n        for i in range(self.num_sites):", "        acc = torch.ones(1, 1, dtype=self.factors[0].dtype, device=self.factors[0].device)\n        other.truncate()\n        for i in range(self.num_sites):")], "PURE")
M("C11", "add_factors writes into its input", "kill", [("emu_mps/algebra.py", "        core2 = core2.to(core1.device)\n", "        core2 = core2.to(core1.device)\n        core2 *= 1.0\n")], "PURE")
M("C11", "MPO rg/gr tables swapped", "kill",
  [("emu_mps/mpo.py", "                \"rg\": torch.tensor([[0.0, 0.0], [1.0, 0.0]], dtype=dtype).view(\n                    1, 2, 2, 1\n                ),\n                \"gr\": torch.tensor([[0.0, 1.0], [0.0, 0.0]], dtype=dtype).view(",
    "                \"gr\": torch.tensor([[0.0, 0.0], [1.0, 0.0]], dtype=dtype).view(\n                    1, 2, 2, 1\n                ),\n                \"rg\": torch.tensor([[0.0, 1.0], [0.0, 0.0]], dtype=dtype).view(")], "TABLES-mpo")
M("C11", "leakage symbol xr misplaced", "kill",
  [("emu_mps/mpo.py", "                \"xr\": torch.tensor(\n                    [[0.0, 0.0, 0.0], [0.0, 0.0, 0.0], [0.0, 1.0, 0.0]], dtype=dtype", "                \"xr\": torch.tensor(\n                    [[0.0, 0.0, 0.0], [0.0, 0.0, 1.0], [0.0, 0.0, 0.0]], dtype=dtype")], "TABLES-mpo")
M("C11", "amplitude character map swapped", "kill", [("emu_mps/mps.py", "                if ch == one:\n                    factors.append(basis_1)", "                if ch == one:\n                    factors.append(basis_0)")], "TABLES-mps")
M("C11", "twin: expect via local alias", "twin", [("emu_mps/mpo.py", "        n = len(self.factors) - 1\n", "        fs = self.factors\n        n = len(fs) - 1\n")])
M("C12", "sparse rg/gr swapped", "kill",
  [("emu_sv/sparse_operator.py", "                \"rg\": torch.tensor([[0.0, 0.0], [1.0, 0.0]], dtype=dtype).to_sparse_coo(),", "                \"rg\": torch.tensor([[0.0, 1.0], [0.0, 0.0]], dtype=dtype).to_sparse_coo(),")], "TABLES-sv")
M("C12", "state amplitudes read g as 1", "kill", [("emu_sv/state_vector.py", "state.replace(one, \"1\").replace(\"g\", \"0\"), 2", "state.replace(one, \"0\").replace(\"g\", \"1\"), 2")], "TABLES-sv")
M("C12", "StateVector.__add__ in place", "kill", [("emu_sv/state_vector.py", "            self.data + other.data,", "            self.data.add_(other.data),")], "PURE")
M("C12", "DenseOperator.__rmul__ in place", "kill", [("emu_sv/dense_operator.py", "        return DenseOperator(scalar * self.data)", "        self.data *= scalar\n        return self")], "PURE")

# ---------------------------------------------------------------- C13 / C14
M("C13", "callbacks see the un-normalised state", "kill", [(IMPL, "        if self.well_prepared_qubits_filter is None:\n            state = normalized_state", "        if self.well_prepared_qubits_filter is None:\n            state = self.state")], "ROLE-callback")
M("C13", "noisy observables with the noise term", "kill", [(IMPL, "    def timestep_complete(self) -> None:\n        self.update_H_no_noise()\n        super().timestep_complete()", "    def timestep_complete(self) -> None:\n        super().timestep_complete()")], "ROLE-noise")
M("C13", "variance sign", "kill", [("emu_mps/custom_callback_implementations.py", "    en_var = h_2 - h**2", "    en_var = h**2 - h_2")], "OBSDEF")
M("C13", "occupation projector on level 0", "kill", [("emu_mps/custom_callback_implementations.py", "    op[0, 1, 1] = 1.0", "    op[0, 0, 0] = 1.0")], "OBSDEF")
M("C13", "dark padding with a different filter", "kill",
  [(IMPL, "                orthogonality_center=get_extended_site_index(\n                    self.well_prepared_qubits_filter,", "                orthogonality_center=get_extended_site_index(\n                    torch.ones_like(self.well_prepared_qubits_filter),")], "DARK-mps")
M("C14", "fill_results after the index increment", "kill", [(IMPL, "        self.fill_results()\n        self._timestep_index += 1\n", "        self._timestep_index += 1\n        self.fill_results()\n")], "ONCE")
M("C14", "callback time differs from the filter time", "kill",
  [(IMPL, "            callback(\n                self.config,\n                fractional_time,\n                state,", "            callback(\n                self.config,\n                self.target_time / self.target_times[-1],\n                state,")], "ONCE")
M("C14", "sv observables with the old index", "kill", [(SVI, "        step_idx += 1\n        self._apply_observables(step_idx)", "        self._apply_observables(step_idx)\n        step_idx += 1")], "STEP-sv")
M("C14", "exact merge of times", "kill",
  [(PA, "    target_times_rel = _merge_close_times(\n        evolution_times_rel | _unique_observable_times(config)\n    )", "    target_times_rel = evolution_times_rel | _unique_observable_times(config)")], "TIMEEQ")
M("C14", "observable times not merged", "kill",
  [(PA, "    target_times_rel = _merge_close_times(\n        evolution_times_rel | _unique_observable_times(config)\n    )", "    target_times_rel = _merge_close_times(evolution_times_rel)")], "GRID")
M("C14", "extra fill_results call", "kill", [(IMPL, "        self.current_time = self.target_time\n        self.timestep_complete()\n\n    def timestep_complete(self) -> None:\n        self.fill_results()",
                                            "        self.current_time = self.target_time\n        self.fill_results()\n        self.timestep_complete()\n\n    def timestep_complete(self) -> None:\n        self.fill_results()")], "ONCE")
M("C14", "twin: rename fractional_time", "twin",
  [(IMPL, "        fractional_time = self.current_time / self.target_times[-1]\n\n        callbacks_for_current_time_step = [\n            callback\n            for callback in self.config.observables\n            if self._is_evaluation_time(callback, fractional_time)\n        ]",
    "        rel_t = self.current_time / self.target_times[-1]\n        fractional_time = rel_t\n\n        callbacks_for_current_time_step = [\n            callback\n            for callback in self.config.observables\n            if self._is_evaluation_time(callback, rel_t)\n        ]")])

# ---------------------------------------------------------------- C15 / C16 / C17 / C18
M("C15", "rates swapped on the way down", "kill", [("emu_base/utils.py", "                readout_with_error(c, p_false_pos=p_false_pos, p_false_neg=p_false_neg)", "                readout_with_error(c, p_false_pos=p_false_neg, p_false_neg=p_false_pos)")], "KWSWAP")
M("C15", "readout compares with the wrong rate", "kill", [("emu_base/utils.py", "    if c == \"0\" and r < p_false_pos:", "    if c == \"0\" and r < p_false_neg:")], "ROLE-readout")
M("C15", "density-matrix sampler swaps rates", "kill",
  [("emu_sv/density_matrix_state.py", "                p_false_pos=p_false_pos,\n                p_false_neg=p_false_neg,", "                p_false_pos=p_false_neg,\n                p_false_neg=p_false_pos,")], "KWSWAP")
M("C15", "MPS writes leakage as 1", "kill", [("emu_mps/mps.py", "\"1\" if x == 1 else \"0\" for x in outcome", "\"0\" if x == 0 else \"1\" for x in outcome")], "ROLE-readout")
M("C16", "density stepper hermitian", "kill", [(TE, "                is_hermitian=False,\n", "                is_hermitian=True,\n")], "HERM")
M("C16", "lindbladian sign of the dagger part", "kill", [(LO, "        H_den_matrix = H_den_matrix - H_den_matrix.conj().T", "        H_den_matrix = H_den_matrix + H_den_matrix.conj().T")], "LINDBLAD-form")
M("C16", "jump term coefficient", "kill", [(LO, "        return H_den_matrix + 1.0j * L_den_matrix_Ldag", "        return H_den_matrix + L_den_matrix_Ldag")], "LINDBLAD-form")
M("C16", "noise term factor", "kill", [(JL, "    return -0.5j * sum((L.mH @ L for L in lindbladians), start=zero)", "    return -1.0j * sum((L.mH @ L for L in lindbladians), start=zero)")], "LINDBLAD-form")
M("C16", "stepper chosen independently of the state type", "kill",
  [(SVI, "        if self.pulser_lindblads:\n            stepper = EvolveDensityMatrix\n            state_type = DensityMatrix", "        if self.pulser_lindblads:\n            stepper = EvolveDensityMatrix\n            state_type = StateVector")], "ROLE-sv")
M("C17", "noise term never installed", "kill", [(IMPL, "        self.lindblad_noise = compute_noise_from_lindbladians(self.lindblad_ops, self.dim)", "        self.lindblad_noise = compute_noise_from_lindbladians([], self.dim)")], "ROLE-noise")
M("C17", "jump candidates operator-major", "kill",
  [(IMPL, "                for qubit in range(self.state.num_sites)\n                for op in self.lindblad_ops", "                for op in self.lindblad_ops\n                for qubit in range(self.state.num_sites)")], "ROLE-noise")
M("C17", "no bath rebuild after a jump", "kill", [(IMPL, "        self.state *= 1 / self.state.norm()\n        self.init_baths()\n", "        self.state *= 1 / self.state.norm()\n")], "ROLE-noise")
M("C17", "aggregated ops without dagger", "kill", [(IMPL, "stacked.conj().transpose(1, 2) @ stacked", "stacked.transpose(1, 2) @ stacked")], "ROLE-noise")
M("C18", "finder started on the wrong bracket", "kill", [(IMPL, "                    start=previous_time,\n                    end=self.current_time,", "                    start=self.current_time,\n                    end=self.target_time,")], "JUMP-path")
M("C18", "gaps swapped", "kill", [(IMPL, "                    f_start=previous_norm_gap_before_jump,\n                    f_end=self.norm_gap_before_jump,", "                    f_start=self.norm_gap_before_jump,\n                    f_end=previous_norm_gap_before_jump,")], "JUMP-path")
M("C18", "step also completed when a jump starts", "kill",
  [(IMPL, "                self.target_time = self.root_finder.get_next_abscissa()\n            else:\n                self.timestep_complete()\n\n            return", "                self.target_time = self.root_finder.get_next_abscissa()\n            self.timestep_complete()\n\n            return")], "JUMP-path")
M("C18", "finder not cleared after the jump", "kill", [(IMPL, "            self.target_time = self.target_times[self._timestep_index + 1]\n            self.root_finder = None\n", "            self.target_time = self.target_times[self._timestep_index + 1]\n")], "JUMP-path")
M("C18", "index advanced outside timestep_complete", "kill", [(IMPL, "            self.do_random_quantum_jump()\n            self.target_time = self.target_times[self._timestep_index + 1]", "            self.do_random_quantum_jump()\n            self._timestep_index += 0\n            self.target_time = self.target_times[self._timestep_index + 1]")], "JUMP-ownership")

# ---------------------------------------------------------------- C21 / C22 / C23 / C24 / C25
M("C21", "grid starts at dt", "kill", [(PA, "        i * float(dt) / duration for i in range(n_steps + 1)", "        i * float(dt) / duration for i in range(1, n_steps + 1)")], "GRID")
M("C21", "end point dropped", "kill", [(PA, "    evolution_times_rel.add(1.0)\n", "")], "GRID")
M("C21", "duration ignores modulation", "kill", [(PA, "sequence.get_duration(include_fall_time=config.with_modulation)", "sequence.get_duration()")], "GRID")
M("C21", "reps ignored", "kill", [(PA, "            for _ in range(samples.reps):\n                yield SequenceData(", "            if True:\n                yield SequenceData(")], "TRAJ-reps")
M("C21", "list instead of set", "kill", [(PA, "    target_times: list[float] = sorted({t * duration for t in target_times_rel})", "    target_times: list[float] = sorted([t * duration for t in target_times_rel] + [duration])")], "GRID")
M("C22", "clamp only the last row", "kill",
  [(PA, "                data_mid[:, q_pos] = torch.where(\n                    data_mid[:, q_pos] > 0,\n                    data_mid[:, q_pos],", "                data_mid[-1, q_pos] = torch.where(\n                    data_mid[-1, q_pos] > 0,\n                    data_mid[-1, q_pos],")], "CLAMP")
M("C22", "clamp applied to every signal", "kill", [(PA, "            if name == \"amp\":\n", "            if True:\n")], "CLAMP")
M("C22", "det and phase arrays swapped in the table", "kill", [(PA, "        \"det\": delta_mid,\n        \"phase\": phi_mid,", "        \"det\": phi_mid,\n        \"phase\": delta_mid,")], "STEP-adapter")
M("C22", "evaluated at step starts", "kill", [(PA, "            data_mid[:, q_pos] = pchip(t_mid)", "            data_mid[:, q_pos] = pchip(target_t[:-1])")], "STEP-adapter")
M("C22", "delta and phi swapped at the consumer", "kill", [(PA, "            omega, delta, phi = _extract_omega_delta_phi(", "            omega, phi, delta = _extract_omega_delta_phi(")], "ROLE-seqdata")
M("C22", "twin: clamp with torch.clamp", "twin",
  [(PA, "                data_mid[:, q_pos] = torch.where(\n                    data_mid[:, q_pos] > 0,\n                    data_mid[:, q_pos],\n                    0,\n                )", "                data_mid[:, q_pos] = torch.clamp(data_mid[:, q_pos], min=0)")])
M("C23", "register matrix preferred over the user matrix", "kill",
  [(PA, "                self.full_interaction_matrix\n                if self.full_interaction_matrix is not None\n                else samples.trajectory.interaction_matrix.as_tensor()", "                samples.trajectory.interaction_matrix.as_tensor()\n                if self.full_interaction_matrix is None or True\n                else self.full_interaction_matrix")], "INTERACT")
M("C23", "no clone before the cutoff", "kill", [(PA, "            full_interaction_matrix = full_interaction_matrix.clone()\n\n", "")], "INTERACT")
M("C23", "cutoff without abs", "kill", [(PA, "                torch.abs(full_interaction_matrix) < self.interaction_cutoff", "                full_interaction_matrix < self.interaction_cutoff")], "INTERACT")
M("C23", "SLM columns left", "kill", [(PA, "                masked_interaction_matrix[target] = 0.0\n                masked_interaction_matrix[:, target] = 0.0", "                masked_interaction_matrix[target] = 0.0")], "INTERACT")
M("C23", "switch uses <=", "kill", [(PA, "        if t < self.slm_end_time:", "        if t <= self.slm_end_time:")], "INTERACT")
M("C23", "matrix queried at the previous step", "kill", [(IMPL, "            0.5 * (self.current_time + self.target_time)\n", "            1.5 * self.current_time - 0.5 * self.target_time\n")], "INTERACT-time")
M("C24", "dephasing rate not halved", "kill", [(JL, "        c = math.sqrt(noise_model.dephasing_rate / 2)", "        c = math.sqrt(noise_model.dephasing_rate)")], "BASIS-rate")
M("C24", "relaxation writes r<-g", "kill", [(JL, "        relaxation[0, 1] = c", "        relaxation[1, 0] = c")], "BASIS-table")
M("C24", "depolarizing without square root", "kill", [(JL, "        c = math.sqrt(noise_model.depolarizing_rate / 4)", "        c = noise_model.depolarizing_rate / 4")], "BASIS-rate")
M("C24", "XY operators flipped too", "kill", [(JL, "        if interact_type == \"ising\":\n            for tensor in lindblad_ops:", "        if True:\n            for tensor in lindblad_ops:")], "BASIS")
M("C24", "eff_noise rate without sqrt", "kill", [(JL, "            math.sqrt(rate) * op", "            rate * op")], "BASIS-rate")
M("C25", "mask not permuted", "kill", [(IMPL, "            self.well_prepared_qubits_filter = torch.logical_not(\n                torch.tensor(bad_atoms)\n            )[self.qubit_permutation]", "            self.well_prepared_qubits_filter = torch.logical_not(\n                torch.tensor(bad_atoms)\n            )")], "PERM")
M("C25", "phi not filtered", "kill", [(IMPL, "            self.phi = self.phi[:, self.well_prepared_qubits_filter]\n", "")], "DARK-mps")
M("C25", "filter keeps the bad atoms", "kill", [(IMPL, "            self.well_prepared_qubits_filter = torch.logical_not(\n                torch.tensor(bad_atoms)\n            )[self.qubit_permutation]", "            self.well_prepared_qubits_filter = torch.tensor(bad_atoms)[self.qubit_permutation]")], "DARK-mps")
M("C25", "sv zeroes only rows", "kill", [(SVI, "                mat[indices, :] = 0.0\n                mat[:, indices] = 0.0", "                mat[indices, :] = 0.0")], "DARK-sv")
M("C25", "sv edits the shared matrix", "kill", [(SVI, "                mat = original(t).clone()", "                mat = original(t)")], "DARK-sv")
M("C25", "dark factor literal dimension", "kill", [("emu_mps/utils.py", "            factor = torch.zeros(\n                bond_dimension, dim, 1, dtype=torch.complex128\n            )", "            factor = torch.zeros(\n                bond_dimension, 2, 1, dtype=torch.complex128\n            )")], "PHYSDIM")

# ---------------------------------------------------------------- C26 / C27
M("C26", "resume returns raw results", "kill", [(BACK, "        return impl.permute_results(result, impl.config.optimize_qubit_ordering)\n\n    def run", "        return result\n\n    def run")], "PERM-entry")
M("C26", "autosave not removed", "kill", [(BACK, "        if impl.autosave_file.is_file():\n            os.remove(impl.autosave_file)\n", "")], "ENTRY-cleanup")
M("C26", "results not restored", "kill", [(IMPL, "        self.results = Results._from_abstract_repr(d[\"results\"])  # type: ignore [attr-defined]\n", "")], "PICKLE")
M("C26", "observables not re-patched", "kill", [(IMPL, "        self.config.monkeypatch_observables()\n\n    @staticmethod\n    def _get_autosave_filepath", "        pass\n\n    @staticmethod\n    def _get_autosave_filepath")], "PICKLE")
M("C26", "resume keeps the old autosave path", "kill", [(BACK, "        impl.autosave_file = autosave_file\n", "")], "ENTRY-resume")
M("C27", "two renames", "kill",
  [(IMPL, "        os.replace(basename.with_suffix(\".new\"), basename)\n", "        if basename.is_file():\n            os.rename(basename, basename.with_suffix(\".bak\"))\n        os.rename(basename.with_suffix(\".new\"), basename)\n")], "SAVE-window")
M("C27", "write in place", "kill",
  [(IMPL, "        with open(basename.with_suffix(\".new\"), \"wb\") as file_handle:\n            pickle.dump(self, file_handle)\n", "        with open(basename, \"wb\") as file_handle:\n            pickle.dump(self, file_handle)\n        return\n")], "SAVE")
M("C27", "remove before replace", "kill", [(IMPL, "        os.replace(basename.with_suffix(\".new\"), basename)\n", "        os.remove(basename)\n        os.replace(basename.with_suffix(\".new\"), basename)\n")], "SAVE-window")
M("C27", "twin: rename the local", "twin", [(IMPL, "        basename = self.autosave_file\n        with open(basename.with_suffix(\".new\"), \"wb\") as file_handle:", "        basename = self.autosave_file\n        tmp = basename.with_suffix(\".new\")\n        with open(tmp, \"wb\") as file_handle:")])

# ---------------------------------------------------------------- C30 / C31 / C32 / C33 / C34
PT = "emu_base/math/pchip_torch.py"
M("C30", "where-guarded division", "kill", [(PT, "    dh = _weighted_harmonic_mean(safe_delta_l, safe_delta_r, h_l, h_r)", "    dh = _weighted_harmonic_mean(delta_l, delta_r, h_l, h_r)")], "WGDIV")
M("C30", "detach in the adapter", "kill", [(PA, "            pchip = PCHIP1D(t_grid, signal.real)", "            pchip = PCHIP1D(t_grid, signal.real.detach())")], "GRADPATH")
M("C30", "item in the occupation", "kill", [("emu_sv/custom_callback_implementations.py", "    hstate = hamiltonian * state.data\n    h_squared = torch.vdot(hstate, hstate).real\n    energy = torch.vdot(state.data, hstate).real", "    hstate = hamiltonian * state.data\n    h_squared = torch.vdot(hstate, hstate).real\n    energy = torch.vdot(state.data, hstate).real.item()")], "GRADPATH")
M("C30", "backward swaps delta and phi gradients", "kill", [(TE, "            grad_omegas,\n            grad_deltas,\n            grad_phis,\n            grad_int_mat,", "            grad_omegas,\n            grad_phis,\n            grad_deltas,\n            grad_int_mat,")], "AUTOGRAD")
M("C30", "saved tensors unpacked in another order", "kill", [(TE, "        omegas, deltas, phis, interaction_matrix, state = ctx.saved_tensors", "        omegas, phis, deltas, interaction_matrix, state = ctx.saved_tensors")], "AUTOGRAD")
M("C30", "wrong needs_input_grad index", "kill", [(TE, "        if ctx.needs_input_grad[2]:\n            grad_deltas", "        if ctx.needs_input_grad[3]:\n            grad_deltas")], "AUTOGRAD")
M("C30", "knot validation removed", "kill", [(PT, "        if not torch.all(x[1:] > x[:-1]):\n            raise ValueError(\"x must be strictly increasing\")\n", "")], "WGDIV-seed")
M("C31", "unknown keyword to Results", "kill", [(SVI, "            atom_order=data.qubit_ids,\n            total_duration=int(self.target_times[-1]),", "            atom_order=data.qubit_ids,\n            total_time=int(self.target_times[-1]),")], "APICOMPAT-call")
M("C31", "import of a missing name", "kill", [("emu_sv/sv_backend.py", "from pulser.backend import EmulatorBackend, Results, BitStrings", "from pulser.backend import EmulatorBackend, Results, BitStrings, ResultsAggregator")], "APICOMPAT-import")
M("C31", "apply no longer accepts hamiltonian", "kill", [("emu_mps/observables.py", "    def apply(self, *, state: State, **kwargs: Any) -> torch.Tensor:", "    def apply(self, *, state: State, config: Any = None) -> torch.Tensor:")], "APICOMPAT-override")
M("C31", "specifiers diverge", "kill", [("ci/emu_base/pyproject.toml", "\"pulser-core[torch]>=1.8.0\"", "\"pulser-core[torch]>=1.7.0\"")], "APICOMPAT-spec")
M("C32", "identity not a candidate", "kill", [("emu_mps/optimatrix/optimiser.py", "        [torch.arange(L)],  # identity permutation\n", "        [torch.randperm(L)],\n")], "ARGMIN")
M("C32", "arg-max", "kill", [("emu_mps/optimatrix/optimiser.py", "    best_perm, best_bandwidth = min(\n", "    best_perm, best_bandwidth = max(\n")], "ARGMIN")
M("C32", "inverse is a gather", "kill", [("emu_mps/optimatrix/permutations.py", "    inv_perm = torch.empty_like(permutation)\n    inv_perm[permutation] = torch.arange(len(permutation))\n    return inv_perm", "    inv_perm = torch.arange(len(permutation))[permutation]\n    return inv_perm")], "ARGMIN-helpers")
M("C32", "improvement replaces instead of composing", "kill", [("emu_mps/optimatrix/optimiser.py", "        acc_permutation = permute_tensor(acc_permutation, optimal_perm)", "        acc_permutation = optimal_perm")], "ARGMIN")
M("C32", "permute_list scatters", "kill", [("emu_mps/optimatrix/permutations.py", "    return [input_list[i] for i in perm.tolist()]", "    out = list(input_list)\n    for k, i in enumerate(perm.tolist()):\n        out[i] = input_list[k]\n    return out")], "ARGMIN-helpers")
M("C33", "floor stores the requested value", "kill", [("emu_mps/mps_config.py", "            new_extra_krylov_tolerance = MIN_KRYLOV_TOL / precision\n", "            new_extra_krylov_tolerance = extra_krylov_tolerance\n")], "CONFIG-krylov-floor")
M("C33", "floor constant changed", "kill", [("emu_mps/mps_config.py", "        MIN_KRYLOV_TOL = 1.0e-12  # keep numerical stability", "        MIN_KRYLOV_TOL = 1.0e-14  # keep numerical stability")], "CONFIG-krylov-floor")
M("C33", "autosave bound loosened", "kill", [("emu_mps/mps_config.py", "            self.autosave_dt > MIN_AUTOSAVE_DT\n", "            self.autosave_dt >= MIN_AUTOSAVE_DT\n")], "CONFIG-autosave")
M("C33", "reorder guard dropped", "kill",
  [("emu_mps/mps_config.py", "        self._backend_options[\n            \"optimize_qubit_ordering\"\n        ] &= self.check_permutable_observables()\n", "        self.check_permutable_observables()\n")], "CONFIG-reorder-guard")
M("C33", "reorder guard only when noisy", "kill",
  [("emu_mps/mps_config.py", "        self._backend_options[\n            \"optimize_qubit_ordering\"\n        ] &= self.check_permutable_observables()\n", "        if self.noise_model.noise_types:\n            self._backend_options[\n                \"optimize_qubit_ordering\"\n            ] &= self.check_permutable_observables()\n")], "CONFIG-reorder-guard")
M("C33", "twin: if/raise instead of assert", "twin",
  [("emu_mps/mps_config.py", "        assert (\n            self.autosave_dt > MIN_AUTOSAVE_DT\n        ), f\"autosave_dt must be larger than {MIN_AUTOSAVE_DT} seconds\"", "        if not self.autosave_dt > MIN_AUTOSAVE_DT:\n            raise AssertionError(f\"autosave_dt must be larger than {MIN_AUTOSAVE_DT} seconds\")")])
M("C34", "first trajectory skipped", "kill", [(BACK, "        for sequence_data in pulser_data.get_sequences():\n            results.append(self._run_from_sequence_data(sequence_data, self._config))", "        for i, sequence_data in enumerate(pulser_data.get_sequences()):\n            if i == 0 and self._config.n_trajectories > 4:\n                continue\n            results.append(self._run_from_sequence_data(sequence_data, self._config))")], "TRAJ")
M("C34", "only the last result returned", "kill", [("emu_sv/sv_backend.py", "        return Results.aggregate(results)", "        return Results.aggregate(results[-1:])")], "TRAJ")
M("C34", "n_trajectories not forwarded", "kill", [(PA, "            n_trajectories=config.n_trajectories,\n", "")], "GRID")

# ---------------------------------------------------------------- rules added after the seeded-change rounds
LO = "emu_sv/lindblad_operator.py"
HSV = "emu_sv/hamiltonian.py"
MPSF = "emu_mps/mps.py"
M("C04", "single-basis guard removed", "kill",
  [(PA, "    if len(sequence_dict) != 1:\n        raise ValueError(\"Only single interaction type is supported.\")\n", "")], "DISPATCH-reject")
M("C04", "imaginary-part guard removed", "kill",
  [(PA, "                raise ValueError(f\"Input {name} has non-zero imaginary part.\")", "                pass")], "DISPATCH-reject")
M("C04", "qudit false-positive guard removed", "kill",
  [(MPSF, "        if p_false_pos > 0 and self.dim > 2:\n            raise NotImplementedError(\"Not implemented for qudits > 2 levels\")\n", "")], "DISPATCH-reject")
M("C04", "dim guard accepts 4", "kill", [("emu_mps/hamiltonian.py", "        if dim not in (2, 3):", "        if dim not in (2, 3, 4):")], "DISPATCH-reject")
M("C04", "initial state with SPAM no longer rejected", "kill",
  [(SVI, "        if self._config.initial_state is not None and self._data.state_prep_error > 0.0:", "        if False:")], "DISPATCH-reject")
M("C04", "twin: single-basis guard written with ==", "twin",
  [(PA, "    if len(sequence_dict) != 1:\n        raise ValueError(\"Only single interaction type is supported.\")\n",
    "    if not len(sequence_dict) == 1:\n        raise ValueError(\"Only single interaction type is supported.\")\n")])
M("C06", "h_eff skips undriven qubits", "kill",
  [(LO, "            H_q = self._local_terms_hamiltonian(qubit, lindblad_ops.to(self.device))\n",
    "            if self.omegas[qubit] == 0.0 and self.deltas[qubit] == 0.0:\n                continue\n            H_q = self._local_terms_hamiltonian(qubit, lindblad_ops.to(self.device))\n")], "LINDBLAD-form")
M("C16", "jump term skips the last qubit", "kill",
  [(LO, "            for qubit in range(self.nqubits)\n            for L in self.pulser_lindblads", "            for qubit in range(self.nqubits - 1)\n            for L in self.pulser_lindblads")], "LINDBLAD-form")
M("C16", "interaction term inside the qubit loop", "kill",
  [(LO, "                density_matrix, H_q, qubit\n            )\n\n        H_den_matrix += self._apply_interaction_terms(density_matrix)",
    "                density_matrix, H_q, qubit\n            )\n            H_den_matrix += self._apply_interaction_terms(density_matrix)\n")], "LINDBLAD-form")
M("C01", "diagonal pairs start at j = i", "kill", [(HSV, "            for j in range(i + 1, self.nqubits):", "            for j in range(i, self.nqubits):")], "HAM-form")
M("C01", "detuning added instead of subtracted", "kill", [(HSV, "            i_fixed -= self.deltas[i]", "            i_fixed += self.deltas[i]")], "HAM-form")
M("C01", "sigma term skips zero drives by index", "kill",
  [(HSV, "        for n, omega_n in enumerate(self.omegas):", "        for n, omega_n in enumerate(self.omegas[:-1]):")], "HAM-form")
M("C09", "DMRG completes the step before the sweep ends", "kill",
  [(IMPL, "        self.current_energy = energy\n\n        # updating baths and orthogonality center\n",
    "        self.current_energy = energy\n        if self.sweep_count > self.config.max_sweeps // 2:\n            self.timestep_complete()\n            return\n\n        # updating baths and orthogonality center\n")], "CONV-gate")
M("C11", "rmul scales factor 0 but keeps the centre claim", "kill",
  [(MPSF, "        factors = scale_factors(self.factors, scalar, which=which)", "        factors = scale_factors(self.factors, scalar, which=0)")], "CENTER-scale")
M("C11", "scale_factors scales every factor", "kill",
  [("emu_mps/algebra.py", "    return [scalar * f if i == which else f for i, f in enumerate(factors)]", "    return [scalar * f if i <= which else f for i, f in enumerate(factors)]")], "CENTER-scale")
M("C11", "twin: which chosen by an if statement", "twin",
  [(MPSF, "        which = (\n            self.orthogonality_center\n            if self.orthogonality_center is not None\n            else 0  # No need to orthogonalize for scaling.\n        )\n",
    "        if self.orthogonality_center is None:\n            which = 0\n        else:\n            which = self.orthogonality_center\n")])
M("C12", "dense operator: identity buffer shared by all terms", "kill",
  [("emu_sv/dense_operator.py", "        for coeff, oper_torch_with_target_qubits in operations:\n",
    "        single_qubit_gates = [torch.eye(2, dtype=dtype) for _ in range(n_qudits)]\n        for coeff, oper_torch_with_target_qubits in operations:\n"),
   ("emu_sv/dense_operator.py", "            single_qubit_gates = [torch.eye(2, dtype=dtype) for _ in range(n_qudits)]\n\n            for operator_torch", "            for operator_torch")], "TABLES-terms")
M("C11", "MPO: identity buffer shared by all terms", "kill",
  [("emu_mps/mpo.py", "        mpos = []\n        for coeff, tensorop in operations:\n",
    "        mpos = []\n        factors = [torch.eye(dim, dim, dtype=dtype).view(1, dim, dim, 1)] * n_qudits\n        for coeff, tensorop in operations:\n"),
   ("emu_mps/mpo.py", "            factors = [torch.eye(dim, dim, dtype=dtype).view(1, dim, dim, 1)] * n_qudits\n\n            for op in tensorop:", "            for op in tensorop:")], "TABLES-terms")
M("C12", "sparse operator: coefficient dropped", "kill",
  [("emu_sv/sparse_operator.py", "accum_res, coeff * reduce(sparse_kron, single_qubit_gates)", "accum_res, reduce(sparse_kron, single_qubit_gates)")], "TABLES-terms")
M("C15", "MPS.sample: readout errors only for qubits", "kill",
  [(MPSF, "        if p_false_neg > 0 or p_false_pos > 0 and self.dim == 2:", "        if (p_false_neg > 0 or p_false_pos > 0) and self.dim == 2:")], "ROLE-readout")
M("C23", "SLM copy taken before the cutoff", "kill",
  [(PA, "            full_interaction_matrix = full_interaction_matrix.clone()\n\n", "            full_interaction_matrix = full_interaction_matrix.clone()\n            masked_interaction_matrix = full_interaction_matrix.clone()\n\n"),
   (PA, "            masked_interaction_matrix = full_interaction_matrix.clone()\n\n            # disable interaction", "            # disable interaction")], "INTERACT")
M("C08", "stalled restart reported as converged", "kill",
  [("emu_base/math/krylov_energy_min.py", "        result = replace(result, restart_count=r, iteration_count=total_iters)",
    "        result = replace(result, restart_count=r, iteration_count=total_iters, converged=result.converged or r > 3)")], "CONV-rewrite")
M("C24", "eff_noise operators filtered but rates not", "kill",
  [(JL, "            torch.tensor(op, dtype=torch.complex128) for op in noise_model.eff_noise_opers\n",
    "            torch.tensor(op, dtype=torch.complex128) for op in noise_model.eff_noise_opers if op is not None\n")], "BASIS-rate")
M("C24", "twin: zero-rate pairs dropped", "twin",
  [(JL, "            for rate, op in zip(noise_model.eff_noise_rates, torch_ops)", "            for rate, op in zip(noise_model.eff_noise_rates, torch_ops) if rate > 0.0")])
M("C26", "autosave drops an attribute and recomputes it on load", "kill",
  [(IMPL, "        d[\"results\"] = self.results._to_abstract_repr()  # type: ignore[operator]\n        return d",
    "        d[\"results\"] = self.results._to_abstract_repr()  # type: ignore[operator]\n        del d[\"current_interaction_matrix\"]\n        return d"),
   (IMPL, "        self.config.monkeypatch_observables()\n\n    @staticmethod\n    def _get_autosave_filepath",
    "        self.config.monkeypatch_observables()\n        self.current_interaction_matrix = self._get_interaction_matrix()\n\n    @staticmethod\n    def _get_autosave_filepath")], "PICKLE-whole")
M("C26", "resume resets the sweep position", "kill",
  [(IMPL, "        self.config.monkeypatch_observables()\n\n    @staticmethod\n    def _get_autosave_filepath",
    "        self.config.monkeypatch_observables()\n        self._sweep_index = 0\n\n    @staticmethod\n    def _get_autosave_filepath")], "PICKLE-whole")
M("C30", "phase derivative takes the real shortcut at phi = 0", "kill",
  [(TE, "        self.inds = torch.tensor([1, 0], device=device)  # flips the state, for 𝜎ₓ\n\n    def __matmul__(self, vec: torch.Tensor) -> torch.Tensor:\n        vec = vec.view(vec.shape[0], *self.shape)  # add batch dimension\n        result = torch.zeros_like(vec)\n        _apply_omega_complex(result, 2, self.inds, vec, alpha=self.alpha)",
    "        self.inds = torch.tensor([1, 0], device=device)  # flips the state, for 𝜎ₓ\n        self._apply_sigmas = _apply_omega_complex if phi.is_nonzero() else _apply_omega_real\n\n    def __matmul__(self, vec: torch.Tensor) -> torch.Tensor:\n        vec = vec.view(vec.shape[0], *self.shape)  # add batch dimension\n        result = torch.zeros_like(vec)\n        self._apply_sigmas(result, 2, self.inds, vec, alpha=self.alpha)")], "GRAD-ops")
M("C30", "phase derivative exponent without the quarter turn", "kill",
  [(TE, "        self.alpha = 0.5 * (omega * torch.exp(1j * (phi + torch.pi / 2))).item()", "        self.alpha = 0.5 * (omega * torch.exp(1j * (phi + torch.pi / 4))).item()")], "GRAD-ops")
M("C30", "omega derivative forgets the factor one half", "kill",
  [(TE, "        self.alpha = 0.5 * torch.exp(1j * phi).item()", "        self.alpha = torch.exp(1j * phi).item()")], "GRAD-ops")
M("C30", "omega derivative real shortcut under the wrong test", "kill",
  [(TE, "        if phi.is_nonzero():\n            self._apply_sigmas = _apply_omega_complex\n        else:  # ∂H/∂Ωₖ = 0.5σˣₖ",
    "        if index > 0:\n            self._apply_sigmas = _apply_omega_complex\n        else:  # ∂H/∂Ωₖ = 0.5σˣₖ")], "GRAD-ops")
M("C30", "Krylov exponential normalises its input in place", "kill",
  [("emu_base/math/krylov_exp.py", "    v = v / initial_norm\n", "    v /= initial_norm\n")], "AUTOGRAD-inplace")
M("C30", "forward scales the input state in place", "kill",
  [(TE, "        res, ham = EvolveStateVector.evolve(\n            dt,\n            omegas,\n            deltas,\n            phis,\n            interaction_matrix,\n            state,",
    "        state.mul_(1.0)\n        res, ham = EvolveStateVector.evolve(\n            dt,\n            omegas,\n            deltas,\n            phis,\n            interaction_matrix,\n            state,")], "AUTOGRAD-inplace")
M("C31", "renormalisation guard on norm instead of norm**4", "kill",
  [(MPSF, "        if abs(norm**4 - 1.0) > 1e-12:", "        if abs(norm - 1.0) > 1e-12:")], "APICOMPAT-norm")
M("C31", "renormalisation guard looser than Pulser's check", "kill",
  [(MPSF, "        if abs(norm**4 - 1.0) > 1e-12:", "        if abs(norm**4 - 1.0) > 1e-10:")], "APICOMPAT-norm")
M("C31", "twin: stricter renormalisation guard", "twin",
  [(MPSF, "        if abs(norm**4 - 1.0) > 1e-12:", "        if abs(norm**4 - 1.0) > 1e-13:")])
M("C13", "expect_batch: left walk through the conjugate transpose", "kill",
  [(MPSF, "                center_factor.view(center_factor.shape[0], -1).mT,", "                center_factor.view(center_factor.shape[0], -1).mH,")], "GAUGE")
M("C10", "orthogonalize: R contracted on its first index in the left move", "kill",
  [(MPSF, "                self.factors[i - 1], r.to(self.factors[i - 1].device), ([2], [1])", "                self.factors[i - 1], r.to(self.factors[i - 1].device), ([2], [0])")], "GAUGE")
M("C10", "orthogonalize: Q stored without the transpose", "kill",
  [(MPSF, "            self.factors[i] = q.mT.view(-1, self.dim, self.factors[i].shape[2])", "            self.factors[i] = q.view(-1, self.dim, self.factors[i].shape[2])")], "GAUGE")
M("C11", "expect_batch: right walk contracts next with R on the wrong side", "kill",
  [(MPSF, "                center_factor = torch.tensordot(\n                    r, self.factors[qubit_index + 1].to(r.device), dims=1\n                )",
    "                center_factor = torch.tensordot(\n                    self.factors[qubit_index + 1].to(r.device), r, dims=1\n                )")], "GAUGE")
M("C13", "twin: left walk through .mH with conj(R)", "twin",
  [(MPSF, "                center_factor.view(center_factor.shape[0], -1).mT,", "                center_factor.view(center_factor.shape[0], -1).mH,"),
   (MPSF, "                self.factors[qubit_index],\n                r.to(self.factors[qubit_index].device),\n                ([2], [1]),", "                self.factors[qubit_index],\n                r.conj().to(self.factors[qubit_index].device),\n                ([2], [1]),")])
M("C04", "emu-sv guard polarity flipped (accepts only XY)", "kill",
  [(SVI, "        if data.hamiltonian_type != HamiltonianType.Rydberg or data.dim != 2:", "        if data.hamiltonian_type == HamiltonianType.Rydberg or data.dim != 2:")], "DISPATCH-reject")
M("C04", "emu-sv accepts three levels", "kill",
  [(SVI, "        if data.hamiltonian_type != HamiltonianType.Rydberg or data.dim != 2:", "        if data.hamiltonian_type != HamiltonianType.Rydberg or data.dim != 3:")], "DISPATCH-reject")
M("C04", "emu-sv initial-state size check inverted", "kill",
  [(SVI, "            self._config.initial_state.n_qudits != self.nqubits\n", "            self._config.initial_state.n_qudits == self.nqubits\n")], "DISPATCH-reject")
M("C04", "twin: emu-sv guard written with not/and", "twin",
  [(SVI, "        if data.hamiltonian_type != HamiltonianType.Rydberg or data.dim != 2:", "        if not (data.hamiltonian_type == HamiltonianType.Rydberg and data.dim == 2):")])
M("C13", "emu-sv rebuilds the callbacks' Hamiltonian whenever observables are due", "kill",
  [(SVI, "        if not self._current_H and callbacks_for_current_time_step:", "        if not self._current_H or callbacks_for_current_time_step:")], "STEP-sv")
M("C13", "emu-sv initial Hamiltonian: interaction matrix at the wrong time", "kill",
  [(SVI, "                    0.5 * (self.target_times[step_idx] + self.target_times[step_idx + 1])\n                ),\n                device=self.state.data.device,",
    "                    0.5 * (self.target_times[step_idx] - self.target_times[step_idx + 1])\n                ),\n                device=self.state.data.device,")], "STEP-sv")
M("C13", "emu-sv initial Hamiltonian: phase row from delta", "kill",
  [(SVI, "                deltas=self.delta[0],\n                phis=self.phi[0],", "                deltas=self.delta[0],\n                phis=self.delta[0],")], "ROLE-sv")
M("C13", "twin: initial Hamiltonian at the start of the step", "twin",
  [(SVI, "                    0.5 * (self.target_times[step_idx] + self.target_times[step_idx + 1])\n                ),\n                device=self.state.data.device,",
    "                    self.target_times[step_idx]\n                ),\n                device=self.state.data.device,")])
M("C14", "merge keeps only the near-duplicates", "kill",
  [(PA, "        if merged and t - merged[-1] <= _TIME_MERGE_TOLERANCE:", "        if not (merged and t - merged[-1] <= _TIME_MERGE_TOLERANCE):")], "TIMEEQ-merge")
M("C14", "merged end point is not 1.0", "kill", [(PA, "            if t == 1.0:\n                merged[-1] = t", "            if t != 1.0:\n                merged[-1] = t")], "TIMEEQ-merge")
M("C14", "merge tolerance above the matching tolerance", "kill", [(PA, "_TIME_MERGE_TOLERANCE = 1e-10", "_TIME_MERGE_TOLERANCE = 1e-6")], "TIMEEQ-merge")
M("C21", "distinct times appended only after the first", "kill",
  [(PA, "        merged.append(t)\n    return merged", "        if merged:\n            merged.append(t)\n        else:\n            merged = [t]\n            continue\n        merged.append(t)\n    return merged")], "TIMEEQ-merge")
M("C14", "twin: strict comparison in the merge", "twin",
  [(PA, "        if merged and t - merged[-1] <= _TIME_MERGE_TOLERANCE:", "        if merged and t - merged[-1] < _TIME_MERGE_TOLERANCE:")])
M("C14", "twin: merge written with else", "twin",
  [(PA, "            continue\n        merged.append(t)\n    return merged", "        else:\n            merged.append(t)\n    return merged")])
M("C24", "given noise model replaced by the empty one", "kill", [(PA, "        if not self.noise_model:\n", "        if self.noise_model:\n")], "NOISE-source")
M("C17", "device noise model preferred when the flag is off", "kill",
  [(PA, "            if config.prefer_device_noise_model\n", "            if not config.prefer_device_noise_model\n")], "NOISE-source")
M("C16", "jump operators from the config's model, sampler from the selected one", "kill",
  [(PA, "            self.noise_model, dim=self.dim, interact_type=int_type", "            config.noise_model, dim=self.dim, interact_type=int_type")], "NOISE-source")
BK = "emu_mps/mps_backend.py"
M("C14", "emu-mps run loop never entered", "kill", [(BK, "        while not impl.is_finished():\n", "        while impl.is_finished():\n")], "DRIVER")
M("C18", "emu-mps run loop progresses once", "kill", [(BK, "        while not impl.is_finished():\n            impl.progress()\n", "        if not impl.is_finished():\n            impl.progress()\n")], "DRIVER")
M("C02", "driver not initialised before the run", "kill", [(BK, "        impl.init()  # This is separate from the constructor for testing purposes.\n", "")], "DRIVER")
M("C13", "energy variance observable bound to the second-moment implementation", "kill",
  [("emu_mps/mps_config.py", "                    energy_variance_mps_impl, obs_copy", "                    energy_second_moment_mps_impl, obs_copy")], "OBSDEF-dispatch")
M("C13", "emu-sv: density-matrix and state-vector implementations swapped", "kill",
  [("emu_sv/sv_config.py", "                    choose(qubit_occupation_sv_impl, qubit_occupation_sv_den_mat_impl),", "                    choose(qubit_occupation_sv_den_mat_impl, qubit_occupation_sv_impl),")], "OBSDEF-dispatch")
M("C13", "emu-sv: correlation matrix left to Pulser's generic implementation", "kill",
  [("emu_sv/sv_config.py", "            if isinstance(obs, CorrelationMatrix):\n", "            if False:\n")], "OBSDEF-dispatch")
M("C13", "emu-mps: patched copy not kept", "kill",
  [("emu_mps/mps_config.py", "            obs_list.append(obs_copy)\n", "            obs_list.append(obs)\n")], "OBSDEF-dispatch")
M("C14", "emu-mps fill_results matches evaluation times within half a nanosecond", "kill",
  [(IMPL, "            if self._is_evaluation_time(callback, fractional_time)\n", "            if self._is_evaluation_time(callback, fractional_time, 0.5 / self.target_times[-1])\n")], "ONCE-tolerance")
M("C14", "emu-sv filter default tolerance widened", "kill",
  [(SVI, "        tolerance: float = 1e-10,\n", "        tolerance: float = 1e-6,\n")], "ONCE-tolerance")
M("C14", "twin: tighter explicit filter tolerance", "twin",
  [(IMPL, "            if self._is_evaluation_time(callback, fractional_time)\n", "            if self._is_evaluation_time(callback, fractional_time, 1e-11)\n")])

# ---------------------------------------------------------------- survivors of the generic sweep over the untested driver layer
M("C04", "noisy sequences get the noiseless driver", "kill", [(IMPL, "    if data.lindblad_ops:\n        return NoisyMPSBackendImpl", "    if not data.lindblad_ops:\n        return NoisyMPSBackendImpl")], "DISPATCH-impl")
M("C03", "permute_atom_order does not store the result", "kill", [(IMPL, "    results.atom_order = tuple(at_ord)\n", "    pass\n")], "PERM-results")
M("C03", "tag helper requires both equality and prefix", "kill",
  [(IMPL, "if tag == base_tag or tag.startswith(base_tag + \"_\")", "if tag == base_tag and tag.startswith(base_tag + \"_\")")], "TAGKEY")
M("C13", "observables get the state multiplied by its norm", "kill",
  [(IMPL, "        normalized_state = 1 / self.state.norm() * self.state", "        normalized_state = 1 * self.state.norm() * self.state")], "OBSDEF-norm")
M("C02", "progress calls the right-to-left update while sweeping right", "kill",
  [(IMPL, "        if self._swipe_direction is SwipeDirection.LEFT_TO_RIGHT:\n            self._left_to_right_update_tdvp", "        if self._swipe_direction is not SwipeDirection.LEFT_TO_RIGHT:\n            self._left_to_right_update_tdvp")], "TDVP-dispatch")
M("C27", "progress never offers an autosave", "kill", [(IMPL, "            self._right_to_left_update_tdvp(delta_time=delta_time)\n\n        self.save_simulation()", "            self._right_to_left_update_tdvp(delta_time=delta_time)\n")], "SAVE-offered")
M("C25", "init skips the dark-qubit filter", "kill", [(IMPL, "    def init(self) -> None:\n        self.init_dark_qubits()\n", "    def init(self) -> None:\n")], "DARK-mps")
M("C18", "norm gap computed with the wrong sign", "kill",
  [(IMPL, "        previous_norm_gap_before_jump = self.norm_gap_before_jump\n        self.norm_gap_before_jump = self.state.norm().item() ** 2 - self.jump_threshold",
    "        previous_norm_gap_before_jump = self.norm_gap_before_jump\n        self.norm_gap_before_jump = self.state.norm().item() ** 2 + self.jump_threshold")], "JUMP-gap")
M("C17", "norm gap from the norm instead of its square", "kill",
  [(IMPL, "        self.norm_gap_before_jump = self.state.norm().item() ** 2 - self.jump_threshold\n        self.root_finder.provide_ordinate",
    "        self.norm_gap_before_jump = self.state.norm().item() - self.jump_threshold\n        self.root_finder.provide_ordinate")], "JUMP-gap")
M("C27", "autosave file written without the pickle", "kill", [(IMPL, "            pickle.dump(self, file_handle)\n", "            pass\n")], "SAVE-content")
M("C27", "autosave throttle inverted", "kill",
  [(IMPL, "        if self.last_save_time > time.time() - self.config.autosave_dt:", "        if self.last_save_time < time.time() - self.config.autosave_dt:")], "SAVE-content")
M("C14", "evaluation filter requires own and default times", "kill",
  [(IMPL, "        return is_observable_eval_time or is_default_eval_time\n\n    def fill_results", "        return is_observable_eval_time and is_default_eval_time\n\n    def fill_results")], "ONCE-filter")
M("C09", "convergence on the sum of the energies", "kill",
  [(IMPL, "        return abs(self.current_energy - self.previous_energy) < energy_tolerance", "        return abs(self.current_energy + self.previous_energy) < energy_tolerance")], "CONV-gate")
M("C09", "unconverged sweep forgets its energy", "kill",
  [(IMPL, "            # not converged for the current sweep. restart\n            self.previous_energy = self.current_energy", "            # not converged for the current sweep. restart\n            pass")], "CONV-gate")
M("C02", "right-to-left sweep moves at site 0", "kill", [(IMPL, "        if self._sweep_index > 0:\n            self.right_baths.append(", "        if self._sweep_index >= 0:\n            self.right_baths.append(")], "TDVP-boundary")
M("C09", "DMRG left-to-right moves past the last pair", "kill", [(IMPL, "        if idx < self.qubit_count - 2:\n            self.left_baths.append(", "        if idx <= self.qubit_count - 2:\n            self.left_baths.append(")], "TDVP-boundary")
M("C10", "DMRG reverses one site early", "kill", [(IMPL, "        if self._sweep_index == self.qubit_count - 2:\n            self._swipe_direction", "        if self._sweep_index == self.qubit_count - 3:\n            self._swipe_direction")], "TDVP-boundary")
M("C02", "twin: boundary written from the other side", "twin", [(IMPL, "        if self._sweep_index > 0:\n            self.right_baths.append(", "        if 0 < self._sweep_index:\n            self.right_baths.append(")])
M("C01", "emu-sv interaction matrix taken at the end of the step", "kill",
  [(SVI, "self.interaction_matrix(self.target_times[step_idx]),", "self.interaction_matrix(self.target_times[step_idx + 1]),")], "STEP-sv")
M("C23", "emu-mps interaction matrix taken at the target time", "kill",
  [(IMPL, "            0.5 * (self.current_time + self.target_time)\n", "            self.target_time\n")], "INTERACT-time")
M("C26", "interrupted run forces a snapshot from the exception handler", "kill",
  [(BK, "        while not impl.is_finished():\n            impl.progress()\n",
    "        try:\n            while not impl.is_finished():\n                impl.progress()\n        except BaseException:\n            impl.last_save_time = 0.0\n            impl.save_simulation()\n            raise\n")], "SAVE-callers")
M("C27", "resume forces an immediate snapshot", "kill",
  [(BK, "        impl.last_save_time = time.time()\n", "        impl.last_save_time = 0.0\n")], "SAVE-callers")
LO2 = "emu_sv/lindblad_operator.py"
M("C16", "Lindbladian fast path chosen from sin(phi)", "kill",
  [(LO2, "        self.complex = self.phis.any()\n", "        self.complex = bool(torch.sin(self.phis).any())\n")], "PHASE-shortcut")
M("C01", "Hamiltonian fast path taken when phases are present", "kill",
  [("emu_sv/hamiltonian.py", "        if self.complex:\n            self._apply_sigma_operators_complex(result, vec)\n        else:\n            self._apply_sigma_operators_real(result, vec)",
    "        if not self.complex:\n            self._apply_sigma_operators_complex(result, vec)\n        else:\n            self._apply_sigma_operators_real(result, vec)")], "PHASE-shortcut")
M("C06", "Lindbladian local term: phase-free formula on the complex side", "kill",
  [(LO2, "        if not self.complex:\n            return omega * sigma_x", "        if self.complex:\n            return omega * sigma_x")], "PHASE-shortcut")
M("C16", "twin: flag written with torch.any", "twin", [(LO2, "        self.complex = self.phis.any()\n", "        self.complex = torch.any(self.phis != 0)\n")])
M("C27", "resume swaps in a pending .new file before loading", "kill",
  [(BK, "        if not autosave_file.is_file():\n            raise ValueError", "        pending = autosave_file.with_suffix(\".new\")\n        if pending.is_file():\n            os.replace(pending, autosave_file)\n\n        if not autosave_file.is_file():\n            raise ValueError")], "SAVE-resume")
M("C27", "resume removes the snapshot before loading it", "kill",
  [(BK, "        with open(autosave_file, \"rb\") as f:\n            impl: MPSBackendImpl = pickle.load(f)", "        data = autosave_file.read_bytes()\n        os.remove(autosave_file)\n        impl: MPSBackendImpl = pickle.loads(data)")], "SAVE-resume")
M("C10", "truncation cut-off compares single values with the squared precision", "kill",
  [("emu_mps/utils.py", "    acc = 0.0\n    for i in range(d.shape[0]):\n        acc += d[i].item()\n        if acc > squared_max_error:\n            return i\n    return 0",
    "    above = torch.nonzero(d > squared_max_error)\n    if above.numel() == 0:\n        return 0\n    return int(above[0].item())")], "TRUNC-cutoff")
M("C10", "twin: cut-off through cumsum", "twin",
  [("emu_mps/utils.py", "    acc = 0.0\n    for i in range(d.shape[0]):\n        acc += d[i].item()\n        if acc > squared_max_error:\n            return i\n    return 0",
    "    above = torch.nonzero(torch.cumsum(d, 0) > squared_max_error)\n    if above.numel() == 0:\n        return 0\n    return int(above[0].item())")])
M("C22", "PCHIP extrapolates linearly outside the knots", "kill",
  [(PT, "        t = xq - self.x[i]\n\n        p0, p1, p2, p3 = self._coeffs[i].unbind(-1)\n        return p0 + t * (p1 + t * (p2 + t * p3))",
    "        dx = xq - self.x[i]\n        t = dx.clamp(min=0.0).minimum(self.x[i + 1] - self.x[i])\n\n        p0, p1, p2, p3 = self._coeffs[i].unbind(-1)\n        y = p0 + t * (p1 + t * (p2 + t * p3))\n        return y + (dx - t) * (p1 + t * (2.0 * p2 + 3.0 * t * p3))")], "PCHIP-eval")
M("C22", "PCHIP interval lookup without right=True", "kill",
  [(PT, "        i = torch.searchsorted(self.x, xq, right=True) - 1\n", "        i = torch.searchsorted(self.x, xq) - 1\n")], "PCHIP-eval")
M("C22", "twin: expanded cubic", "twin",
  [(PT, "        return p0 + t * (p1 + t * (p2 + t * p3))", "        return p0 + p1 * t + p2 * t * t + p3 * t * t * t")])
M("C02", "user initial state multiplied by its norm", "kill",
  [(IMPL, "        initial_state *= 1 / initial_state.norm()", "        initial_state *= 1 * initial_state.norm()")], "ROLE-mps")
KE = "emu_base/math/krylov_exp.py"
M("C07", "convergence estimate rescaled by the norm of the input", "kill",
  [(KE, "        if err < exp_tolerance:", "        if initial_norm * err < exp_tolerance:")], "CONV-honest")
M("C07", "breakdown test divided by the norm of the input", "kill",
  [(KE, "        if n2 < norm_tolerance:", "        if n2 / initial_norm < norm_tolerance:")], "CONV-honest")
M("C08", "Lanczos residual tolerance scaled by the start vector's norm", "kill",
  [("emu_base/math/krylov_energy_min.py", "resid.item() < residual_tolerance", "resid.item() < residual_tolerance * v_init_norm.item()")], "CONV-honest")
M("C12", "sparse builder ignores the weights", "kill",
  [("emu_sv/sparse_operator.py", "                    result += tensor * coeff\n", "                    result += tensor\n")], "TABLES-build")
M("C12", "dense builder caches by symbol set", "kill",
  [("emu_sv/dense_operator.py", "                if isinstance(oper, torch.Tensor):\n                    return oper\n",
    "                if isinstance(oper, torch.Tensor):\n                    return oper\n                if tuple(oper) in operators_with_tensors:\n                    return operators_with_tensors[tuple(oper)]\n")], "TABLES-build")
M("C15", "MPS.sample gauges only when the centre is unknown", "kill",
  [(MPSF, "        assert one_state in {None, \"r\", \"1\"}\n        self.orthogonalize(0)\n", "        assert one_state in {None, \"r\", \"1\"}\n        if self.orthogonality_center is None:\n            self.orthogonalize(0)\n")], "ROLE-readout")
M("C23", "bandwidth optimiser takes the absolute value in place", "kill",
  [("emu_mps/optimatrix/optimiser.py", "    input_mat = torch.abs(input_matrix)", "    input_mat = input_matrix.abs_()")], "PURE")
M("C09", "local eigen-solver returns without the convergence test for small blocks", "kill",
  [("emu_base/math/krylov_energy_min.py", "    result = krylov_energy_minimization_impl(\n", "    if psi.numel() <= 64:\n        energies, states = torch.linalg.eigh(torch.stack([op(e.view(psi.shape)).reshape(-1) for e in torch.eye(psi.numel(), dtype=psi.dtype)]))\n        return states[:, 0].reshape(psi.shape), energies[0].item()\n    result = krylov_energy_minimization_impl(\n")], "CONV-entry")
M("C30", "amplitude gradient only for driven qubits", "kill",
  [(TE, "            grad_omegas = torch.zeros_like(omegas)\n            for i in range(nqubits):", "            grad_omegas = torch.zeros_like(omegas)\n            for i in omegas.nonzero().flatten().tolist():")], "AUTOGRAD")
M("C30", "detuning gradient skips the last qubit", "kill",
  [(TE, "            grad_deltas = torch.zeros_like(deltas)\n            for i in range(nqubits):", "            grad_deltas = torch.zeros_like(deltas)\n            for i in range(nqubits - 1):")], "AUTOGRAD")
M("C30", "twin: phase gradient only for driven qubits", "twin",
  [(TE, "            grad_phis = torch.zeros_like(phis)\n            for i in range(nqubits):", "            grad_phis = torch.zeros_like(phis)\n            for i in omegas.nonzero().flatten().tolist():")])
M("C31", "SparseOperator.__deepcopy__ reads Pulser-created fields the constructor never sets", "kill",
  [("emu_sv/sparse_operator.py", "        memo[id(self)] = result\n        return result", "        memo[id(self)] = result\n        result._eigenstates = self._eigenstates\n        return result")], "APICOMPAT-basestate")
M("C32", "random starts drawn into one shared buffer", "kill",
  [("emu_mps/optimatrix/optimiser.py", "    rnd_permutations = itertools.chain(\n        [torch.arange(L)],  # identity permutation\n        [torch.randperm(L) for _ in range(samples)],  # list of random permutations\n    )",
    "    start_perm = torch.arange(L)\n    rnd_permutations = itertools.chain(\n        [start_perm],\n        (torch.randperm(L, out=start_perm) for _ in range(samples)),\n    )")], "ARGMIN")
M("C14", "default evaluation times leak to observables with their own times", "kill",
  [(IMPL, "        is_default_eval_time = times is None and self.config.is_evaluation_time(\n            t, tol=tolerance\n        )", "        is_default_eval_time = self.config.is_evaluation_time(t, tol=tolerance)")], "ONCE-filter")
M("C21", "emu-sv: default evaluation times leak to observables with their own times", "kill",
  [(SVI, "        is_default_eval_time = times is None and self._config.is_evaluation_time(\n            t, tol=tolerance\n        )", "        is_default_eval_time = self._config.is_evaluation_time(t, tol=tolerance)")], "ONCE-filter")
M("C14", "twin: evaluation-time filter written with early returns", "twin",
  [(IMPL, "        is_observable_eval_time = (\n            times is not None\n            and self.config.is_time_in_evaluation_times(t, times, tol=tolerance)\n        )\n",
    "        if times is not None:\n            return self.config.is_time_in_evaluation_times(t, times, tol=tolerance)\n        is_observable_eval_time = False\n")])
SCBF = "emu_sv/custom_callback_implementations.py"
M("C13", "density-matrix variance from the state-vector shortcut", "kill",
  [(SCBF, "    h_squared_dense_mat = hamiltonian.expect(\n        DensityMatrix(h_dense_matrix, gpu=gpu)\n    )  # tr(ρH²)", "    h_squared_dense_mat = torch.vdot(h_dense_matrix.flatten(), h_dense_matrix.flatten()).real")], "OBSDEF")
M("C02", "fetching the interaction matrix also stores it", "kill",
  [(IMPL, "            matrix = matrix[self.well_prepared_qubits_filter, :][\n                :, self.well_prepared_qubits_filter\n            ]\n\n        return matrix", "            matrix = matrix[self.well_prepared_qubits_filter, :][\n                :, self.well_prepared_qubits_filter\n            ]\n\n        self.current_interaction_matrix = matrix\n        return matrix")], "INTERACT-refresh")
M("C18", "jump search starts only below a margin", "kill",
  [(IMPL, "            if self.norm_gap_before_jump < 0:", "            if self.norm_gap_before_jump < -self.config.precision:")], "JUMP-path")
M("C17", "jump weights from conj(L†L)", "kill",
  [(IMPL, "        self.aggregated_lindblad_ops = stacked.conj().transpose(1, 2) @ stacked", "        self.aggregated_lindblad_ops = torch.einsum(\"kij,kil->kjl\", stacked, stacked.conj())")], "ROLE-noise")
M("C17", "twin: L†L written as an einsum", "twin",
  [(IMPL, "        self.aggregated_lindblad_ops = stacked.conj().transpose(1, 2) @ stacked", "        self.aggregated_lindblad_ops = torch.einsum(\"kij,kil->kjl\", stacked.conj(), stacked)")])
M("C21", "merge drops the special case for the end point", "kill",
  [(PA, "        if merged and t - merged[-1] <= _TIME_MERGE_TOLERANCE:\n            if t == 1.0:\n                merged[-1] = t\n            continue\n        merged.append(t)",
    "        if not merged or t - merged[-1] > _TIME_MERGE_TOLERANCE:\n            merged.append(t)")], "TIMEEQ-merge")
M("C21", "twin: merge written with the De Morgan dual", "twin",
  [(PA, "        if merged and t - merged[-1] <= _TIME_MERGE_TOLERANCE:\n            if t == 1.0:\n                merged[-1] = t\n            continue\n        merged.append(t)",
    "        if not merged or t - merged[-1] > _TIME_MERGE_TOLERANCE:\n            merged.append(t)\n        elif t == 1.0:\n            merged[-1] = t")])
M("C16", "density-matrix stepper reuses a generator passed in", "kill",
  [(TE, "        pulser_lindblads: list[torch.Tensor],\n    ) -> tuple[torch.Tensor, RydbergLindbladian]:\n        ham = EvolveDensityMatrix.get_hamiltonian(",
    "        pulser_lindblads: list[torch.Tensor],\n        ham: RydbergLindbladian | None = None,\n    ) -> tuple[torch.Tensor, RydbergLindbladian]:\n        ham = ham or EvolveDensityMatrix.get_hamiltonian(")], "ROLE-sv")
M("C04", "Hamiltonian type chosen from the basis name", "kill",
  [(PA, "        int_type = self.hamiltonian.basis_data.interaction_type\n", "        int_type = {\"XY\": \"XY\"}.get(self.hamiltonian.basis_data.basis_name, \"ising\")\n")], "DISPATCH-hamiltonian")
M("C12", "first sparse term bypasses the coalescing sum", "kill",
  [("emu_sv/sparse_operator.py", "            accum_res = sparse_add(\n                accum_res, coeff * reduce(sparse_kron, single_qubit_gates)\n            )",
    "            term = coeff * reduce(sparse_kron, single_qubit_gates)\n            accum_res = sparse_add(accum_res, term) if accum_res._nnz() > 0 else term")], "TABLES-terms")
M("C27", "pending snapshot written to the system temp directory", "kill",
  [(IMPL, "        with open(basename.with_suffix(\".new\"), \"wb\") as file_handle:", "        import tempfile\n        with open(pathlib.Path(tempfile.gettempdir()) / basename.with_suffix(\".new\").name, \"wb\") as file_handle:")], "SAVE-window")
M("C22", "PCHIP end slope kept for a flat end interval", "kill",
  [(PT, "    mask_sign_change = torch.sign(d_end) != torch.sign(s_l)", "    mask_sign_change = d_end * s_l < 0")], "PCHIP-end")
M("C22", "right end limited against the inner secant", "kill",
  [(PT, "_limit_endpoint(dn, delta[-1], delta[-2])", "_limit_endpoint(dn, delta[-2], delta[-1])")], "PCHIP-end")
M("C22", "twin: end slope zeroed with a non-strict product test", "twin",
  [(PT, "    mask_sign_change = torch.sign(d_end) != torch.sign(s_l)", "    mask_sign_change = d_end * s_l <= 0")])
M("C24", "jump-operator builder drops interact_type (callee default 'ising')", "kill",
  [(PA, "            dim=dim,\n            interact_type=interact_type,\n        )", "            dim=dim,\n        )")], "NOISE-forward")
M("C24", "jump-operator builder drops dim (callee default 2)", "kill",
  [(PA, "            dim=dim,\n            interact_type=interact_type,\n        )", "            interact_type=interact_type,\n        )")], "NOISE-forward")
M("C24", "PulserData requests jump operators without the interaction type", "kill",
  [(PA, "            self.noise_model, dim=self.dim, interact_type=int_type\n", "            self.noise_model, dim=self.dim\n")], "NOISE-forward")
M("C24", "twin: jump-operator builder called with a kwargs-free local alias", "twin",
  [(PA, "    return [\n        op\n        for noise_type in noise_model.noise_types\n", "    kind = interact_type\n    return [\n        op\n        for noise_type in noise_model.noise_types\n"),
   (PA, "            interact_type=interact_type,\n        )", "            interact_type=kind,\n        )")])
M("C23", "sv dark wrapper caches the first filtered matrix", "kill",
  [(SVI, "            def interaction_matrix(t: float) -> torch.Tensor:\n                mat = original(t).clone()\n                mat[indices, :] = 0.0\n                mat[:, indices] = 0.0\n                return mat",
    "            cache: list[torch.Tensor] = []\n\n            def interaction_matrix(t: float) -> torch.Tensor:\n                if not cache:\n                    mat = original(t).clone()\n                    mat[indices, :] = 0.0\n                    mat[:, indices] = 0.0\n                    cache.append(mat)\n                return cache[0]")], "DARK-sv")
M("C23", "sv dark wrapper queries the matrix at time 0", "kill",
  [(SVI, "                mat = original(t).clone()", "                mat = original(0.0).clone()")], "DARK-sv")
M("C25", "twin: sv dark wrapper reads the Pulser data's callable directly", "twin",
  [(SVI, "                mat = original(t).clone()", "                mat = self._data.interaction_matrix(t).clone()")])
MCF = "emu_mps/mps_config.py"
M("C33", "Krylov floor tested on the keyword arguments (F15 returns)", "kill",
  [(MCF, "        precision = self.precision\n        extra_krylov_tolerance = self.extra_krylov_tolerance\n", "")], "CONFIG-krylov-floor")
M("C33", "Krylov floor: precision effective, extra from the keyword argument", "kill",
  [(MCF, "        extra_krylov_tolerance = self.extra_krylov_tolerance\n", "")], "CONFIG-krylov-floor")
M("C33", "autosave interval tested on the keyword argument", "kill",
  [(MCF, "            self.autosave_dt > MIN_AUTOSAVE_DT\n", "            autosave_dt > MIN_AUTOSAVE_DT\n")], "CONFIG-autosave")
M("C33", "twin: floor reads the stored options dictionary", "twin",
  [(MCF, "        precision = self.precision\n        extra_krylov_tolerance = self.extra_krylov_tolerance\n",
    "        precision = self._backend_options[\"precision\"]\n        extra_krylov_tolerance = self._backend_options[\"extra_krylov_tolerance\"]\n")])
M("C33", "twin: floor written on the attributes without locals", "twin",
  [(MCF, "        precision = self.precision\n        extra_krylov_tolerance = self.extra_krylov_tolerance\n        prod_tol = precision * extra_krylov_tolerance\n        if prod_tol < MIN_KRYLOV_TOL:\n            new_extra_krylov_tolerance = MIN_KRYLOV_TOL / precision\n",
    "        prod_tol = self.precision * self.extra_krylov_tolerance\n        if prod_tol < MIN_KRYLOV_TOL:\n            new_extra_krylov_tolerance = MIN_KRYLOV_TOL / self.precision\n"),
   (MCF, "            new_extra_krylov_tolerance = extra_krylov_tolerance\n", "            new_extra_krylov_tolerance = self.extra_krylov_tolerance\n")])
OPTF = "emu_mps/optimatrix/optimiser.py"
M("C32", "matrix rescaled by its signed maximum before the search", "kill",
  [(OPTF, "    input_mat = torch.abs(input_matrix)\n", "    input_mat = torch.abs(input_matrix / torch.max(input_matrix))\n")], "ARGMIN")
M("C32", "matrix normalised by its sum before the search", "kill",
  [(OPTF, "    input_mat = torch.abs(input_matrix)\n", "    input_mat = torch.abs(input_matrix) / torch.abs(input_matrix).sum()\n")], "ARGMIN")
M("C32", "twin: method spelling of abs", "twin",
  [(OPTF, "    input_mat = torch.abs(input_matrix)\n", "    input_mat = input_matrix.abs()\n")])
# ---- C20: the formulas are the standard PCHIP formulas
M("C20", "p2 with the wrong derivative weight", "kill", [(PT, "    p2 = (3.0 * delta - 2.0 * d[:-1] - d[1:]) / h", "    p2 = (3.0 * delta - d[:-1] - 2.0 * d[1:]) / h")], "PCHIP-hermite")
M("C20", "p3 divided by h instead of h squared", "kill", [(PT, "    p3 = (d[:-1] + d[1:] - 2.0 * delta) / (h * h)", "    p3 = (d[:-1] + d[1:] - 2.0 * delta) / h")], "PCHIP-hermite")
M("C20", "p1 from the right knot's derivative", "kill", [(PT, "    p1 = d[:-1]\n", "    p1 = d[1:]\n")], "PCHIP-hermite")
M("C20", "p0 from the right knot's value", "kill", [(PT, "    p0 = y[:-1]\n", "    p0 = y[1:]\n")], "PCHIP-hermite")
M("C20", "coefficients stacked along axis 0", "kill", [(PT, "    return torch.stack([p0, p1, p2, p3], dim=-1)", "    return torch.stack([p0, p1, p2, p3], dim=0)")], "PCHIP-hermite")
M("C20", "harmonic-mean weights swapped", "kill", [(PT, "    w_l = h_l + 2.0 * h_r\n    w_r = 2.0 * h_l + h_r\n", "    w_l = 2.0 * h_l + h_r\n    w_r = h_l + 2.0 * h_r\n")], "PCHIP-interior")
M("C20", "arithmetic instead of harmonic mean", "kill", [(PT, "    return (w_l + w_r) / (w_l / delta_l + w_r / delta_r)", "    return (w_l * delta_l + w_r * delta_r) / (w_l + w_r)")], "PCHIP-interior")
M("C20", "interior slope kept where a secant is zero", "kill", [(PT, "    mask_same_sign = (delta_l * delta_r) > 0", "    mask_same_sign = (delta_l * delta_r) >= 0")], "PCHIP-interior")
M("C20", "interior widths taken from the same side", "kill", [(PT, "    h_l, h_r = h[:-1], h[1:]\n", "    h_l, h_r = h[:-1], h[:-1]\n")], "PCHIP-interior")
M("C20", "interior secants swapped", "kill", [(PT, "    delta_l, delta_r = delta[:-1], delta[1:]\n", "    delta_r, delta_l = delta[:-1], delta[1:]\n")], "PCHIP-interior")
M("C20", "end slope: weight 2h on the wrong width", "kill", [(PT, "    w1 = 2.0 * h_l + h_r\n    return (w1 * delta_l - h_l * delta_r) / (h_l + h_r)", "    w1 = h_l + 2.0 * h_r\n    return (w1 * delta_l - h_l * delta_r) / (h_l + h_r)")], "PCHIP-endpoint")
M("C20", "end slope: secants added instead of subtracted", "kill", [(PT, "    return (w1 * delta_l - h_l * delta_r) / (h_l + h_r)", "    return (w1 * delta_l + h_l * delta_r) / (h_l + h_r)")], "PCHIP-endpoint")
M("C20", "last end slope from the first interval's widths", "kill", [(PT, "    dn = _endpoint_slope(delta[-1], delta[-2], h[-1], h[-2])", "    dn = _endpoint_slope(delta[-1], delta[-2], h[0], h[1])")], "PCHIP-endpoint")
M("C20", "last end slope with secants in grid order", "kill", [(PT, "    dn = _endpoint_slope(delta[-1], delta[-2], h[-1], h[-2])", "    dn = _endpoint_slope(delta[-2], delta[-1], h[-2], h[-1])")], "PCHIP-endpoint")
M("C20", "first end slope not limited", "kill", [(PT, "    d[0] = _limit_endpoint(d0, delta[0], delta[1])", "    d[0] = d0")], "PCHIP-endpoint")
M("C20", "two knots: zero derivative", "kill", [(PT, "        d.fill_(delta[0])\n        return d", "        return d")], "PCHIP-two-points")
M("C20", "secant without the width", "kill", [(PT, "        delta = (self.y[1:] - self.y[:-1]) / h", "        delta = self.y[1:] - self.y[:-1]")], "PCHIP-setup")
M("C20", "widths from the raw argument order reversed", "kill", [(PT, "        h = self.x[1:] - self.x[:-1]", "        h = self.x[:-1] - self.x[1:]")], "PCHIP-setup")
M("C20", "non-strict knot test", "kill", [(PT, "        if not torch.all(x[1:] > x[:-1]):", "        if not torch.all(x[1:] >= x[:-1]):")], "PCHIP-setup")
M("C20", "interval lookup left-continuous", "kill", [(PT, "        i = torch.searchsorted(self.x, xq, right=True) - 1", "        i = torch.searchsorted(self.x, xq, right=False) - 1")], "PCHIP-eval")
M("C20", "end cap at twice the secant", "kill", [(PT, "    mask_cap = mask_sign_change & (torch.abs(d_end) > 3.0 * torch.abs(s_l))\n    return torch.where(mask_cap, 3.0 * s_l, d_end)", "    mask_cap = mask_sign_change & (torch.abs(d_end) > 2.0 * torch.abs(s_l))\n    return torch.where(mask_cap, 2.0 * s_l, d_end)")], "PCHIP-end")
M("C20", "twin: p2/p3 written with 1/h factored", "twin", [(PT, "    p2 = (3.0 * delta - 2.0 * d[:-1] - d[1:]) / h\n    p3 = (d[:-1] + d[1:] - 2.0 * delta) / (h * h)", "    inv_h = 1.0 / h\n    p2 = inv_h * (3.0 * delta - d[1:]) - 2.0 * d[:-1] * inv_h\n    p3 = (d[:-1] - 2.0 * delta + d[1:]) * inv_h**2")])
M("C20", "twin: harmonic mean as reciprocal of the weighted reciprocal mean", "twin", [(PT, "    return (w_l + w_r) / (w_l / delta_l + w_r / delta_r)", "    total = w_l + w_r\n    return 1.0 / ((w_l / total) / delta_l + (w_r / total) / delta_r)")])
M("C20", "twin: end slope with the product expanded", "twin", [(PT, "    w1 = 2.0 * h_l + h_r\n    return (w1 * delta_l - h_l * delta_r) / (h_l + h_r)", "    total = h_l + h_r\n    return ((h_l + total) * delta_l - h_l * delta_r) / total")])
M("C20", "twin: mask written with the constant on the left", "twin", [(PT, "    mask_same_sign = (delta_l * delta_r) > 0", "    mask_same_sign = 0 < (delta_r * delta_l)")])
M("C20", "twin: secant from a shared difference", "twin", [(PT, "        delta = (self.y[1:] - self.y[:-1]) / h", "        dy = self.y[1:] - self.y[:-1]\n        delta = dy / h")])
# ---- C19: Brent bracketing invariant
BR = "emu_base/math/brents_root_finding.py"
M("C19", "new point replaces the end of the other sign", "kill", [(BR, "        if self.fa * ordinate < 0:\n            self.b, self.fb = abscissa, ordinate\n        else:\n            self.a, self.fa = abscissa, ordinate", "        if self.fa * ordinate < 0:\n            self.a, self.fa = abscissa, ordinate\n        else:\n            self.b, self.fb = abscissa, ordinate")], "BRENT-bracket")
M("C19", "sign test against fb", "kill", [(BR, "        if self.fa * ordinate < 0:\n            self.b, self.fb", "        if self.fb * ordinate < 0:\n            self.b, self.fb")], "BRENT-bracket")
M("C19", "swap moves abscissae only", "kill", [(BR, "        if abs(self.fa) < abs(self.fb):\n            self.a, self.b = self.b, self.a\n            self.fa, self.fb = self.fb, self.fa\n\n        self.current_guess = self.b", "        if abs(self.fa) < abs(self.fb):\n            self.a, self.b = self.b, self.a\n\n        self.current_guess = self.b")], "BRENT-bracket")
M("C19", "update stores the ordinate with the old abscissa", "kill", [(BR, "            self.b, self.fb = abscissa, ordinate\n        else:", "            self.fb = ordinate\n        else:")], "BRENT-bracket")
M("C19", "better-guess swap inverted", "kill", [(BR, "        if abs(self.fa) < abs(self.fb):\n            self.a, self.b = self.b, self.a\n            self.fa, self.fb = self.fb, self.fa\n\n        self.current_guess = self.b", "        if abs(self.fa) > abs(self.fb):\n            self.a, self.b = self.b, self.a\n            self.fa, self.fb = self.fb, self.fa\n\n        self.current_guess = self.b")], "BRENT-bracket")
M("C19", "current guess is the worse end", "kill", [(BR, "            self.fa, self.fb = self.fb, self.fa\n\n        self.current_guess = self.b", "            self.fa, self.fb = self.fb, self.fa\n\n        self.current_guess = self.a")], "BRENT-bracket")
M("C19", "ordinate accepted for any abscissa", "kill", [(BR, "        assert (\n            self.next_abscissa is not None and abscissa == self.next_abscissa\n        ), \"Something went wrong\"\n", "        assert self.next_abscissa is not None, \"Something went wrong\"\n")], "BRENT-bracket")
M("C19", "constructor accepts equal signs", "kill", [(BR, "        assert self.fa * self.fb < 0, \"Function root needs to be between a and b\"", "        assert self.fa * self.fb <= 0 or True, \"Function root needs to be between a and b\"")], "BRENT-init")
M("C19", "constructor swaps abscissae only", "kill", [(BR, "            self.a, self.b = self.b, self.a\n            self.fa, self.fb = self.fb, self.fa\n\n        self.c = self.a", "            self.a, self.b = self.b, self.a\n\n        self.c = self.a")], "BRENT-init")
M("C19", "interpolated step accepted up to the far end", "kill", [(BR, "            (adx >= abs(3 * delta_ab / 4) or dx * delta_ab < 0)", "            (adx >= abs(3 * delta_ab / 2) or dx * delta_ab < 0)")], "BRENT-inside")
M("C19", "direction test dropped", "kill", [(BR, "            (adx >= abs(3 * delta_ab / 4) or dx * delta_ab < 0)", "            (adx >= abs(3 * delta_ab / 4))")], "BRENT-inside")
M("C19", "step-halving test dropped after a bisection", "kill", [(BR, "            or (self.bisection and adx >= delta_bc / 2)\n", "")], "BRENT-inside")
M("C19", "bisection to the wrong side", "kill", [(BR, "            dx = (self.a - self.b) / 2\n", "            dx = (self.b - self.a) / 2\n")], "BRENT-inside")
M("C19", "history not shifted", "kill", [(BR, "        self.d = self.c\n        self.c, self.fc = self.b, self.fb", "        self.c, self.fc = self.b, self.fb")], "BRENT-inside")
M("C19", "next abscissa not recorded", "kill", [(BR, "        self.next_abscissa = self.b + dx\n        self.d = self.c", "        nxt = self.b + dx\n        self.d = self.c"), (BR, "        return self.next_abscissa", "        return nxt")], "BRENT-inside")
M("C19", "convergence on the ordinate", "kill", [(BR, "        return abs(self.b - self.a) < tolerance", "        return abs(self.fb) < tolerance")], "BRENT-driver")
M("C19", "driver evaluates f at the previous guess", "kill", [(BR, "        root_finder.provide_ordinate(x, f(x))", "        root_finder.provide_ordinate(x, f(root_finder.current_guess))")], "BRENT-driver")
M("C19", "driver returns the last queried point", "kill", [(BR, "    return root_finder.current_guess", "    return root_finder.next_abscissa")], "BRENT-driver")
M("C19", "missing f_end taken at start", "kill", [(BR, "    f_end = f_end if f_end is not None else f(end)", "    f_end = f_end if f_end is not None else f(start)")], "BRENT-driver")
M("C19", "twin: update branches in the other order", "twin", [(BR, "        if self.fa * ordinate < 0:\n            self.b, self.fb = abscissa, ordinate\n        else:\n            self.a, self.fa = abscissa, ordinate", "        if not self.fa * ordinate < 0:\n            self.a, self.fa = abscissa, ordinate\n        else:\n            self.b, self.fb = abscissa, ordinate")])
M("C19", "twin: sign test on fb with the branches exchanged", "twin", [(BR, "        if self.fa * ordinate < 0:\n            self.b, self.fb = abscissa, ordinate\n        else:\n            self.a, self.fa = abscissa, ordinate", "        if self.fb * ordinate < 0:\n            self.a, self.fa = abscissa, ordinate\n        else:\n            self.b, self.fb = abscissa, ordinate")])
M("C19", "twin: four-way swap in one statement", "twin", [(BR, "        if abs(self.fa) < abs(self.fb):\n            self.a, self.b = self.b, self.a\n            self.fa, self.fb = self.fb, self.fa\n\n        self.current_guess = self.b", "        if abs(self.fa) < abs(self.fb):\n            self.a, self.b, self.fa, self.fb = self.b, self.a, self.fb, self.fa\n\n        self.current_guess = self.b")])
M("C19", "twin: midpoint written from a", "twin", [(BR, "            dx = (self.a - self.b) / 2\n", "            dx = 0.5 * self.a - 0.5 * self.b\n")])
M("C19", "twin: three-quarter bound with the factor outside", "twin", [(BR, "            (adx >= abs(3 * delta_ab / 4) or dx * delta_ab < 0)", "            (adx >= abs(0.75 * delta_ab) or delta_ab * dx < 0)")])
# ---- HAM-mps: single-site term of the MPO
HM = "emu_mps/hamiltonian.py"
M("C02", "MPO drive term with the opposite phase sign", "kill", [(HM, "    single_qubit_terms[:, :2, :2] += a + b - c", "    single_qubit_terms[:, :2, :2] += a - b - c")], "HAM-mps")
M("C02", "MPO detuning added instead of subtracted", "kill", [(HM, "    single_qubit_terms[:, :2, :2] += a + b - c", "    single_qubit_terms[:, :2, :2] += a + b + c")], "HAM-mps")
M("C02", "MPO drive term cos/sin exchanged", "kill", [(HM, "    a = torch.tensordot(omega * torch.cos(phi), Operators.sx, dims=0)", "    a = torch.tensordot(omega * torch.sin(phi), Operators.sx, dims=0)"), (HM, "    b = torch.tensordot(omega * torch.sin(phi), Operators.sy, dims=0)", "    b = torch.tensordot(omega * torch.cos(phi), Operators.sy, dims=0)")], "HAM-mps")
M("C02", "sigma-y table transposed", "kill", [(HM, "    sy = torch.tensor([[0.0, -0.5j], [0.5j, 0.0]], dtype=dtype)", "    sy = torch.tensor([[0.0, 0.5j], [-0.5j, 0.0]], dtype=dtype)")], "HAM-mps")
M("C02", "sigma-x table without the half", "kill", [(HM, "    sx = torch.tensor([[0.0, 0.5], [0.5, 0.0]], dtype=dtype)", "    sx = torch.tensor([[0.0, 1.0], [1.0, 0.0]], dtype=dtype)")], "HAM-mps")
M("C02", "update_H skips the last site", "kill", [(HM, "    for i in range(1, nqubits):\n        factors[i][1, :, :, 0] = single_qubit_terms[i]", "    for i in range(1, nqubits - 1):\n        factors[i][1, :, :, 0] = single_qubit_terms[i]")], "HAM-mps")
M("C02", "update_H writes every site the first term", "kill", [(HM, "        factors[i][1, :, :, 0] = single_qubit_terms[i]", "        factors[i][1, :, :, 0] = single_qubit_terms[0]")], "HAM-mps")
M("C02", "update_H uses the done-row slot for inner sites", "kill", [(HM, "        factors[i][1, :, :, 0] = single_qubit_terms[i]", "        factors[i][0, :, :, 0] = single_qubit_terms[i]")], "HAM-mps")
M("C17", "update_H drops the noise term", "kill", [(HM, "    single_qubit_terms = torch.stack(nqubits * [noise])", "    single_qubit_terms = torch.stack(nqubits * [torch.zeros_like(noise)])")], "HAM-mps")
M("C02", "XY middle factor loses the pending channel", "kill", [(HM, "        factor = self._empty_factor(left_bond_dim, right_bond_dim)\n\n        factor[0, :, :, 0] = self.identity\n        factor[1, :, :, 1] = self.identity\n\n        coeff = self._left_interaction_coefficients(n, current_left_interactions)\n        factor[2::2, :2, :2, 0] = coeff * 2 * Operators.sx", "        factor = self._empty_factor(left_bond_dim, right_bond_dim)\n\n        factor[0, :, :, 0] = self.identity\n\n        coeff = self._left_interaction_coefficients(n, current_left_interactions)\n        factor[2::2, :2, :2, 0] = coeff * 2 * Operators.sx")], "HAM-mps")
M("C02", "twin: drive term written as one complex exponential pair", "twin", [(HM, "    single_qubit_terms[:, :2, :2] += a + b - c", "    single_qubit_terms[:, :2, :2] += (a - c) + b")])
M("C02", "twin: detuning subtracted via a negated coefficient", "twin", [(HM, "    c = torch.tensordot(delta, Operators.n, dims=0)", "    c = torch.tensordot(-delta, Operators.n, dims=0)"), (HM, "    single_qubit_terms[:, :2, :2] += a + b - c", "    single_qubit_terms[:, :2, :2] += a + b + c")])
M("C19", "twin: bracket width taken as an absolute value first", "twin", [(BR, "        delta_ab = self.a - self.b\n", "        delta_ab = self.a - self.b\n        width = abs(self.a - self.b)\n"), (BR, "            (adx >= abs(3 * delta_ab / 4) or dx * delta_ab < 0)", "            (adx >= 3 * width / 4 or dx * delta_ab < 0)")])
M("C19", "bracket width made absolute, direction test lost", "kill", [(BR, "        delta_ab = self.a - self.b\n", "        delta_ab = abs(self.a - self.b)\n"), (BR, "            (adx >= abs(3 * delta_ab / 4) or dx * delta_ab < 0)", "            adx >= 3 * delta_ab / 4")], "BRENT-inside")
M("C13", "emu-sv keeps the step's generator only at default evaluation times", "kill",
  [(SVI, "        self.state.data, self._current_H = self.stepper.apply(", "        self.state.data, hamiltonian = self.stepper.apply("),
   (SVI, "            self.pulser_lindblads,\n        )\n\n    def _is_evaluation_time(", "            self.pulser_lindblads,\n        )\n        if self._config.is_evaluation_time(self.target_times[step_idx + 1] / self.target_times[-1], tol=1e-10):\n            self._current_H = hamiltonian\n\n    def _is_evaluation_time(")], "ROLE-sv")
M("C13", "emu-sv drops the step's generator", "kill",
  [(SVI, "        self.state.data, self._current_H = self.stepper.apply(", "        self.state.data, _ = self.stepper.apply(")], "ROLE-sv")
M("C01", "emu-sv observables always rebuild the generator from row 0", "kill",
  [(SVI, "        if not self._current_H and callbacks_for_current_time_step:", "        if callbacks_for_current_time_step:")], "ROLE-sv")
M("C13", "twin: step result unpacked through a local pair", "twin",
  [(SVI, "        self.state.data, self._current_H = self.stepper.apply(", "        evolved = self.stepper.apply("),
   (SVI, "            self.pulser_lindblads,\n        )\n\n    def _is_evaluation_time(", "            self.pulser_lindblads,\n        )\n        self.state.data = evolved[0]\n        self._current_H = evolved[1]\n\n    def _is_evaluation_time(")])
# ---- OBSDEF-axis
M("C13", "second correlation axis off by one", "kill", [(SCBF, "            select_i = select_i.view(2**i, 2 ** (j - i - 1), 2, -1)", "            select_i = select_i.view(2**i, 2 ** (j - i), 2, -1)")], "OBSDEF-axis")
M("C13", "density-matrix occupation reads level 0", "kill", [(SCBF, "        state_tensor = diag_state_tensor.view(2**i, 2, 2 ** (nqubits - i - 1))[:, 1, :]", "        state_tensor = diag_state_tensor.view(2**i, 2, 2 ** (nqubits - i - 1))[:, 0, :]")], "OBSDEF-axis")
M("C13", "occupation with little-endian qubit axis", "kill", [(SCBF, "        state_tensor = state.data.view(2**i, 2, -1)\n", "        state_tensor = state.data.view(2 ** (nqubits - i - 1), 2, -1)\n")], "OBSDEF-axis")
M("C13", "density-matrix correlation pair uses the squared norm", "kill", [(SCBF, "            correlation[i, j] = state_diag_ni_nj.sum().real", "            correlation[i, j] = torch.linalg.vector_norm(state_diag_ni_nj) ** 2")], "OBSDEF-axis")
M("C13", "correlation pairs skip neighbours", "kill", [(SCBF, "        for j in range(i + 1, nqubits):  # select the upper triangle", "        for j in range(i + 2, nqubits):  # select the upper triangle")], "OBSDEF-axis")
M("C13", "density-matrix correlation second axis counted from i", "kill", [(SCBF, "            shapeij = (2**i, 2 ** (j - i - 1), 2, 2 ** (nqubits - 1 - j))", "            shapeij = (2 ** (i + 1), 2 ** (j - i - 1), 2, 2 ** (nqubits - 2 - j))")], "OBSDEF-axis")
M("C13", "mirror entry copied from the diagonal", "kill", [(SCBF, "            correlation[i, j] = state_diag_ni_nj.sum().real\n            correlation[j, i] = correlation[i, j]", "            correlation[i, j] = state_diag_ni_nj.sum().real\n            correlation[j, i] = correlation[i, i]")], "OBSDEF-axis")
M("C13", "twin: leading axes of the pair view merged differently", "twin", [(SCBF, "            select_i = select_i.view(2**i, 2 ** (j - i - 1), 2, -1)\n            select_ij = select_i[:, :, 1, :]", "            select_i = select_i.view(2 ** (j - 1), 2, -1)\n            select_ij = select_i[:, 1, :]")])
M("C13", "twin: occupation view with the explicit trailing size", "twin", [(SCBF, "        state_tensor = state.data.view(2**i, 2, -1)\n", "        state_tensor = state.data.view(2**i, 2, 2 ** (nqubits - i - 1))\n")])
M("C25", "dark-atom branch gated by the config's noise model", "kill",
  [(IMPL, "        if self.pulser_data.state_prep_error > 0.0:", "        if self.config.noise_model.state_prep_error > 0.0:")], "DARK-mps")
M("C25", "dark-atom branch gated by a constructor flag read from the config", "kill",
  [(IMPL, "        self.has_lindblad_noise = len(pulser_data.lindblad_ops) > 0\n", "        self.has_lindblad_noise = len(pulser_data.lindblad_ops) > 0\n        self.has_state_prep_error = self.config.noise_model.state_prep_error > 0.0\n"),
   (IMPL, "        if self.pulser_data.state_prep_error > 0.0:", "        if self.has_state_prep_error:")], "DARK-mps")
M("C25", "emu-sv dark-atom branch gated by the config's noise model", "kill",
  [(SVI, "        if self._data.state_prep_error > 0.0:", "        if self._config.noise_model.state_prep_error > 0.0:")], "DARK-sv")
M("C25", "twin: dark-atom branch gated by a constructor flag read from the sequence data", "twin",
  [(IMPL, "        self.has_lindblad_noise = len(pulser_data.lindblad_ops) > 0\n", "        self.has_lindblad_noise = len(pulser_data.lindblad_ops) > 0\n        self.has_state_prep_error = pulser_data.state_prep_error > 0.0\n"),
   (IMPL, "        if self.pulser_data.state_prep_error > 0.0:", "        if self.has_state_prep_error:")])
M("C26", "sweep direction becomes a pair of string constants (identity test breaks after unpickling)", "kill",
  [(IMPL, "class SwipeDirection(Enum):\n    LEFT_TO_RIGHT = auto()\n    RIGHT_TO_LEFT = auto()", "class SwipeDirection:\n    LEFT_TO_RIGHT = \"left_to_right\"\n    RIGHT_TO_LEFT = \"right_to_left\"")], "PICKLE-identity")
M("C26", "twin: sweep direction compared by equality", "twin",
  [(IMPL, "        if self._swipe_direction is SwipeDirection.LEFT_TO_RIGHT:", "        if self._swipe_direction == SwipeDirection.LEFT_TO_RIGHT:"),
   (IMPL, "            assert self._swipe_direction is SwipeDirection.LEFT_TO_RIGHT", "            assert self._swipe_direction == SwipeDirection.LEFT_TO_RIGHT")])
M("C16", "emu-sv solver choice inverted", "kill", [(SVI, "        if self.pulser_lindblads:\n            stepper = EvolveDensityMatrix", "        if not self.pulser_lindblads:\n            stepper = EvolveDensityMatrix")], "DISPATCH-sv")
M("C16", "density-matrix state evolved by the state-vector stepper", "kill", [(SVI, "            stepper = EvolveDensityMatrix\n            state_type = DensityMatrix", "            stepper = EvolveStateVector\n            state_type = DensityMatrix")], "DISPATCH-sv")
M("C01", "noiseless runs use the density-matrix solver", "kill", [(SVI, "            stepper = EvolveStateVector\n            state_type = StateVector", "            stepper = EvolveDensityMatrix\n            state_type = DensityMatrix")], "DISPATCH-sv")
M("C16", "twin: solver chosen with a length test", "twin", [(SVI, "        if self.pulser_lindblads:\n            stepper = EvolveDensityMatrix", "        if len(data.lindblad_ops) > 0:\n            stepper = EvolveDensityMatrix")])
M("C14", "emu-sv membership test with its arguments exchanged", "kill", [(SVI, "self._config.is_time_in_evaluation_times(t, times, tol=tolerance)", "self._config.is_time_in_evaluation_times(times, t, tol=tolerance)")], "ONCE-filter")
M("C14", "emu-mps own-times test asks about the default times", "kill", [(IMPL, "self.config.is_time_in_evaluation_times(t, times, tol=tolerance)", "self.config.is_time_in_evaluation_times(t, self.config.default_evaluation_times, tol=tolerance)")], "ONCE-filter")
M("C03", "drive columns laid out for the sorted ids", "kill", [(PA, "    qubit_ids_filtered = [qid for qid in qubit_ids if qid in locals_a_d_p]", "    qubit_ids_filtered = sorted(locals_a_d_p.keys() & set(qubit_ids))")], "STEP-adapter")
M("C03", "drive columns laid out in the sampler's dictionary order", "kill", [(PA, "    qubit_ids_filtered = [qid for qid in qubit_ids if qid in locals_a_d_p]", "    qubit_ids_filtered = [qid for qid in locals_a_d_p if qid in qubit_ids]")], "STEP-adapter")
M("C22", "drive column written at a position counted over addressed atoms only of another list", "kill", [(PA, "            data_mid[:, q_pos] = pchip(t_mid)\n", "            data_mid[:, qubit_ids.index(q_id) % data_mid.shape[1]] = pchip(t_mid)\n")], "STEP-adapter")
M("C03", "twin: filtered ids built through an explicit list()", "twin", [(PA, "    qubit_ids_filtered = [qid for qid in qubit_ids if qid in locals_a_d_p]", "    present = locals_a_d_p\n    qubit_ids_filtered = [qid for qid in list(qubit_ids) if qid in present]")])
M("C23", "configured interaction matrix ignored", "kill", [(PA, "        if config.interaction_matrix is not None:\n            assert len(config.interaction_matrix) == self.qubit_count", "        if config.interaction_matrix is None:\n            assert len(config.interaction_matrix) == self.qubit_count")], "INTERACT")
M("C23", "configured interaction matrix stored without the size test", "kill", [(PA, "            assert len(config.interaction_matrix) == self.qubit_count, (\n                \"The number of qubits in the register should be the same as the size of \"\n                \"the interaction matrix\"\n            )\n", "")], "INTERACT")
M("C14", "emu-sv own-times membership by bisection on one neighbour", "kill",
  [(SVI, "        is_observable_eval_time = (\n            times is not None\n            and self._config.is_time_in_evaluation_times(t, times, tol=tolerance)\n        )\n",
    "        import bisect\n        is_observable_eval_time = (\n            times is not None\n            and len(times) > 0\n            and bool(abs(times[min(bisect.bisect_left(times, t), len(times) - 1)] - t) <= tolerance)\n        )\n")], "ONCE-filter")
M("C14", "twin: emu-sv own-times membership written as an explicit scan", "twin",
  [(SVI, "        is_observable_eval_time = (\n            times is not None\n            and self._config.is_time_in_evaluation_times(t, times, tol=tolerance)\n        )\n",
    "        is_observable_eval_time = times is not None and any(\n            abs(t - x) <= tolerance for x in times\n        )\n")])
# ---- make_H binding, diagonal builders
M("C04", "MPO rebuilt after the SLM switch with the callee's default interaction kind", "kill",
  [(HM, "    hamiltonian_type: HamiltonianType,\n    dim: int = 2,", "    hamiltonian_type: HamiltonianType = HamiltonianType.Rydberg,\n    dim: int = 2,"),
   (IMPL, "                interaction_matrix=self.current_interaction_matrix,\n                hamiltonian_type=self.hamiltonian_type,\n                dim=self.dim,", "                interaction_matrix=self.current_interaction_matrix,\n                dim=self.dim,")], "HAM-mps")
M("C04", "MPO rebuilt after the SLM switch for two levels", "kill",
  [(IMPL, "                hamiltonian_type=self.hamiltonian_type,\n                dim=self.dim,\n                num_gpus_to_use=self.resolved_num_gpus,", "                hamiltonian_type=self.hamiltonian_type,\n                num_gpus_to_use=self.resolved_num_gpus,")], "HAM-mps")
LOF = "emu_sv/lindblad_operator.py"
M("C16", "Lindbladian diagonal stops a row at the first zero coefficient", "kill",
  [(LOF, "                i_fixed = i_fixed.view(2**i, 2 ** (j - i - 1), 2, -1)\n                # replacing i_j_fixed by i_fixed breaks the code :)", "                if self.interaction_matrix[i, j] == 0.0:\n                    break\n                i_fixed = i_fixed.view(2**i, 2 ** (j - i - 1), 2, -1)\n                # replacing i_j_fixed by i_fixed breaks the code :)")], "HAM-form")
M("C16", "Lindbladian diagonal pairs start at i + 2", "kill",
  [(LOF, "            for j in range(i + 1, self.nqubits):\n                i_fixed = i_fixed.view(2**i, 2 ** (j - i - 1), 2, -1)\n                # replacing", "            for j in range(i + 2, self.nqubits):\n                i_fixed = i_fixed.view(2**i, 2 ** (j - i - 1), 2, -1)\n                # replacing")], "HAM-form")
M("C06", "Lindbladian diagonal second axis off by one", "kill",
  [(LOF, "                i_fixed = i_fixed.view(2**i, 2 ** (j - i - 1), 2, -1)\n                # replacing", "                i_fixed = i_fixed.view(2**i, 2 ** (j - i), 2, -1)\n                # replacing")], "HAM-form")
MPSF = "emu_mps/mps.py"
M("C11", "MPS.apply contracts the operator's row index (applies the transpose)", "kill",
  [(MPSF, "        self.factors[qubit_index] = (\n            single_qubit_operator.to(self.factors[qubit_index].device)\n            @ self.factors[qubit_index]\n        )",
    "        factor = self.factors[qubit_index]\n        self.factors[qubit_index] = (\n            torch.tensordot(factor, single_qubit_operator.to(factor.device), dims=([1], [0]))\n            .transpose(1, 2)\n            .contiguous()\n        )")], "APPLY-op")
M("C17", "MPS.apply multiplies from the right", "kill",
  [(MPSF, "            single_qubit_operator.to(self.factors[qubit_index].device)\n            @ self.factors[qubit_index]\n", "            self.factors[qubit_index].transpose(1, 2)\n            @ single_qubit_operator.to(self.factors[qubit_index].device)\n")], "APPLY-op")
M("C11", "twin: MPS.apply as a tensordot over the operator's column index", "twin",
  [(MPSF, "        self.factors[qubit_index] = (\n            single_qubit_operator.to(self.factors[qubit_index].device)\n            @ self.factors[qubit_index]\n        )",
    "        factor = self.factors[qubit_index]\n        self.factors[qubit_index] = (\n            torch.tensordot(factor, single_qubit_operator.to(factor.device), dims=([1], [1]))\n            .transpose(1, 2)\n            .contiguous()\n        )")])
M("C11", "twin: MPS.apply as an einsum", "twin",
  [(MPSF, "        self.factors[qubit_index] = (\n            single_qubit_operator.to(self.factors[qubit_index].device)\n            @ self.factors[qubit_index]\n        )",
    "        self.factors[qubit_index] = torch.einsum(\n            \"ij,ajb->aib\", single_qubit_operator.to(self.factors[qubit_index].device), self.factors[qubit_index]\n        )")])
