"""Kill-mutants and behaviour-preserving twins for the checker's self-test (see sa.mutate)."""
from .mutate import M

IMPL = "emu_mps/mps_backend_impl.py"
BACK = "emu_mps/mps_backend.py"
SVI = "emu_sv/sv_backend_impl.py"
TE = "emu_sv/time_evolution.py"
SU = "emu_mps/solver_utils.py"
PA = "emu_base/pulser_adapter.py"
JL = "emu_base/jump_lindblad_operators.py"

# ---------------------------------------------------------------- C01
M("C01", "dt uses T[k]-T[k-1]", "kill",
  [(SVI, "return self.target_times[step_idx + 1] - self.target_times[step_idx]",
    "return self.target_times[step_idx] - self.target_times[step_idx - 1]")], "STEP-sv")
M("C01", "omega row k+1", "kill", [(SVI, "            self.omega[step_idx],\n", "            self.omega[step_idx + 1],\n")], "STEP-sv")
M("C01", "delta/phi swapped", "kill",
  [(SVI, "            self.delta[step_idx],\n            self.phi[step_idx],\n",
    "            self.phi[step_idx],\n            self.delta[step_idx],\n")], "STEP-sv")
M("C01", "no unit conversion", "kill", [(SVI, "dt * _TIME_CONVERSION_COEFF,", "dt,")], "UNITS-sv")
M("C01", "conversion coefficient 0.01", "kill", [(SVI, "_TIME_CONVERSION_COEFF = 0.001", "_TIME_CONVERSION_COEFF = 0.01")], "UNITS-sv")
M("C01", "observables before the state store use stale index", "kill",
  [(SVI, "        step_idx += 1\n        self._apply_observables(step_idx)", "        self._apply_observables(step_idx)\n        step_idx += 1")], "STEP-sv")
M("C01", "loop skips the last step", "kill", [(SVI, "for step in range(self.nsteps):", "for step in range(self.nsteps - 1):")], "STEP-sv")
M("C01", "interaction matrix of the previous step", "kill",
  [(SVI, "self.interaction_matrix(self.target_times[step_idx]),", "self.interaction_matrix(self.target_times[step_idx - 1]),")], "STEP-sv")
M("C01", "state vector stepper not hermitian flag", "kill", [(TE, "            is_hermitian=True,\n", "            is_hermitian=False,\n")], "HERM")
M("C01", "evolve swaps omegas/phis", "kill",
  [(TE, "        res, ham = EvolveStateVector.evolve(\n            dt,\n            omegas,\n            deltas,\n            phis,",
    "        res, ham = EvolveStateVector.evolve(\n            dt,\n            phis,\n            deltas,\n            omegas,")], "ROLE-sv")
M("C01", "sign of the exponent", "kill", [(TE, "            return -1j * dt * (ham * x)\n\n        res = krylov_exp(", "            return 1j * dt * (ham * x)\n\n        res = krylov_exp(")], "UNITS-sv")
M("C01", "twin: hoist dt conversion", "twin",
  [(SVI, "        self.state.data, self._current_H = self.stepper.apply(\n            dt * _TIME_CONVERSION_COEFF,",
    "        dt_us = _TIME_CONVERSION_COEFF * dt\n        self.state.data, self._current_H = self.stepper.apply(\n            dt_us,")])
M("C01", "twin: inline _compute_dt", "twin",
  [(SVI, "        dt = self._compute_dt(step_idx)\n", "        dt = self.target_times[1 + step_idx] - self.target_times[step_idx]\n")])

# ---------------------------------------------------------------- C02
M("C02", "drives not permuted", "kill",
  [(IMPL, "self.omega = pulser_data.omega[:, self.qubit_permutation]", "self.omega = pulser_data.omega")], "PERM")
M("C02", "matrix not permuted", "kill",
  [(IMPL, "            matrix = optimat.permute_tensor(matrix, self.qubit_permutation)\n", "            pass\n")], "PERM")
M("C02", "matrix permuted with inverse", "kill",
  [(IMPL, "            matrix = optimat.permute_tensor(matrix, self.qubit_permutation)\n",
    "            matrix = optimat.permute_tensor(matrix, optimat.inv_permutation(self.qubit_permutation))\n")], "PERM")
M("C02", "TDVP right sweep coefficient 1 instead of 1/2", "kill",
  [(IMPL, "                dt=delta_time / 2,\n                orth_center_right=True,", "                dt=delta_time,\n                orth_center_right=True,")], "TDVP")
M("C02", "TDVP backward single-site sign", "kill", [(IMPL, "self._evolve(self._sweep_index + 1, dt=-delta_time / 2)", "self._evolve(self._sweep_index + 1, dt=delta_time / 2)")], "TDVP")
M("C02", "TDVP bath pushed after the single-site step", "kill",
  [(IMPL, "            self._evolve(self._sweep_index + 1, dt=-delta_time / 2)\n            self.right_baths.pop()",
    "            self.right_baths.pop()\n            self._evolve(self._sweep_index + 1, dt=-delta_time / 2)")], "TDVP")
M("C02", "left sweep centre flag flipped", "kill",
  [(IMPL, "                dt=delta_time / 2,\n                orth_center_right=False,", "                dt=delta_time / 2,\n                orth_center_right=True,")], "TDVP")
M("C02", "left bath from the wrong factor", "kill",
  [(IMPL, "                    self.state.factors[self._sweep_index],\n                    self.hamiltonian.factors[self._sweep_index],\n                ).to(self.state.factors[self._sweep_index + 1].device)",
    "                    self.state.factors[self._sweep_index + 1],\n                    self.hamiltonian.factors[self._sweep_index],\n                ).to(self.state.factors[self._sweep_index + 1].device)")], "BATHS")
M("C02", "target_times[idx] after increment", "kill",
  [(IMPL, "self.target_time = self.target_times[self._timestep_index + 1]\n            self.update_H()",
    "self.target_time = self.target_times[self._timestep_index]\n            self.update_H()")], "STEP-mps")
M("C02", "baths rebuilt before the Hamiltonian is refreshed", "kill",
  [(IMPL, "            self.update_H()\n            self.init_baths()\n\n        self.statistics.data.append", "            self.init_baths()\n            self.update_H()\n\n        self.statistics.data.append")], "BATHS")
M("C02", "current_time not advanced", "kill", [(IMPL, "    def sweep_complete(self) -> None:\n        self.current_time = self.target_time\n        self.timestep_complete()",
                                                  "    def sweep_complete(self) -> None:\n        self.timestep_complete()")], "STEP-mps")
M("C02", "update_H row off by one", "kill",
  [(IMPL, "            omega=self.omega[self._timestep_index, :],\n            delta=self.delta[self._timestep_index, :],\n            phi=self.phi[self._timestep_index, :],\n            noise=self.lindblad_noise,",
    "            omega=self.omega[self._timestep_index - 1, :],\n            delta=self.delta[self._timestep_index, :],\n            phi=self.phi[self._timestep_index, :],\n            noise=self.lindblad_noise,")], "STEP-mps")
M("C02", "no unit conversion in evolve_pair", "kill", [(SU, "    time_step = -1j * _TIME_CONVERSION_COEFF * dt\n", "    time_step = -1j * dt\n")], "UNITS-mps")
M("C02", "double conversion in evolve_single", "kill",
  [(SU, "    time_step = -_TIME_CONVERSION_COEFF * 1j * dt\n", "    time_step = -_TIME_CONVERSION_COEFF * 1j * dt * _TIME_CONVERSION_COEFF\n")], "UNITS-mps")
M("C02", "hermitian flag inverted", "kill",
  [(IMPL, "                is_hermitian=not self.has_lindblad_noise,\n                dim=self.dim,", "                is_hermitian=self.has_lindblad_noise,\n                dim=self.dim,")], "HERM")
M("C02", "krylov tolerance ignores extra factor", "kill",
  [(SU, "        exp_tolerance=config.precision * config.extra_krylov_tolerance,\n        norm_tolerance=config.precision * config.extra_krylov_tolerance,\n        max_krylov_dim=config.max_krylov_dim,\n        is_hermitian=is_hermitian,\n    ).view(",
    "        exp_tolerance=config.precision,\n        norm_tolerance=config.precision * config.extra_krylov_tolerance,\n        max_krylov_dim=config.max_krylov_dim,\n        is_hermitian=is_hermitian,\n    ).view(")], "ROLE-mps")
M("C02", "dim not forwarded to evolve_pair", "kill", [(IMPL, "                is_hermitian=not self.has_lindblad_noise,\n                dim=self.dim,\n", "                is_hermitian=not self.has_lindblad_noise,\n")], "ROLE-mps")
M("C02", "twin: 0.5*delta_time", "twin", [(IMPL, "self._evolve(self._sweep_index + 1, dt=-delta_time / 2)", "self._evolve(1 + self._sweep_index, dt=-0.5 * delta_time)")])
M("C02", "twin: hoist permutation", "twin",
  [(IMPL, "            matrix = optimat.permute_tensor(matrix, self.qubit_permutation)\n", "            perm = self.qubit_permutation\n            matrix = optimat.permute_tensor(matrix, perm)\n")])
M("C02", "twin: unconditional permute of the matrix", "twin",
  [(IMPL, "        if not torch.equal(\n            self.qubit_permutation, optimat.eye_permutation(self.qubit_count)\n        ):\n            matrix = optimat.permute_tensor(matrix, self.qubit_permutation)\n",
    "        matrix = optimat.permute_tensor(matrix, self.qubit_permutation)\n")])
M("C02", "twin: temporaries for the new left bath", "twin",
  [(IMPL, "            self.left_baths.append(\n                new_left_bath(\n                    self.get_current_left_bath(),\n                    self.state.factors[self._sweep_index],\n                    self.hamiltonian.factors[self._sweep_index],\n                ).to(self.state.factors[self._sweep_index + 1].device)\n            )\n            self._evolve(self._sweep_index + 1, dt=-delta_time / 2)",
    "            nb = new_left_bath(\n                self.get_current_left_bath(),\n                self.state.factors[self._sweep_index],\n                self.hamiltonian.factors[self._sweep_index],\n            )\n            self.left_baths.append(nb.to(self.state.factors[self._sweep_index + 1].device))\n            self._evolve(self._sweep_index + 1, dt=-delta_time / 2)")])

# ---------------------------------------------------------------- C03
M("C03", "resume without permute_results", "kill",
  [(BACK, "        return impl.permute_results(result, impl.config.optimize_qubit_ordering)\n\n    def run", "        return result\n\n    def run")], "PERM-entry")
M("C03", "run without permute_results", "kill", [(BACK, "        return impl.permute_results(result, config.optimize_qubit_ordering)", "        return result")], "PERM-entry")
M("C03", "permute_results flag literal False", "kill", [(BACK, "        return impl.permute_results(result, config.optimize_qubit_ordering)", "        return impl.permute_results(result, False)")], "PERM-entry")
M("C03", "forward permutation in permute_results", "kill", [(IMPL, "            inv_perm = optimat.inv_permutation(self.qubit_permutation)", "            inv_perm = self.qubit_permutation")], "PERM-unpermute")
M("C03", "atom order not un-permuted", "kill", [(IMPL, "            permute_atom_order(results, inv_perm)\n", "")], "PERM")
M("C03", "atom_order in register order", "kill",
  [(IMPL, "            atom_order=optimat.permute_tuple(\n                pulser_data.qubit_ids, self.qubit_permutation\n            ),", "            atom_order=pulser_data.qubit_ids,")], "PERM")
M("C03", "initial state permuted with inverse", "kill",
  [(IMPL, "optimat.permute_string(bstr, self.qubit_permutation): amp", "optimat.permute_string(bstr, optimat.inv_permutation(self.qubit_permutation)): amp")], "PERM-sink")
M("C03", "initial state not permuted", "kill",
  [(IMPL, "            initial_state = MPS.from_state_amplitudes(eigenstates=eigs, amplitudes=ampl)\n", "            pass\n")], "PERM-sink")
M("C03", "literal tag lookup", "kill",
  [(IMPL, "    for tag in _tags_with_base_tag(results, \"bitstrings\"):\n", "    for tag in [\"bitstrings\"] if \"bitstrings\" in results.get_result_tags() else []:\n")], "TAGKEY")
M("C03", "whitelist gains an unhandled per-atom tag", "kill", [("emu_mps/mps_config.py", "                \"statistics\",\n                \"energy\",", "                \"statistics\",\n                \"fidelity\",\n                \"energy\",")], "TABLES-whitelist")
M("C03", "optimiser used regardless of the flag", "kill",
  [(IMPL, "            if self.config.optimize_qubit_ordering\n            else optimat.eye_permutation(self.qubit_count)", "            if self.config.optimize_qubit_ordering or self.qubit_count > 8\n            else optimat.eye_permutation(self.qubit_count)")], "PERM-field")
M("C03", "twin: permute_results flag True", "twin", [(BACK, "        return impl.permute_results(result, config.optimize_qubit_ordering)", "        return impl.permute_results(result, True)")])
M("C03", "twin: inline helper call order", "twin",
  [(IMPL, "            permute_bitstrings(results, inv_perm)\n            permute_occupations_and_correlations(results, inv_perm)\n", "            permute_occupations_and_correlations(results, inv_perm)\n            permute_bitstrings(results, inv_perm)\n")])

# ---------------------------------------------------------------- C04
M("C04", "sv XY guard removed", "kill",
  [(SVI, "        if data.hamiltonian_type != HamiltonianType.Rydberg or data.dim != 2:", "        if data.dim != 2:")], "DISPATCH-consume")
M("C04", "sv dim guard removed", "kill",
  [(SVI, "        if data.hamiltonian_type != HamiltonianType.Rydberg or data.dim != 2:", "        if data.hamiltonian_type != HamiltonianType.Rydberg:")], "DISPATCH-consume")
M("C04", "noise before solver", "kill",
  [(IMPL, "    if config.solver == Solver.DMRG:\n        # DMRGBackendImpl refuses noise models with noise\n        return DMRGBackendImpl(config, data)\n    if data.lindblad_ops:\n        return NoisyMPSBackendImpl(config, data)\n",
    "    if data.lindblad_ops:\n        return NoisyMPSBackendImpl(config, data)\n    if config.solver == Solver.DMRG:\n        return DMRGBackendImpl(config, data)\n")], "DISPATCH-solver")
M("C04", "make_H falls back to Rydberg", "kill",
  [("emu_mps/hamiltonian.py", "    raise ValueError(f\"Unsupported hamiltonian_type: {hamiltonian_type}\")", "    return MPO(list(RydbergHamiltonianMPOFactors(interaction_matrix, dim=dim)), num_gpus_to_use=num_gpus_to_use)")], "DISPATCH-exhaustive")
M("C04", "unknown noise type yields no operators", "kill", [(JL, "    raise ValueError(f\"Unknown noise type: {noise_type}\")", "    return []")], "DISPATCH-exhaustive")
M("C04", "hyperfine dephasing accepted", "kill",
  [(JL, "        if noise_model.hyperfine_dephasing_rate != 0.0:\n            raise NotImplementedError(\n                \"hyperfine_dephasing_rate is supported only in the digital basis\"\n            )\n", "")], "DISPATCH-hyperfine")
M("C04", "unsupported interaction type defaults to Rydberg", "kill",
  [(PA, "        else:\n            raise ValueError(f\"Unsupported basis: {int_type}\")", "        else:\n            self.hamiltonian_type = HamiltonianType.Rydberg")], "DISPATCH-exhaustive")
M("C04", "DMRG noise guard inverted", "kill",
  [(IMPL, "        if mps_config.noise_model.noise_types != () or pulser_data.lindblad_ops:", "        if mps_config.noise_model.noise_types == ():")], "DISPATCH-dmrg-noise")
M("C04", "a Lindblad noise type filtered as non-Lindbladian", "kill", [(PA, "    \"dmm_crosstalk\",\n}", "    \"dmm_crosstalk\",\n    \"relaxation\",\n}")], "DISPATCH-noise")
M("C04", "twin: assert-style sv guard", "twin",
  [(SVI, "        if data.hamiltonian_type != HamiltonianType.Rydberg or data.dim != 2:\n            raise NotImplementedError(",
    "        unsupported = data.hamiltonian_type != HamiltonianType.Rydberg or data.dim != 2\n        if unsupported:\n            raise NotImplementedError(")])
M("C04", "twin: elif chain in make_H", "twin",
  [("emu_mps/hamiltonian.py", "    if hamiltonian_type == HamiltonianType.XY:\n        return MPO(", "    elif hamiltonian_type == HamiltonianType.XY:\n        return MPO(")])
