"""Rational-function identities over provenance terms.

``frac(term)`` turns an arithmetic term (Add/Sub/Mult/Div/Pow by a small integer/neg over atoms) into a pair of
polynomials (numerator, denominator) in the representation of :mod:`sa.algebra` ({sorted atom tuple: coefficient});
``rat_equal(a, b)`` decides a ≡ b as rational functions by cross-multiplication, which is exact for the formal
identity (no division is ever carried out, so `x / y * y` and `x` are equal, as they are wherever the code's own
expression is defined).  An optional substitution maps atoms (canonicalised terms) to replacement terms first.
"""
from __future__ import annotations

from .algebra import EPS, canon_atom, _isnum
from .interp import strip_typed

Poly = dict


def _padd(a: Poly, b: Poly, s: int = 1) -> Poly:
    out = dict(a)
    for m, c in b.items():
        out[m] = out.get(m, 0j) + s * c
    return out


def _pmul(a: Poly, b: Poly) -> Poly:
    out: Poly = {}
    for m1, c1 in a.items():
        for m2, c2 in b.items():
            m = tuple(sorted(m1 + m2, key=repr))
            out[m] = out.get(m, 0j) + c1 * c2
    return out


def _clean(p: Poly) -> Poly:
    scale = max((abs(c) for c in p.values()), default=0.0)
    return {m: c for m, c in p.items() if abs(c) > max(EPS, 1e-12 * scale)}


ONE: Poly = {(): 1 + 0j}


def frac(t, subst: dict | None = None) -> tuple[Poly, Poly]:
    t = strip_typed(t)
    k = t[0]
    if k == "default":
        return frac(t[1], subst)
    if k == "const" and _isnum(t[1]):
        return {(): complex(t[1])}, dict(ONE)
    if k == "un" and t[1] == "neg":
        n, d = frac(t[2], subst)
        return {m: -c for m, c in n.items()}, d
    if k == "bin":
        op = t[1]
        if op in ("Add", "Sub"):
            (n1, d1), (n2, d2) = frac(t[2], subst), frac(t[3], subst)
            if _clean(_padd(d1, d2, -1)) == {}:
                return _padd(n1, n2, 1 if op == "Add" else -1), d1
            return _padd(_pmul(n1, d2), _pmul(n2, d1), 1 if op == "Add" else -1), _pmul(d1, d2)
        if op == "Mult":
            (n1, d1), (n2, d2) = frac(t[2], subst), frac(t[3], subst)
            return _pmul(n1, n2), _pmul(d1, d2)
        if op == "Div":
            (n1, d1), (n2, d2) = frac(t[2], subst), frac(t[3], subst)
            return _pmul(n1, d2), _pmul(d1, n2)
        if op == "Pow":
            e = strip_typed(t[3])
            if e[0] == "const" and isinstance(e[1], (int, float)) and float(e[1]) == int(e[1]) and 0 <= int(e[1]) <= 4:
                n, d = frac(t[2], subst)
                rn, rd = dict(ONE), dict(ONE)
                for _ in range(int(e[1])):
                    rn, rd = _pmul(rn, n), _pmul(rd, d)
                return rn, rd
    a = canon_atom(t)
    if subst and a in subst:
        return frac(subst[a], None)
    return {(a,): 1 + 0j}, dict(ONE)


def rat_equal(a, b, subst: dict | None = None) -> bool:
    (n1, d1), (n2, d2) = frac(a, subst), frac(b, subst)
    return _clean(_padd(_pmul(n1, d2), _pmul(n2, d1), -1)) == {}


# ---------------------------------------------------------------- term constructors for reference formulas
def add(*xs):
    out = xs[0]
    for x in xs[1:]:
        out = ("bin", "Add", out, x)
    return out


def sub(a, b):
    return ("bin", "Sub", a, b)


def mul(*xs):
    out = xs[0]
    for x in xs[1:]:
        out = ("bin", "Mult", out, x)
    return out


def div(a, b):
    return ("bin", "Div", a, b)


def num(v):
    return ("const", v)
