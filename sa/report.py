"""Obligations, verdicts, evidence files, known findings."""
from __future__ import annotations

import hashlib
import json
import os
import re
import time
from dataclasses import dataclass, field, asdict

from .model import AnalysisError, Program

VERIF = os.path.dirname(os.path.dirname(os.path.abspath(__file__)))


@dataclass
class Ob:
    rule: str
    key: str
    where: str
    ok: bool
    detail: str
    nontrivial: bool = True
    entry: str = ""
    path: str = ""

    def as_dict(self) -> dict:
        d = asdict(self)
        d["verdict"] = "holds" if self.ok else "VIOLATED"
        return d


class Ctx:
    """Collector handed to every rule of one property run."""

    def __init__(self, prog: Program, prop: str, tier: str = "quick"):
        self.prog = prog
        self.prop = prop
        self.tier = tier
        self.obs: list[Ob] = []
        self.notes: list[str] = []
        self.analysed: dict = {}
        self.floors: dict = {}
        self.extra: dict = {}

    def ob(self, rule: str, key: str, where: str, ok: bool, detail: str, *, nontrivial: bool = True,
           entry: str = "", path: str = "") -> Ob:
        k = f"{rule}|{key}"
        o = Ob(rule=rule, key=k, where=where, ok=bool(ok), detail=detail, nontrivial=nontrivial,
               entry=entry, path=path)
        # one obligation per key: a repeated key keeps the failing verdict
        for i, old in enumerate(self.obs):
            if old.key == k:
                if old.ok and not o.ok:
                    self.obs[i] = o
                return self.obs[i]
        self.obs.append(o)
        return o

    def require(self, cond, msg: str) -> None:
        if not cond:
            raise AnalysisError(msg)

    def floor(self, rule: str, n: int) -> None:
        """At least n obligations must have been produced for `rule` (prefix match)."""
        self.floors[rule] = n

    def check_floors(self) -> None:
        for rule, n in self.floors.items():
            got = sum(1 for o in self.obs if o.rule == rule or o.rule.startswith(rule + "-"))
            if got < n:
                raise AnalysisError(
                    f"rule {rule}: {got} instance(s) found, {n} confirmed by hand — the anchor moved or the "
                    f"rule no longer recognises the code; refusing to pass vacuously")

    def note(self, s: str) -> None:
        self.notes.append(s)

    def count(self, what: str, n: int = 1) -> None:
        self.analysed[what] = self.analysed.get(what, 0) + n


# ------------------------------------------------------------ known findings
@dataclass
class Known:
    prop: str
    key: str
    text: str


def load_known(path: str | None = None) -> tuple[list[Known], list[str]]:
    path = path or os.path.join(VERIF, "known-findings.txt")
    known, fixed = [], []
    if not os.path.exists(path):
        return known, fixed
    with open(path, encoding="utf-8") as f:
        for line in f:
            line = line.rstrip("\n")
            if line.startswith("known:"):
                m = re.match(r"known:\s+property=(\S+)\s+key=(.*?)\s+::\s+(.*)$", line)
                if m:
                    known.append(Known(m.group(1), m.group(2), m.group(3)))
            elif line.startswith("fixed:"):
                fixed.append(line)
    return known, fixed


def key_digest(key: str) -> str:
    return hashlib.sha1(key.encode()).hexdigest()[:12]


# ------------------------------------------------------------------ evidence
def write_evidence(ctx: Ctx, meta: dict, wall: float, violations: list[Ob], known_hits: list[Ob],
                   error: str | None = None) -> str:
    os.makedirs(os.path.join(VERIF, "evidence"), exist_ok=True)
    obs = ctx.obs
    distinct_nontrivial = len({o.key for o in obs if o.nontrivial})
    samples = [o.as_dict() for o in obs[:6]]
    for o in violations + known_hits:
        d = o.as_dict()
        if d not in samples:
            samples.append(d)
    rules = sorted({o.rule for o in obs})
    cov = {
        "explanation": meta.get("explanation", ""),
        "rule": "static analysis of /repo's working tree: one obligation per (rule, construct) instance; an "
                "obligation is non-trivial when deciding it needed a flow/path/provenance fact (counted by the "
                "engine), trivial when it is a mere presence check",
        "evaluations": len(obs),
        "distinct_nontrivial": distinct_nontrivial,
        "obligations": len(obs),
        "discharged": sum(1 for o in obs if o.ok),
        "samples": samples,
        "rules": rules,
        "per_rule": {r: {"obligations": sum(1 for o in obs if o.rule == r),
                         "discharged": sum(1 for o in obs if o.rule == r and o.ok)} for r in rules},
        "analysed": dict(ctx.analysed, **ctx.prog.parse_stats),
        "trusted_base": meta.get("trusted_base", []),
        "checker_cmd": f"./check {ctx.prop} --tier {ctx.tier}",
        "not_decided": meta.get("not_decided", ""),
        "known_findings_reported": [o.key for o in known_hits],
        "exhaustive": True,
        "notes": ctx.notes,
    }
    cov.update(ctx.extra)
    if error:
        cov["analysis_error"] = error
    ev = {
        "property_id": ctx.prop,
        "tier": ctx.tier,
        "seed": int(os.environ.get("VERIF_SEED", "0") or 0),
        "level": "other",
        "coverage": cov,
        "assumptions": meta.get("assumptions", []),
        "wall_s": round(wall, 3),
        "violations": len(violations),
    }
    path = os.path.join(VERIF, "evidence", f"{ctx.prop}.json")
    tmp = path + ".tmp"
    with open(tmp, "w", encoding="utf-8") as f:
        json.dump(ev, f, indent=1, sort_keys=False, default=str)
        f.write("\n")
    os.replace(tmp, path)
    return path


def write_replay(prop: str, o: Ob) -> str:
    d = os.path.join(VERIF, "replay")
    os.makedirs(d, exist_ok=True)
    path = os.path.join(d, f"{prop}-{key_digest(o.key)}.json")
    with open(path, "w", encoding="utf-8") as f:
        json.dump({"property": prop, "obligation": o.as_dict()}, f, indent=1)
        f.write("\n")
    return path
