"""./check <ID> [--tier quick|thorough] [--replay file]

exit 0: property held on everything analysed (known findings printed, not counted)
exit 1: at least one violation not in known-findings.txt; one VIOLATION line each
exit 2: ANALYSIS-ERROR — the analysis could not be carried out (never a verdict)
"""
from __future__ import annotations

import argparse
import json
import os
import sys
import time
import traceback

from .model import AnalysisError, load_program
from .report import Ctx, load_known, write_evidence, write_replay
from . import props


def run_property(pid: str, tier: str, overlay: dict | None = None, root: str | None = None):
    """Run the rules of one property; returns (ctx, meta). Raises AnalysisError."""
    mod = props.get(pid)
    prog = load_program(root=root, overlay=overlay)
    ctx = Ctx(prog, pid, tier)
    mod.check(ctx)
    ctx.floor_error = None
    try:
        ctx.check_floors()
    except AnalysisError as e:
        # a rule that reports a violation may stop early and leave a floor unmet: the violation is the verdict.  With no
        # failing obligation at all the unmet floor means the rule no longer recognises the code.
        if all(o.ok for o in ctx.obs):
            raise
        ctx.floor_error = str(e)
    return ctx, mod.META


def main(argv=None) -> int:
    ap = argparse.ArgumentParser(prog="check")
    ap.add_argument("pid")
    ap.add_argument("--tier", default=os.environ.get("VERIF_TIER", "quick"), choices=["quick", "thorough"])
    ap.add_argument("--replay", default=None)
    ap.add_argument("--no-evidence", action="store_true")
    ap.add_argument("-v", "--verbose", action="store_true")
    args = ap.parse_args(argv)
    pid = args.pid
    t0 = time.time()
    try:
        if pid not in props.ids():
            print(f"ANALYSIS-ERROR property={pid} no check registered (not claimed; see MANIFEST.not_applicable)")
            return 2
        ctx, meta = run_property(pid, args.tier)
        extra_lines: list[str] = []
        if args.tier == "thorough":
            from . import thorough
            extra_lines = thorough.run(pid, ctx, meta)
    except AnalysisError as e:
        print(f"ANALYSIS-ERROR property={pid} {e}")
        _error_evidence(pid, args.tier, time.time() - t0, str(e), args.no_evidence)
        return 2
    except Exception as e:  # never let a traceback look like a verdict
        tb = traceback.format_exc(limit=8)
        print(f"ANALYSIS-ERROR property={pid} internal error: {type(e).__name__}: {e}")
        sys.stderr.write(tb)
        _error_evidence(pid, args.tier, time.time() - t0, f"{type(e).__name__}: {e}", args.no_evidence)
        return 2

    known, _fixed = load_known()
    known_keys = {k.key: k for k in known if k.prop == pid}
    violations = [o for o in ctx.obs if not o.ok and o.key not in known_keys]
    known_hits = [o for o in ctx.obs if not o.ok and o.key in known_keys]
    if getattr(ctx, "floor_error", None) and not violations:
        # only known findings fail and a floor is unmet: the rule set no longer covers what was confirmed by hand
        print(f"ANALYSIS-ERROR property={pid} {ctx.floor_error}")
        _error_evidence(pid, args.tier, time.time() - t0, ctx.floor_error, args.no_evidence)
        return 2

    if args.replay:
        with open(args.replay, encoding="utf-8") as f:
            want = json.load(f)["obligation"]["key"]
        hit = [o for o in ctx.obs if o.key == want]
        if not hit:
            print(f"REPLAY property={pid} obligation no longer exists on this tree: {want}")
            return 0
        o = hit[0]
        print(f"REPLAY property={pid} {o.key}: {'holds' if o.ok else 'VIOLATED'} — {o.where}: {o.detail}")
        if not o.ok:
            print(f"VIOLATION property={pid} replay={args.replay}")
            return 1
        return 0

    wall = time.time() - t0
    _RC[0] = 1 if violations else 0
    if not args.no_evidence:
        write_evidence(ctx, meta, wall, violations, known_hits)
    print(f"property={pid} tier={args.tier} obligations={len(ctx.obs)} discharged={sum(o.ok for o in ctx.obs)} "
          f"rules={len({o.rule for o in ctx.obs})} wall={wall:.2f}s")
    if args.verbose:
        for o in ctx.obs:
            print(f"  [{'ok' if o.ok else 'XX'}] {o.rule} {o.where} {o.key.split('|', 1)[1]} — {o.detail}")
    for line in extra_lines:
        print(line)
    for o in known_hits:
        print(f"KNOWN-FINDING: property={pid} {o.where} {o.key} — {known_keys[o.key].text}")
    for o in violations:
        path = write_replay(pid, o)
        print(f"  {o.where}: [{o.rule}] {o.detail}" + (f" (entry {o.entry})" if o.entry else "")
              + (f" path: {o.path}" if o.path else ""))
        print(f"VIOLATION property={pid} replay={path}")
    return 1 if violations else 0


_RC = [2]


def _error_evidence(pid: str, tier: str, wall: float, msg: str, skip: bool) -> None:
    if skip:
        return
    try:
        from .model import Program
        prog = type("P", (), {"parse_stats": {}})()
        ctx = Ctx(prog, pid, tier)  # type: ignore[arg-type]
        meta = props.get(pid).META if pid in props.ids() else {}
        write_evidence(ctx, meta, wall, [], [], error=msg)
    except Exception:
        pass


if __name__ == "__main__":
    try:
        rc = main()
        sys.stdout.flush()
    except BrokenPipeError:  # output piped into `head`: keep the verdict in the exit code
        try:
            sys.stdout.close()
        except Exception:
            pass
        rc = _RC[0]
    sys.exit(rc)
