"""Path-sensitive abstract interpreter over a *term* domain.

Nothing is executed: every Python value is abstracted to a symbolic term (a
nested tuple) that records where it came from.  An `if` forks the analysis
state into two paths unless the condition is already decided on the path;
loops are abstracted by one symbolic iteration (the loop variable is the
opaque term ``('elem', iterable, loop-id)``); calls to repository functions are
either *inlined* (policy supplied by the rule; bounded depth) or left opaque as
``('call', qualname, args, kwargs)`` terms.  Every path keeps an ordered event
trace (calls with bound arguments, attribute/subscript stores, asserts,
raises, returns) — the rules are pattern tests over traces and terms.

No solver is involved: a condition is "decided" only when the same term (or its
negation) was assumed earlier on the path, or when it is a literal.
"""
from __future__ import annotations

import ast
from dataclasses import dataclass, field
from fractions import Fraction
from typing import Callable, Optional

from .model import AnalysisError, ClassInfo, FuncInfo, Module, Program, dotted

SELF = ("self",)
NONE = ("const", None)
TRUE = ("const", True)
FALSE = ("const", False)


# --------------------------------------------------------------------- events
@dataclass
class Event:
    kind: str                      # call|setattr|setitem|assert|raise|return|yield|with_enter|with_exit
    func: FuncInfo                 # function whose body contains the construct
    node: ast.AST
    name: str = ""                 # canonical callee name / attribute name
    callee: object = None          # FuncInfo | ClassInfo | None
    recv: object = None            # receiver term for method calls
    pos: tuple = ()
    kw: tuple = ()                 # ((name, term), ...)
    args: dict = field(default_factory=dict)  # bound parameters (resolved callee)
    target: object = None          # (objterm, attr) | (baseterm, indexterm)
    value: object = None
    aug: str | None = None
    inlined: bool = False
    depth: int = 0
    ctx: tuple = ()
    ncond: int = 0
    conds: tuple = ()              # the path conditions established when the event was emitted
    result: object = None

    @property
    def lineno(self) -> int:
        return getattr(self.node, "lineno", 0)

    def loc(self) -> str:
        return f"{self.func.module.relpath}:{self.lineno}"

    def arg(self, name: str, default=None):
        if name in self.args:
            return self.args[name]
        for k, v in self.kw:
            if k == name:
                return v
        return default


class Frame:
    __slots__ = ("func", "env", "selfterm", "selfcls", "closure")

    def __init__(self, func, env, selfterm, selfcls, closure=None):
        self.func = func
        self.env = env
        self.selfterm = selfterm
        self.selfcls = selfcls
        self.closure = closure

    def copy(self) -> "Frame":
        return Frame(self.func, dict(self.env), self.selfterm, self.selfcls, self.closure)


class Path:
    def __init__(self):
        self.frames: list[Frame] = []
        self.heap: dict = {}
        self.events: list[Event] = []
        self.conds: dict = {}
        self.cond_log: list = []
        self.status = "normal"
        self.retval = None
        self.ctx: list = []
        self.raised = None

    def copy(self) -> "Path":
        p = Path()
        p.frames = [f.copy() for f in self.frames]
        p.heap = dict(self.heap)
        p.events = list(self.events)
        p.conds = dict(self.conds)
        p.cond_log = list(self.cond_log)
        p.status = self.status
        p.retval = self.retval
        p.ctx = list(self.ctx)
        p.raised = self.raised
        return p

    @property
    def frame(self) -> Frame:
        return self.frames[-1]

    def calls(self, name: str | None = None, pred: Callable | None = None) -> list[Event]:
        out = []
        for e in self.events:
            if e.kind != "call":
                continue
            if name is not None and e.name != name and not e.name.endswith("." + name):
                continue
            if pred is not None and not pred(e):
                continue
            out.append(e)
        return out

    def assume(self, term, truth: bool) -> None:
        term, truth = _strip_not(term, truth)
        self.conds[term] = truth
        self.cond_log.append((term, truth))
        if term[0] == "bool":
            if term[1] == "and" and truth:
                for t in term[2]:
                    self.assume(t, True)
            elif term[1] == "or" and not truth:
                for t in term[2]:
                    self.assume(t, False)

    def known(self, term) -> Optional[bool]:
        term, flip = _strip_not(term, True)
        v = _const_truth(term)
        if v is None:
            v = self.conds.get(term)
        if v is None and term[0] == "bool":
            vals = [self.known(t) for t in term[2]]
            if term[1] == "and":
                if any(x is False for x in vals):
                    v = False
                elif all(x is True for x in vals):
                    v = True
            else:
                if any(x is True for x in vals):
                    v = True
                elif all(x is False for x in vals):
                    v = False
        if v is None:
            return None
        return v if flip else (not v)


def _strip_not(term, truth: bool):
    while isinstance(term, tuple) and term and term[0] == "un" and term[1] == "not":
        term = term[2]
        truth = not truth
    if isinstance(term, tuple) and term and term[0] == "cmp":
        op = term[1]
        flipmap = {"isnot": "is", "!=": "==", "notin": "in"}
        if op in flipmap:
            term = ("cmp", flipmap[op], term[2], term[3])
            truth = not truth
    return term, truth


def _const_truth(term) -> Optional[bool]:
    if term[0] == "const":
        try:
            return bool(term[1])
        except Exception:
            return None
    if term[0] == "cmp" and term[1] == "is":
        a, b = term[2], term[3]
        if a[0] == "const" and b[0] == "const":
            return a[1] is b[1]
        if b == NONE and a[0] in ("new", "list", "tuple", "dict", "ref", "bin", "lambda"):
            return False
    if term[0] == "cmp" and term[1] == "==" and term[2][0] == "const" and term[3][0] == "const":
        return term[2][1] == term[3][1]
    if term[0] in ("list", "tuple") and not term[1]:
        return False
    return None


# ---------------------------------------------------------------- interpreter
class Interp:
    def __init__(self, prog: Program, cls: ClassInfo | None = None,
                 inline: Callable | None = None, max_depth: int = 6,
                 max_paths: int = 6000, fork_asserts: bool = False,
                 loop_iters: tuple = (1,), on_event: Callable | None = None, fork_ifexp: bool = True):
        self.prog = prog
        self.fork_ifexp = fork_ifexp
        self.cls = cls
        self.inline_policy = inline or (lambda callee, recv, depth: recv == SELF)
        self.max_depth = max_depth
        self.max_paths = max_paths
        self.fork_asserts = fork_asserts
        self.loop_iters = loop_iters
        self.noinline = 0
        self.unresolved: list = []
        self.ncalls = 0
        self.nresolved = 0
        self.on_event = on_event

    # ------------------------------------------------------------------ api
    def run(self, func: FuncInfo, args: dict | None = None, heap: dict | None = None,
            selfterm=SELF) -> list[Path]:
        p = Path()
        if heap:
            p.heap.update(heap)
        env = {}
        a = func.node.args
        params = [x.arg for x in a.posonlyargs + a.args + a.kwonlyargs]
        is_method = func.cls is not None and not func.is_static
        for i, name in enumerate(params):
            if i == 0 and is_method and not func.is_classmethod:
                env[name] = selfterm
            elif i == 0 and func.is_classmethod:
                env[name] = ("ref", (self.cls or func.cls).qualname)
            elif args and name in args:
                env[name] = args[name]
            else:
                env[name] = ("param", func.qualname, name)
        if a.vararg:
            env[a.vararg.arg] = ("param", func.qualname, "*" + a.vararg.arg)
        if a.kwarg:
            env[a.kwarg.arg] = ("param", func.qualname, "**" + a.kwarg.arg)
        selfcls = self.cls if (is_method and self.cls is not None) else func.cls
        p.frames.append(Frame(func, env, selfterm if is_method else None, selfcls))
        outs = self.exec_block(func.node.body, [p])
        for q in outs:
            if q.status == "normal":
                q.status = "return"
                q.retval = NONE
        return outs

    # ----------------------------------------------------------- statements
    def exec_block(self, stmts, paths: list[Path]) -> list[Path]:
        for st in stmts:
            nxt: list[Path] = []
            for p in paths:
                if p.status != "normal":
                    nxt.append(p)
                else:
                    nxt.extend(self.exec_stmt(st, p))
            paths = nxt
            if len(paths) > self.max_paths:
                raise AnalysisError(f"path budget exceeded ({len(paths)}) at line {getattr(st, 'lineno', 0)}")
        return paths

    def branch(self, test, p: Path) -> list:
        """Decide a branch condition with short-circuit semantics: `a and b`, `a or b`, `not a` fork on their
        atomic operands in evaluation order, so that every path knows each atomic condition it depends on."""
        if isinstance(test, ast.BoolOp):
            is_and = isinstance(test.op, ast.And)
            out, live = [], [p]
            for v in test.values:
                nxt = []
                for q in live:
                    for q2, t in self.branch(v, q):
                        if q2.status != "normal":
                            out.append((q2, False))
                        elif t == is_and:
                            nxt.append(q2)          # `and`: operand true / `or`: operand false → keep evaluating
                        else:
                            out.append((q2, t))     # short-circuit
                live = nxt
            out.extend((q, is_and) for q in live)
            return out
        if isinstance(test, ast.UnaryOp) and isinstance(test.op, ast.Not):
            return [(q, (not t) if q.status == "normal" else False) for q, t in self.branch(test.operand, p)]
        out = []
        for q, c in self.ev(test, p):
            if q.status != "normal":
                out.append((q, False))
                continue
            k = q.known(c)
            if k is None:
                q2 = q.copy()
                q.assume(c, True)
                q2.assume(c, False)
                out.append((q, True))
                out.append((q2, False))
            else:
                out.append((q, k))
        return out

    def _emit(self, p: Path, ev: Event) -> Event:
        ev.ctx = tuple(p.ctx)
        ev.ncond = len(p.cond_log)
        ev.conds = tuple(p.cond_log)
        ev.depth = len(p.frames) - 1
        p.events.append(ev)
        if self.on_event:
            self.on_event(p, ev)
        return ev

    def exec_stmt(self, st, p: Path) -> list[Path]:
        fn = p.frame.func
        if isinstance(st, ast.Expr):
            return [q for q, _ in self.ev(st.value, p)]
        if isinstance(st, ast.Assign):
            out = []
            for q, v in self.ev(st.value, p):
                if q.status == "normal":
                    for t in st.targets:
                        self.assign(t, v, q, st)
                out.append(q)
            return out
        if isinstance(st, ast.AnnAssign):
            if st.value is None:
                return [p]
            out = []
            for q, v in self.ev(st.value, p):
                if q.status == "normal":
                    c = self.annotation_class(st.annotation, q.frame.func.module)
                    if c is not None and self.type_of(v, q) is None:
                        v = ("typed", c.qualname, v)
                    self.assign(st.target, v, q, st)
                out.append(q)
            return out
        if isinstance(st, ast.AugAssign):
            out = []
            for q, v in self.ev(st.value, p):
                if q.status != "normal":
                    out.append(q)
                    continue
                op = type(st.op).__name__
                tgt = st.target
                if isinstance(tgt, ast.Name):
                    old = self.load_name(tgt.id, q, tgt)
                    self.store_name(tgt.id, _binop(op, old, v), q)
                    out.append(q)
                elif isinstance(tgt, ast.Attribute):
                    for q2, base in self.ev(tgt.value, q):
                        old = self.load_attr(base, tgt.attr, q2, tgt, allow_inline=False)
                        new = _binop(op, old, v)
                        q2.heap[(strip_typed(base), tgt.attr)] = new
                        self._emit(q2, Event("setattr", q2.frame.func, st, name=tgt.attr,
                                             target=(strip_typed(base), tgt.attr), value=new, aug=op))
                        out.append(q2)
                elif isinstance(tgt, ast.Subscript):
                    for q2, (base, idx) in self.ev_many([tgt.value, tgt.slice], q):
                        self._emit(q2, Event("setitem", q2.frame.func, st, target=(base, idx), value=v, aug=op))
                        out.append(q2)
                else:
                    out.append(q)
            return out
        if isinstance(st, ast.If):
            out = []
            for q, truth in self.branch(st.test, p):
                if q.status != "normal":
                    out.append(q)
                elif truth:
                    out.extend(self.exec_block(st.body, [q]))
                else:
                    out.extend(self.exec_block(st.orelse, [q]))
            return out
        if isinstance(st, (ast.For, ast.AsyncFor)):
            out = []
            loop_id = (fn.qualname, st.lineno)
            for q, it in self.ev(st.iter, p):
                if q.status != "normal":
                    out.append(q)
                    continue
                for n in self.loop_iters:
                    r = q.copy() if len(self.loop_iters) > 1 else q
                    if n == 0:
                        r.cond_log.append((("loop0", loop_id), True))
                        out.extend(self.exec_block(st.orelse, [r]))
                        continue
                    self.assign(st.target, ("elem", it, loop_id), r, st)
                    r.ctx.append(("loop", loop_id))
                    bodies = self.exec_block(st.body, [r])
                    for b in bodies:
                        if ("loop", loop_id) in b.ctx:
                            b.ctx.remove(("loop", loop_id))
                        if b.status in ("break", "continue"):
                            brk = b.status == "break"
                            b.status = "normal"
                            if brk:
                                out.append(b)
                                continue
                        if b.status == "normal":
                            out.extend(self.exec_block(st.orelse, [b]))
                        else:
                            out.append(b)
            return out
        if isinstance(st, ast.While):
            out = []
            loop_id = (fn.qualname, st.lineno)
            # while c: body  ≈  zero iterations (c false), or one symbolic iteration after which the loop is left with c
            # false (a `break` leaves without that knowledge).  The condition is recorded on the path both times.
            for q, t in self.branch(st.test, p):
                if q.status != "normal" or t is False:
                    out.append(q)
                    continue
                q.ctx.append(("loop", loop_id))
                bodies = self.exec_block(st.body, [q])
                for b in bodies:
                    if ("loop", loop_id) in b.ctx:
                        b.ctx.remove(("loop", loop_id))
                    broke = b.status == "break"
                    if b.status in ("break", "continue"):
                        b.status = "normal"
                    if b.status == "normal" and not broke:
                        for b2, c2 in self.ev(st.test, b):      # the test is evaluated again …
                            if b2.status == "normal":
                                term, truth = _strip_not(c2, False)
                                b2.conds.pop(term, None)
                                b2.assume(c2, False)             # … and the loop is left because it is false now
                            out.append(b2)
                    else:
                        out.append(b)
            return out
        if isinstance(st, (ast.With, ast.AsyncWith)):
            paths = [p]
            entered = []
            for item in st.items:
                nxt = []
                for q in paths:
                    for q2, v in self.ev(item.context_expr, q):
                        if q2.status == "normal":
                            self._emit(q2, Event("with_enter", q2.frame.func, st, value=v))
                            if item.optional_vars is not None:
                                self.assign(item.optional_vars, ("ctx", v), q2, st)
                            q2.ctx.append(("with", v))
                        nxt.append(q2)
                paths = nxt
            outs = self.exec_block(st.body, paths)
            for q in outs:
                for item in st.items:
                    for i in range(len(q.ctx) - 1, -1, -1):
                        if q.ctx[i][0] == "with":
                            v = q.ctx.pop(i)[1]
                            self._emit(q, Event("with_exit", q.frame.func, st, value=v))
                            break
            return outs
        if isinstance(st, ast.Return):
            if st.value is None:
                p.status, p.retval = "return", NONE
                self._emit(p, Event("return", fn, st, value=NONE))
                return [p]
            out = []
            for q, v in self.ev(st.value, p):
                if q.status == "normal":
                    q.status, q.retval = "return", v
                    self._emit(q, Event("return", q.frame.func, st, value=v))
                out.append(q)
            return out
        if isinstance(st, ast.Raise):
            out = []
            if st.exc is None:
                p.status = "raise"
                self._emit(p, Event("raise", fn, st))
                return [p]
            for q, v in self.ev(st.exc, p):
                if q.status == "normal":
                    q.status = "raise"
                    q.raised = v
                    self._emit(q, Event("raise", q.frame.func, st, value=v))
                out.append(q)
            return out
        if isinstance(st, ast.Assert):
            out = []
            for q, c in self.ev(st.test, p):
                if q.status != "normal":
                    out.append(q)
                    continue
                k = q.known(c)
                if k is False:
                    q.status = "raise"
                    self._emit(q, Event("raise", q.frame.func, st, value=("assertfail", c)))
                    out.append(q)
                    continue
                if self.fork_asserts and k is None:
                    q2 = q.copy()
                    q2.assume(c, False)
                    q2.status = "raise"
                    self._emit(q2, Event("raise", q2.frame.func, st, value=("assertfail", c)))
                    out.append(q2)
                q.assume(c, True)
                self._emit(q, Event("assert", q.frame.func, st, value=c))
                out.append(q)
            return out
        if isinstance(st, ast.Try):
            outs = self.exec_block(st.body, [p])
            res = []
            for q in outs:
                if q.status == "raise" and st.handlers:
                    q.status = "normal"
                    h = st.handlers[0]
                    if h.name:
                        q.frame.env[h.name] = ("exc", q.raised)
                    res.extend(self.exec_block(h.body, [q]))
                elif q.status == "normal" and st.orelse:
                    res.extend(self.exec_block(st.orelse, [q]))
                else:
                    res.append(q)
            if st.finalbody:
                fin = []
                for q in res:
                    saved = q.status
                    q.status = "normal"
                    for r in self.exec_block(st.finalbody, [q]):
                        if r.status == "normal":
                            r.status = saved
                        fin.append(r)
                res = fin
            return res
        if isinstance(st, (ast.FunctionDef, ast.AsyncFunctionDef)):
            q = f"{fn.qualname}.<locals>.{st.name}"
            p.frame.env[st.name] = ("localfunc", q, len(p.frames) - 1)
            return [p]
        if isinstance(st, ast.ClassDef):
            p.frame.env[st.name] = ("localclass", st.name)
            return [p]
        if isinstance(st, ast.Break):
            p.status = "break"
            return [p]
        if isinstance(st, ast.Continue):
            p.status = "continue"
            return [p]
        if isinstance(st, (ast.Import, ast.ImportFrom)):
            for a in st.names:
                nm = a.asname or a.name.split(".")[0]
                full = a.name if isinstance(st, ast.Import) else f"{st.module}.{a.name}"
                p.frame.env[nm] = self.ref_or_ext(self.prog.canon(full))
            return [p]
        if isinstance(st, ast.Delete):
            return [p]
        if isinstance(st, (ast.Pass, ast.Global, ast.Nonlocal)):
            return [p]
        if isinstance(st, ast.Match):
            return [p]
        raise AnalysisError(f"unsupported statement {type(st).__name__} at {fn.loc(st)}")

    # ---------------------------------------------------------------- stores
    def store_name(self, name: str, v, p: Path) -> None:
        p.frame.env[name] = v

    def assign(self, tgt, v, p: Path, st) -> None:
        if isinstance(tgt, ast.Name):
            self.store_name(tgt.id, v, p)
        elif isinstance(tgt, ast.Attribute):
            for q, base in self.ev(tgt.value, p):  # base evaluation never forks in practice
                base = strip_typed(base)
                q.heap[(base, tgt.attr)] = v
                self._emit(q, Event("setattr", q.frame.func, st, name=tgt.attr, target=(base, tgt.attr), value=v))
        elif isinstance(tgt, ast.Subscript):
            for q, (base, idx) in self.ev_many([tgt.value, tgt.slice], p):
                self._emit(q, Event("setitem", q.frame.func, st, target=(base, idx), value=v))
        elif isinstance(tgt, (ast.Tuple, ast.List)):
            n = len(tgt.elts)
            vs = strip_typed(v)
            for i, t in enumerate(tgt.elts):
                if isinstance(t, ast.Starred):
                    self.assign(t.value, ("unpack", v, i, "*"), p, st)
                elif vs[0] in ("tuple", "list") and len(vs[1]) == n:
                    self.assign(t, vs[1][i], p, st)
                else:
                    self.assign(t, ("unpack", v, i, n), p, st)
        elif isinstance(tgt, ast.Starred):
            self.assign(tgt.value, v, p, st)

    # ------------------------------------------------------------ expression
    def ev_many(self, exprs, p: Path) -> list:
        outs = [(p, [])]
        for e in exprs:
            nxt = []
            for q, vals in outs:
                if q.status != "normal":
                    nxt.append((q, vals + [("bottom",)]))
                    continue
                for q2, v in self.ev(e, q):
                    nxt.append((q2, vals + [v]))
            outs = nxt
        return [(q, tuple(vals)) for q, vals in outs]

    def ev(self, e, p: Path) -> list:
        if e is None:
            return [(p, NONE)]
        m = getattr(self, "ev_" + type(e).__name__, None)
        if m is None:
            raise AnalysisError(f"unsupported expression {type(e).__name__} at {p.frame.func.loc(e)}")
        return m(e, p)

    def ev_Constant(self, e, p):
        return [(p, ("const", e.value))]

    def ev_Name(self, e, p):
        return [(p, self.load_name(e.id, p, e))]

    def load_name(self, name: str, p: Path, node=None):
        fr = p.frame
        idx = len(p.frames) - 1
        while True:
            if name in fr.env:
                return fr.env[name]
            if fr.closure is not None and 0 <= fr.closure < idx:
                idx = fr.closure
                fr = p.frames[idx]
                continue
            break
        mod = p.frame.func.module
        return self.global_term(mod, name)

    def ref_or_ext(self, q: str):
        obj = self.prog.lookup(q)
        if obj is not None:
            return ("ref", obj.qualname if not isinstance(obj, Module) else obj.name)
        gv = self.prog.global_value(q)
        if gv is not None:
            lit = _literal(gv[1])
            if lit is not None:
                return lit
            return ("global", self.prog.canon(q))
        head, _, last = q.rpartition(".")
        if head in self.prog.classes:
            return ("ref", q)
        return ("ext", q)

    def global_term(self, mod: Module, dotted_name: str):
        q = self.prog.canon(self.prog.qualify(mod, dotted_name))
        return self.ref_or_ext(q)

    def ev_Attribute(self, e, p):
        d = dotted(e)
        if d is not None:
            head = d.split(".")[0]
            if not self.is_local(head, p):
                t = self.global_term(p.frame.func.module, d)
                if t[0] != "ext" or head in p.frame.func.module.imports:
                    if t[0] == "ext":
                        # attribute of an external module or of a repo global value
                        return [(p, t)]
                    return [(p, t)]
        out = []
        for q, base in self.ev(e.value, p):
            if q.status != "normal":
                out.append((q, ("bottom",)))
                continue
            out.extend(self.load_attr_forking(base, e.attr, q, e))
        return out

    def is_local(self, name: str, p: Path) -> bool:
        fr = p.frame
        idx = len(p.frames) - 1
        while True:
            if name in fr.env:
                return True
            if fr.closure is not None and 0 <= fr.closure < idx:
                idx = fr.closure
                fr = p.frames[idx]
                continue
            return False

    def load_attr(self, base, attr: str, p: Path, node, allow_inline=True):
        r = self.load_attr_forking(base, attr, p, node, allow_inline=False)
        return r[0][1]

    def load_attr_forking(self, base, attr: str, p: Path, node, allow_inline=True) -> list:
        b = strip_typed(base)
        if (b, attr) in p.heap:
            return [(p, p.heap[(b, attr)])]
        if b[0] == "new":
            ci = self.prog.classes.get(b[1])
            if ci is not None:
                for k, v in b[4]:
                    if k == attr:
                        return [(p, v)]
        if b[0] == "ref":
            q = f"{b[1]}.{attr}"
            return [(p, self.ref_or_ext(self.prog.canon(q)))]
        if b[0] == "ext":
            return [(p, ("ext", f"{b[1]}.{attr}"))]
        ci = self.type_of(base, p)
        if ci is not None:
            m = self.prog.find_method(ci, attr)
            if m is not None and m.is_property:
                if allow_inline and not self.noinline and len(p.frames) <= self.max_depth \
                        and self.inline_policy(m, b, len(p.frames)):
                    return self.call_inline(m, {m.params[0]: base}, p, base, ci, node)
                return [(p, ("attr", b, attr))]
            if m is not None:
                return [(p, ("bound", b, m.qualname))]
        return [(p, ("attr", b, attr))]

    def ev_Subscript(self, e, p):
        return [(q, _subscript(b, i)) for q, (b, i) in self.ev_many([e.value, e.slice], p)]

    def ev_Slice(self, e, p):
        return [(q, ("slice",) + v) for q, v in self.ev_many([e.lower, e.upper, e.step], p)]

    def ev_Tuple(self, e, p):
        return [(q, ("tuple", v)) for q, v in self.ev_many(e.elts, p)]

    def ev_List(self, e, p):
        return [(q, ("list", v)) for q, v in self.ev_many(e.elts, p)]

    def ev_Set(self, e, p):
        return [(q, ("set", v)) for q, v in self.ev_many(e.elts, p)]

    def ev_Dict(self, e, p):
        n = len(e.keys)
        out = []
        for q, v in self.ev_many(list(e.keys) + list(e.values), p):
            out.append((q, ("dict", tuple(zip(v[:n], v[n:])))))
        return out

    def ev_Starred(self, e, p):
        return [(q, ("star", v)) for q, v in self.ev(e.value, p)]

    def ev_BinOp(self, e, p):
        op = type(e.op).__name__
        return [(q, _binop(op, a, b)) for q, (a, b) in self.ev_many([e.left, e.right], p)]

    def ev_UnaryOp(self, e, p):
        op = {"Not": "not", "USub": "neg", "UAdd": "pos", "Invert": "inv"}[type(e.op).__name__]
        out = []
        for q, v in self.ev(e.operand, p):
            if op == "neg" and v[0] == "const" and isinstance(v[1], (int, float, complex)) and not isinstance(v[1], bool):
                out.append((q, ("const", -v[1])))
            elif op == "pos":
                out.append((q, v))
            else:
                out.append((q, ("un", op, v)))
        return out

    def ev_BoolOp(self, e, p):
        op = "and" if isinstance(e.op, ast.And) else "or"
        return [(q, ("bool", op, v)) for q, v in self.ev_many(e.values, p)]

    def ev_Compare(self, e, p):
        names = {"Eq": "==", "NotEq": "!=", "Lt": "<", "LtE": "<=", "Gt": ">", "GtE": ">=",
                 "Is": "is", "IsNot": "isnot", "In": "in", "NotIn": "notin"}
        out = []
        for q, v in self.ev_many([e.left] + list(e.comparators), p):
            parts = []
            for i, op in enumerate(e.ops):
                parts.append(_canon_cmp(names[type(op).__name__], v[i], v[i + 1]))
            out.append((q, parts[0] if len(parts) == 1 else ("bool", "and", tuple(parts))))
        return out

    def ev_IfExp(self, e, p):
        if not self.noinline and self.fork_ifexp:
            return self.ev_IfExp_fork(e, p)
        out = []
        for q, c in self.ev(e.test, p):
            if q.status != "normal":
                out.append((q, ("bottom",)))
                continue
            k = q.known(c)
            if k is True:
                out.extend(self.ev(e.body, q))
            elif k is False:
                out.extend(self.ev(e.orelse, q))
            else:
                for q2, (a, b) in self.ev_many([e.body, e.orelse], q):
                    out.append((q2, ("ifexp", c, a, b)))
        return out

    def ev_IfExp_fork(self, e, p):
        """`a if c else b` in statement context is the same thing as `if c: … else: …`: fork on the (atomic) conditions."""
        out = []
        for q, t in self.branch(e.test, p):
            if q.status != "normal":
                out.append((q, ("bottom",)))
            else:
                out.extend(self.ev(e.body if t else e.orelse, q))
        return out

    def ev_JoinedStr(self, e, p):
        exprs = [v.value for v in e.values if isinstance(v, ast.FormattedValue)]
        return [(q, ("fstr", v)) for q, v in self.ev_many(exprs, p)]

    def ev_FormattedValue(self, e, p):
        return self.ev(e.value, p)

    def ev_Lambda(self, e, p):
        return [(p, ("lambda", p.frame.func.qualname, e.lineno, e.col_offset))]

    def ev_NamedExpr(self, e, p):
        out = []
        for q, v in self.ev(e.value, p):
            self.assign(e.target, v, q, e)
            out.append((q, v))
        return out

    def ev_Await(self, e, p):
        return self.ev(e.value, p)

    def ev_Yield(self, e, p):
        out = []
        for q, v in self.ev(e.value, p):
            if q.status == "normal":
                self._emit(q, Event("yield", q.frame.func, e, value=v))
            out.append((q, NONE))
        return out

    def ev_YieldFrom(self, e, p):
        return self.ev_Yield(e, p)

    def _comp(self, kind, e, elts, p):
        self.noinline += 1
        try:
            saved = dict(p.frame.env)
            gens = []
            comp_id = (p.frame.func.qualname, e.lineno, e.col_offset)
            p.ctx.append(("comp", comp_id))
            for g in e.generators:
                (q, it), = self.ev(g.iter, p)[:1] or [(p, ("bottom",))]
                self.assign(g.target, ("elem", it, comp_id), p, e)
                conds = []
                for c in g.ifs:
                    conds.append(self.ev(c, p)[0][1])
                gens.append((it, tuple(conds)))
            vals = tuple(self.ev(x, p)[0][1] for x in elts)
            p.ctx.remove(("comp", comp_id))
            p.frame.env.clear()
            p.frame.env.update(saved)
            return [(p, ("comp", kind, vals, tuple(gens), comp_id))]
        finally:
            self.noinline -= 1

    def ev_ListComp(self, e, p):
        return self._comp("list", e, [e.elt], p)

    def ev_SetComp(self, e, p):
        return self._comp("set", e, [e.elt], p)

    def ev_GeneratorExp(self, e, p):
        return self._comp("gen", e, [e.elt], p)

    def ev_DictComp(self, e, p):
        return self._comp("dict", e, [e.key, e.value], p)

    # ------------------------------------------------------------------ call
    def ev_Call(self, e, p):
        self.ncalls += 1
        f = e.func
        fn = p.frame.func
        # list.append on a local list literal: keep the list's contents in the term
        if isinstance(f, ast.Attribute) and f.attr == "append" and isinstance(f.value, ast.Name) \
                and len(e.args) == 1 and not e.keywords and f.value.id in p.frame.env \
                and p.frame.env[f.value.id][0] == "list":
            out = []
            for q, v in self.ev(e.args[0], p):
                if q.status == "normal":
                    cur = q.frame.env[f.value.id]
                    q.frame.env[f.value.id] = ("list", cur[1] + (v,))
                    self.nresolved += 1
                    self._emit(q, Event("call", q.frame.func, e, name=".append", recv=cur, pos=(v,),
                                        result=NONE))
                out.append((q, NONE))
            return out
        # evaluate arguments first (left-to-right after the callee expression; the
        # callee expressions in this code base have no side effects)
        argexprs = [a for a in e.args] + [k.value for k in e.keywords]
        results = []
        for q, vals in self.ev_many(argexprs, p):
            if q.status != "normal":
                results.append((q, ("bottom",)))
                continue
            pos = tuple(vals[: len(e.args)])
            kw = tuple((k.arg, v) for k, v in zip(e.keywords, vals[len(e.args):]))
            for q2, tgt in self.resolve_callee(f, q):
                results.extend(self.apply(tgt, pos, kw, q2, e))
        return results

    def resolve_callee(self, f, p: Path) -> list:
        """-> [(path, (kind, obj, recv, name))]"""
        prog = self.prog
        mod = p.frame.func.module
        if isinstance(f, ast.Name):
            if self.is_local(f.id, p):
                v = self.load_name(f.id, p)
                return [(p, self.callee_from_value(v, f.id, p))]
            t = self.global_term(mod, f.id)
            return [(p, self.callee_from_value(t, f.id, p))]
        if isinstance(f, ast.Attribute):
            # super().m(...)
            if isinstance(f.value, ast.Call) and isinstance(f.value.func, ast.Name) and f.value.func.id == "super":
                fr = p.frame
                owner = fr.func.cls
                selfcls = fr.selfcls or owner
                m = prog.find_method(selfcls, f.attr, after=owner) if (owner and selfcls) else None
                if m is not None:
                    return [(p, ("func", m, fr.selfterm, m.qualname))]
                ext = prog.external_bases(selfcls) if selfcls else []
                return [(p, ("external", None, fr.selfterm, f"super({'|'.join(ext)}).{f.attr}"))]
            d = dotted(f)
            if d is not None and not self.is_local(d.split(".")[0], p):
                t = self.global_term(mod, d)
                return [(p, self.callee_from_value(t, d, p))]
            out = []
            for q, base in self.ev(f.value, p):
                if q.status != "normal":
                    out.append((q, ("external", None, None, "<bottom>")))
                    continue
                for q2, v in self.load_attr_forking(base, f.attr, q, f, allow_inline=False):
                    if v[0] == "attr" and v[1] == strip_typed(base):
                        out.append((q2, ("method", None, strip_typed(base), f.attr)))
                    else:
                        out.append((q2, self.callee_from_value(v, f.attr, q2)))
            return out
        out = []
        for q, v in self.ev(f, p):
            out.append((q, self.callee_from_value(v, "<expr>", q)))
        return out

    def callee_from_value(self, v, text: str, p: Path):
        prog = self.prog
        v0 = strip_typed(v)
        if v0[0] == "ref":
            obj = prog.lookup(v0[1])
            if isinstance(obj, FuncInfo):
                recv = None
                if obj.is_classmethod and obj.cls is not None:
                    recv = ("ref", v0[1].rpartition(".")[0])
                return ("func", obj, recv, obj.qualname)
            if isinstance(obj, ClassInfo):
                return ("class", obj, None, obj.qualname)
            return ("external", None, None, v0[1])
        if v0[0] == "bound":
            m = prog.funcs.get(v0[2])
            return ("func", m, v0[1], v0[2])
        if v0[0] == "ext":
            return ("external", None, None, v0[1])
        if v0[0] == "localfunc":
            fi = prog.funcs.get(v0[1])
            if fi is not None:
                return ("localfunc", fi, v0[2], v0[1])
        if v0[0] == "attr":
            return ("method", None, v0[1], v0[2])
        return ("value", None, v0, text)

    def bind(self, callee: FuncInfo, pos, kw, recv, node, p: Path, skip_first: bool) -> dict:
        a = callee.node.args
        params = [x.arg for x in a.posonlyargs + a.args]
        kwonly = [x.arg for x in a.kwonlyargs]
        bound: dict = {}
        plist = params[1:] if skip_first else params
        if skip_first and params:
            bound[params[0]] = recv
        extra = []
        flatpos = []
        for v in pos:
            flatpos.append(v)
        for i, v in enumerate(flatpos):
            if v[0] == "star":
                bound["*"] = v
                continue
            if i < len(plist):
                bound[plist[i]] = v
            else:
                extra.append(v)
        if extra:
            if a.vararg:
                bound[a.vararg.arg] = ("tuple", tuple(extra))
            else:
                bound["#extra"] = ("tuple", tuple(extra))
        kwextra = []
        for k, v in kw:
            if k is None:
                bound["**"] = v
            elif k in plist or k in kwonly:
                bound[k] = v
            else:
                kwextra.append((k, v))
        if kwextra:
            if a.kwarg:
                bound[a.kwarg.arg] = ("dict", tuple((("const", k), v) for k, v in kwextra))
            else:
                bound["#kwextra"] = ("dict", tuple((("const", k), v) for k, v in kwextra))
        # defaults
        defaults = a.defaults
        for name, dflt in zip(reversed(params), reversed(defaults)):
            if name not in bound:
                bound[name] = self.default_term(dflt, callee)
        for name, dflt in zip(kwonly, a.kw_defaults):
            if name not in bound and dflt is not None:
                bound[name] = self.default_term(dflt, callee)
        return bound

    def default_term(self, node, callee: FuncInfo):
        lit = _literal(node)
        if lit is not None:
            return ("default", lit)
        d = dotted(node)
        if d is not None:
            return ("default", self.global_term(callee.module, d))
        return ("default", ("expr", ast.unparse(node)))

    def apply(self, tgt, pos, kw, p: Path, node) -> list:
        kind, obj, recv, name = tgt
        fn = p.frame.func
        if kind in ("func", "localfunc") and obj is not None:
            callee: FuncInfo = obj
            self.nresolved += 1
            closure = None
            if kind == "localfunc":
                closure, recv = recv, None
            is_method = callee.cls is not None and not callee.is_static
            skip_first = is_method and (recv is not None)
            bound = self.bind(callee, pos, kw, recv, node, p, skip_first)
            pos, kw = _positional_prefix(callee, pos, kw, skip_first)
            recv_s = strip_typed(recv) if recv is not None else None
            do_inline = (not self.noinline and len(p.frames) <= self.max_depth
                         and not _is_generator(callee)
                         and self.inline_policy(callee, recv_s, len(p.frames)))
            ev = self._emit(p, Event("call", fn, node, name=callee.qualname, callee=callee, recv=recv,
                                     pos=pos, kw=kw, args=bound, inlined=do_inline))
            if do_inline:
                selfcls = None
                if is_method:
                    if recv_s == SELF and self.cls is not None:
                        selfcls = self.type_of(SELF, p) or self.cls
                    else:
                        selfcls = self.type_of(recv, p) or callee.cls
                env = {k: _undefault(v) for k, v in bound.items() if not k.startswith(("#", "*"))}
                return self.call_inline(callee, env, p, recv if is_method else None, selfcls, node,
                                        closure=closure)
            r = ("call", callee.qualname, pos, kw)
            if recv is not None and is_method:
                r = ("mcall", recv_s, callee.qualname, pos, kw)
            ev.result = r
            return [(p, r)]
        if kind == "class":
            ci: ClassInfo = obj
            self.nresolved += 1
            init = self.prog.find_method(ci, "__init__")
            bound = {}
            if init is not None:
                bound = self.bind(init, pos, kw, ("newself",), node, p, True)
                bound.pop(init.params[0], None)
                pos, kw = _positional_prefix(init, pos, kw, True)
            elif "dataclass" in ci.decorators:
                fields = [n for n, (ann, _) in ci.attrs.items() if ann is not None]
                for i, v in enumerate(pos):
                    if i < len(fields):
                        bound[fields[i]] = v
                    else:
                        bound[f"#extra{i}"] = v
                for k, v in kw:
                    bound[k] = v
            r = ("new", ci.qualname, pos, kw, tuple(bound.items()))
            self._emit(p, Event("call", fn, node, name=ci.qualname, callee=ci, pos=pos, kw=kw, args=bound, result=r))
            return [(p, r)]
        if kind == "external":
            if name in ("isinstance", "len", "print", "super", "range", "enumerate", "zip", "sum", "min", "max",
                        "sorted", "set", "list", "tuple", "dict", "float", "int", "str", "abs", "all", "any",
                        "type", "map", "bool", "complex", "iter", "next", "repr", "reversed", "open", "getattr",
                        "setattr", "hasattr"):
                self.nresolved += 1
            elif "." in name or name:
                self.nresolved += 1
            r = ("call", name, pos, kw)
            if name in ALLOCATORS:
                # fresh object per call site: keep allocation sites apart (two torch.zeros(shape) are two arrays)
                r = ("call", name, pos, kw, ("site", fn.qualname, node.lineno, node.col_offset))
            self._emit(p, Event("call", fn, node, name=name, pos=pos, kw=kw, result=r))
            return [(p, r)]
        if kind == "method":
            # method on an object whose class is unknown or external
            ci = self.type_of(recv, p) if recv is not None else None
            if ci is not None:
                m = self.prog.find_method(ci, name)
                if m is not None:
                    return self.apply(("func", m, recv, m.qualname), pos, kw, p, node)
            r = ("mcall", recv, name, pos, kw)
            if ci is None and recv is not None and recv[0] not in ("ext", "call", "mcall", "const", "sub", "bin", "elem",
                                                                    "param", "attr", "unpack", "ctx", "list", "comp",
                                                                    "dict", "tuple", "fstr", "set", "ifexp", "global",
                                                                    "un", "new", "exc"):
                self.unresolved.append((fn.loc(node), name))
            else:
                self.nresolved += 1
            self._emit(p, Event("call", fn, node, name="." + name, recv=recv, pos=pos, kw=kw, result=r))
            return [(p, r)]
        # calling a value (callable parameter, field holding a callable, ...)
        r = ("vcall", recv, pos, kw)
        self.nresolved += 1
        self._emit(p, Event("call", fn, node, name="<value>", recv=recv, pos=pos, kw=kw, result=r))
        return [(p, r)]

    def call_inline(self, callee: FuncInfo, env: dict, p: Path, selfterm, selfcls, node, closure=None) -> list:
        fr = Frame(callee, dict(env), selfterm, selfcls, closure)
        a = callee.node.args
        if a.vararg and a.vararg.arg not in fr.env:
            fr.env[a.vararg.arg] = ("tuple", ())
        if a.kwarg and a.kwarg.arg not in fr.env:
            fr.env[a.kwarg.arg] = ("dict", ())
        p.frames.append(fr)
        outs = self.exec_block(callee.node.body, [p])
        res = []
        for q in outs:
            q.frames.pop()
            if q.status == "raise":
                res.append((q, ("bottom",)))
            else:
                v = q.retval if q.status == "return" else NONE
                q.status = "normal"
                q.retval = None
                res.append((q, v if v is not None else NONE))
        return res

    # ----------------------------------------------------------------- types
    def annotation_class(self, ann, mod: Module) -> ClassInfo | None:
        if ann is None:
            return None
        if isinstance(ann, ast.Constant) and isinstance(ann.value, str):
            try:
                ann = ast.parse(ann.value, mode="eval").body
            except SyntaxError:
                return None
        if isinstance(ann, ast.Subscript):
            base = dotted(ann.value) or ""
            if base.split(".")[-1] in ("Optional", "type", "Type"):
                return self.annotation_class(ann.slice, mod)
            return self.annotation_class(ann.value, mod)
        if isinstance(ann, ast.BinOp) and isinstance(ann.op, ast.BitOr):
            found = [self.annotation_class(x, mod) for x in (ann.left, ann.right)]
            found = [x for x in found if x is not None]
            return found[0] if len(found) == 1 else None
        d = dotted(ann)
        if d is None:
            return None
        q = self.prog.canon(self.prog.qualify(mod, d))
        return self.prog.classes.get(q)

    def type_of(self, term, p: Path | None = None) -> ClassInfo | None:
        prog = self.prog
        if term is None:
            return None
        if term[0] == "typed":
            return prog.classes.get(term[1])
        if term == SELF:
            if p is not None and p.frames:
                for fr in reversed(p.frames):
                    if fr.selfterm == SELF and fr.selfcls is not None:
                        return fr.selfcls
            return self.cls
        if term[0] == "new":
            return prog.classes.get(term[1])
        if term[0] in ("call", "mcall"):
            q = term[1] if term[0] == "call" else term[2]
            fi = prog.funcs.get(q)
            if fi is not None and fi.node.returns is not None:
                return self.annotation_class(fi.node.returns, fi.module)
            return None
        if term[0] == "param":
            fi = prog.funcs.get(term[1])
            if fi is not None:
                a = fi.node.args
                for x in a.posonlyargs + a.args + a.kwonlyargs:
                    if x.arg == term[2]:
                        return self.annotation_class(x.annotation, fi.module)
            return None
        if term[0] == "attr":
            owner = self.type_of(term[1], p)
            if owner is not None:
                found = prog.find_class_attr(owner, term[2])
                if found is not None:
                    c, (ann, _val) = found
                    t = self.annotation_class(ann, c.module)
                    if t is not None:
                        return t
                return self.field_type(owner, term[2])
            return None
        if term[0] == "ctx":
            return None
        return None

    _field_type_cache: dict = {}

    def field_type(self, owner: ClassInfo, attr: str) -> ClassInfo | None:
        """Class of ``self.attr`` from ``self.attr = Class(...)`` / annotated stores in owner's methods."""
        key = (id(self.prog), owner.qualname, attr)
        if key in Interp._field_type_cache:
            return Interp._field_type_cache[key]
        found: set = set()
        for m in self.prog.functions_in(owner):
            if m.is_static:
                continue
            selfname = m.params[0] if m.params else "self"
            annos = {x.arg: x.annotation for x in m.node.args.posonlyargs + m.node.args.args + m.node.args.kwonlyargs}
            for n in ast.walk(m.node):
                tgt, val, ann = None, None, None
                if isinstance(n, ast.Assign) and len(n.targets) == 1:
                    tgt, val = n.targets[0], n.value
                elif isinstance(n, ast.AnnAssign):
                    tgt, val, ann = n.target, n.value, n.annotation
                if not (isinstance(tgt, ast.Attribute) and isinstance(tgt.value, ast.Name)
                        and tgt.value.id == selfname and tgt.attr == attr):
                    continue
                c = self.annotation_class(ann, m.module) if ann is not None else None
                if c is None and isinstance(val, ast.Call):
                    d = dotted(val.func)
                    if d:
                        obj = self.prog.lookup(self.prog.qualify(m.module, d))
                        if isinstance(obj, ClassInfo):
                            c = obj
                        elif isinstance(obj, FuncInfo) and obj.node.returns is not None:
                            c = self.annotation_class(obj.node.returns, obj.module)
                if c is None and isinstance(val, ast.Name) and val.id in annos:
                    c = self.annotation_class(annos[val.id], m.module)
                if c is not None:
                    found.add(c)
        res = None
        if len(found) == 1:
            res = next(iter(found))
        elif len(found) > 1:
            # pick the common base if one of them is a base of all others
            for c in found:
                if all(self.prog.is_subclass(o, c) for o in found):
                    res = c
        Interp._field_type_cache[key] = res
        return res


ALLOCATORS = {"torch.zeros", "torch.ones", "torch.empty", "torch.full", "torch.zeros_like", "torch.ones_like",
              "torch.empty_like", "torch.full_like", "numpy.zeros", "numpy.empty", "numpy.ones"}


# ------------------------------------------------------------------- helpers
def strip_typed(t):
    while isinstance(t, tuple) and t and t[0] == "typed":
        t = t[2]
    return t


def _undefault(t):
    return t[1] if isinstance(t, tuple) and t and t[0] == "default" else t


_FLIP = {"<": ">", ">": "<", "<=": ">=", ">=": "<=", "==": "==", "!=": "!=", "is": "is", "isnot": "isnot"}


def _canon_cmp(op: str, a, b):
    """One spelling per comparison: a constant operand goes to the right (`0 < x` is `x > 0`); when neither or both
    are constants the operands of a symmetric or reversible operator are put in a fixed order."""
    if op in _FLIP:
        ca, cb = strip_typed(a)[0] == "const", strip_typed(b)[0] == "const"
        if (ca and not cb) or (ca == cb and repr(strip_typed(a)) > repr(strip_typed(b))):
            return ("cmp", _FLIP[op], b, a)
    return ("cmp", op, a, b)


def _positional_prefix(callee: FuncInfo, pos: tuple, kw: tuple, skip_first: bool):
    """Canonical argument form for a resolved callee: keywords that continue the positional prefix become positional
    (`f(a, y=b)` and `f(a, b)` give the same term); the rest stay keywords in the order written."""
    a = callee.node.args
    if a.vararg is not None or any(not isinstance(k, str) for k, _ in kw):
        return pos, kw
    names = [x.arg for x in a.posonlyargs + a.args]
    if skip_first and names:
        names = names[1:]
    if len(pos) > len(names):
        return pos, kw
    kwd = dict(kw)
    newpos = list(pos)
    i = len(pos)
    while i < len(names) and names[i] in kwd:
        newpos.append(kwd.pop(names[i]))
        i += 1
    return tuple(newpos), tuple((k, v) for k, v in kw if k in kwd)


def _is_generator(fi: FuncInfo) -> bool:
    for n in ast.walk(fi.node):
        if isinstance(n, (ast.Yield, ast.YieldFrom)):
            return True
    return False


def _literal(node):
    try:
        v = ast.literal_eval(node)
    except Exception:
        return None
    if isinstance(v, (int, float, complex, str, bool, type(None))):
        return ("const", v)
    return None


def _num(t):
    if t[0] == "const" and isinstance(t[1], (int, float)) and not isinstance(t[1], bool):
        return t[1]
    return None


def _binop(op: str, a, b):
    x, y = _num(a), _num(b)
    if x is not None and y is not None:
        try:
            if op == "Add":
                return ("const", x + y)
            if op == "Sub":
                return ("const", x - y)
            if op == "Mult":
                return ("const", x * y)
            if op == "Div" and y != 0:
                return ("const", x / y)
            if op == "Pow":
                return ("const", x ** y)
            if op == "FloorDiv" and y != 0:
                return ("const", x // y)
        except Exception:
            pass
    return ("bin", op, a, b)


def _subscript(b, i):
    bs = strip_typed(b)
    if bs[0] in ("tuple", "list") and i[0] == "const" and isinstance(i[1], int):
        try:
            return bs[1][i[1]]
        except IndexError:
            pass
    if bs[0] == "dict" and i[0] == "const":
        for k, v in bs[1]:
            if k == i:
                return v
    return ("sub", b, i)


# ------------------------------------------------------------ term utilities
def walk(term):
    """Yield every sub-term (pre-order)."""
    stack = [term]
    while stack:
        t = stack.pop()
        if isinstance(t, tuple):
            if t and isinstance(t[0], str):
                yield t
            for x in t:
                if isinstance(x, tuple):
                    stack.append(x)


def contains(term, pred) -> bool:
    return any(pred(t) for t in walk(term))


def decided(path, term, upto: int | None = None):
    """Truth value with which `term` was last decided as a branch condition on this path (None if it never was)."""
    want = strip_typed(term)
    out = None
    for c, t in (path.cond_log if upto is None else path.cond_log[:upto]):
        if strip_typed(c) == want:
            out = t
    return out


def cmp_with_left(c, left_pred):
    """(op, left, right) of a comparison term, oriented so that `left_pred(left)` holds (the operator is mirrored when
    the operands are exchanged); None when the term is not a comparison or neither orientation fits."""
    c = strip_typed(c)
    if not (isinstance(c, tuple) and c and c[0] == "cmp"):
        return None
    op, a, b = c[1], strip_typed(c[2]), strip_typed(c[3])
    if left_pred(a):
        return op, a, b
    if op in _FLIP and left_pred(b):
        return _FLIP[op], b, a
    return None


def subst(term, f):
    """Bottom-up rewrite: f(t) returns a replacement or None."""
    if not isinstance(term, tuple):
        return term
    new = tuple(subst(x, f) if isinstance(x, tuple) else x for x in term)
    r = f(new)
    return new if r is None else r


_OPS = {"Add": "+", "Sub": "-", "Mult": "*", "Div": "/", "Pow": "**", "MatMult": "@", "FloorDiv": "//",
        "Mod": "%", "BitAnd": "&", "BitOr": "|", "BitXor": "^", "LShift": "<<", "RShift": ">>"}


def show(t, depth: int = 0) -> str:
    if not isinstance(t, tuple) or not t:
        return repr(t)
    if depth > 12:
        return "…"
    k = t[0]
    if not isinstance(k, str):
        return "(" + ", ".join(show(x, depth + 1) if isinstance(x, tuple) else repr(x) for x in t) + ")"
    if k == "poly":
        parts = []
        for atoms, c in t[1]:
            a = "·".join(show(x, depth + 1) for x in atoms)
            parts.append(f"{c}·{a}" if a else f"{c}")
        return "(" + " + ".join(parts) + ")"
    if k == "inv":
        return f"1/{show(t[1], depth + 1)}"
    s = lambda x: show(x, depth + 1)  # noqa: E731
    if k == "const":
        return repr(t[1])
    if k == "self":
        return "self"
    if k == "param":
        return f"{t[2]}"
    if k == "attr":
        return f"{s(t[1])}.{t[2]}"
    if k == "ref" or k == "ext" or k == "global":
        return t[1].split(".")[-1] if k == "ref" else t[1]
    if k == "sub":
        return f"{s(t[1])}[{s(t[2])}]"
    if k == "slice":
        return ":".join("" if x == NONE else s(x) for x in t[1:3]) + ("" if t[3] == NONE else ":" + s(t[3]))
    if k in ("tuple", "list", "set"):
        o, c = {"tuple": "()", "list": "[]", "set": "{}"}[k]
        return o + ", ".join(s(x) for x in t[1]) + c
    if k == "bin":
        return f"({s(t[2])} {_OPS.get(t[1], t[1])} {s(t[3])})"
    if k == "un":
        return f"{t[1]} {s(t[2])}"
    if k == "cmp":
        return f"({s(t[2])} {t[1]} {s(t[3])})"
    if k == "bool":
        return "(" + f" {t[1]} ".join(s(x) for x in t[2]) + ")"
    if k == "call":
        args = [s(x) for x in t[2]] + [f"{n}={s(v)}" for n, v in t[3]]
        return f"{t[1].split('.')[-1]}({', '.join(args)})"
    if k == "mcall":
        args = [s(x) for x in t[3]] + [f"{n}={s(v)}" for n, v in t[4]]
        return f"{s(t[1])}.{t[2].split('.')[-1]}({', '.join(args)})"
    if k == "vcall":
        args = [s(x) for x in t[2]] + [f"{n}={s(v)}" for n, v in t[3]]
        return f"{s(t[1])}({', '.join(args)})"
    if k == "new":
        args = [s(x) for x in t[2]] + [f"{n}={s(v)}" for n, v in t[3]]
        return f"{t[1].split('.')[-1]}({', '.join(args)})"
    if k == "elem":
        return f"elem({s(t[1])})"
    if k == "ifexp":
        return f"({s(t[2])} if {s(t[1])} else {s(t[3])})"
    if k == "typed":
        return s(t[2])
    if k == "default":
        return f"default:{s(t[1])}"
    if k == "unpack":
        return f"{s(t[1])}#{t[2]}"
    if k == "comp":
        return f"<{t[1]}comp {', '.join(s(x) for x in t[2])} for elem in {', '.join(s(g[0]) for g in t[3])}>"
    if k == "bound":
        return f"{s(t[1])}.{t[2].split('.')[-1]}"
    if k == "ctx":
        return f"ctx({s(t[1])})"
    if k == "fstr":
        return "f'…'"
    if k == "star":
        return "*" + s(t[1])
    if k == "dict":
        return "{" + ", ".join(f"{s(a)}: {s(b)}" for a, b in t[1]) + "}"
    return k + "(" + ", ".join(s(x) if isinstance(x, tuple) else repr(x) for x in t[1:]) + ")"


# ------------------------------------------------------- class field summary
def field_defs(prog: Program, cls: ClassInfo, inline=None) -> dict:
    """Flow-insensitive summary: attr -> [(value term, Event)] over every method visible on `cls`.

    Each method is analysed from an unknown pre-state; self-calls are not
    inlined (each method contributes its own stores exactly once).
    """
    out: dict = {}
    methods = [m for c in prog.mro(cls) for m in c.methods.values()]  # shadowed ones too (super() calls)
    for m in methods:
        if m.is_static or m.is_classmethod:
            continue
        it = Interp(prog, cls, inline=inline or (lambda c, r, d: False))
        try:
            paths = it.run(m)
        except AnalysisError:
            raise
        seen = {}
        for p in paths:
            for e in p.events:
                if e.kind == "setattr" and e.target[0] == SELF and e.func == m:
                    key = (e.name, id(e.node), e.value)
                    if key in seen:
                        # same store, same value, reached under other path conditions: remember them on the kept event
                        if e.conds not in seen[key].alt_conds:
                            seen[key].alt_conds.append(e.conds)
                        continue
                    seen[key] = e
                    e.alt_conds = [e.conds]
                    out.setdefault(e.name, []).append((e.value, e))
    for c in prog.mro(cls):
        for name, (ann, val) in c.attrs.items():
            if val is not None:
                lit = _literal(val)
                out.setdefault(name, []).append((("classdefault", lit if lit is not None else ("expr", ast.unparse(val))), None))
    return out
