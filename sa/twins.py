"""Whole-repository behaviour-preserving twins (used by tools/twin_global.py and by the thorough tier): every check must give the same verdicts (and the same obligation keys).
  unparse : every module replaced by ast.unparse(ast.parse(src)) (reformatted, comments dropped, lines moved)
  pad     : 7 blank/comment lines inserted at the top of every module (all line numbers shift)
"""
import ast
import os
from collections import Counter

from .model import AnalysisError, PACKAGES, repo_root

class _Renamer(ast.NodeTransformer):
    """Rename every local variable of every top-level function/method (nested defs included) by appending `_v`."""
    def __init__(self):
        self.map = None

    def _unit(self, node):
        params = set()
        stores = set()
        glob = set()
        for n in ast.walk(node):
            if isinstance(n, (ast.FunctionDef, ast.AsyncFunctionDef, ast.Lambda)):
                a = n.args
                for x in a.posonlyargs + a.args + a.kwonlyargs:
                    params.add(x.arg)
                if a.vararg:
                    params.add(a.vararg.arg)
                if a.kwarg:
                    params.add(a.kwarg.arg)
                if not isinstance(n, ast.Lambda) and n is not node:
                    stores.add(n.name)
            elif isinstance(n, ast.Name) and isinstance(n.ctx, (ast.Store, ast.Del)):
                stores.add(n.id)
            elif isinstance(n, (ast.Global, ast.Nonlocal)):
                glob |= set(n.names)
            elif isinstance(n, ast.ExceptHandler) and n.name:
                stores.add(n.name)
            elif isinstance(n, (ast.Import, ast.ImportFrom)):
                for al in n.names:
                    glob.add((al.asname or al.name).split(".")[0])
        return {x: x + "_v" for x in stores - params - glob}

    def visit_FunctionDef(self, node):
        if self.map is None:
            self.map = self._unit(node)
            for i, st in enumerate(node.body):
                node.body[i] = self.visit(st)
            self.map = None
            return node
        if node.name in self.map:
            node.name = self.map[node.name]
        self.generic_visit(node)
        return node

    def visit_Name(self, node):
        if self.map and node.id in self.map:
            node.id = self.map[node.id]
        return node

    def visit_ExceptHandler(self, node):
        if self.map and node.name in self.map:
            node.name = self.map[node.name]
        self.generic_visit(node)
        return node


class _Assert2If(ast.NodeTransformer):
    """assert c, m  →  if not c: raise AssertionError(m)"""
    def visit_Assert(self, node):
        exc = ast.Call(func=ast.Name(id="AssertionError", ctx=ast.Load()), args=[node.msg] if node.msg else [], keywords=[])
        return ast.copy_location(ast.If(test=ast.UnaryOp(op=ast.Not(), operand=node.test),
                                        body=[ast.Raise(exc=exc, cause=None)], orelse=[]), node)


class _Logger(ast.NodeTransformer):
    """Insert a harmless logging call at the start of every function body."""
    def visit_FunctionDef(self, node):
        self.generic_visit(node)
        stmt = ast.parse('__import__("logging").getLogger("emulators").debug("enter")').body[0]
        i = 1 if (node.body and isinstance(node.body[0], ast.Expr) and isinstance(node.body[0].value, ast.Constant)
                  and isinstance(node.body[0].value.value, str)) else 0
        node.body.insert(i, stmt)
        return node


class _Hoister(ast.NodeTransformer):
    """Inside functions: every non-trivial argument of a call that is the whole value of a simple statement is first
    bound to a fresh local (`_h3 = <arg>`), left to right, and the call uses the local."""
    def __init__(self):
        self.n = 0
        self.depth = 0

    def visit_FunctionDef(self, node):
        self.depth += 1
        node.body = self._block(node.body)
        self.depth -= 1
        return node

    def visit_Lambda(self, node):
        return node

    def _block(self, stmts):
        out = []
        for st in stmts:
            if isinstance(st, (ast.FunctionDef, ast.AsyncFunctionDef)):
                out.append(self.visit_FunctionDef(st)); continue
            if isinstance(st, ast.ClassDef):
                out.append(st); continue
            for fld in ("body", "orelse", "finalbody"):
                if isinstance(getattr(st, fld, None), list) and getattr(st, fld) and isinstance(getattr(st, fld)[0], ast.stmt):
                    setattr(st, fld, self._block(getattr(st, fld)))
            for h in getattr(st, "handlers", []) or []:
                h.body = self._block(h.body)
            if isinstance(st, (ast.Assign, ast.AnnAssign, ast.AugAssign, ast.Expr, ast.Return)) and isinstance(st.value, ast.Call):
                c = st.value
                if not any(isinstance(a, ast.Starred) for a in c.args) and all(k.arg for k in c.keywords) \
                        and not (isinstance(c.func, ast.Name) and c.func.id in ("super", "isinstance", "len", "range", "zip", "enumerate")):
                    def tmp(e):
                        if isinstance(e, (ast.Name, ast.Constant)):
                            return e
                        if any(isinstance(x, (ast.NamedExpr, ast.Yield, ast.YieldFrom, ast.Await)) for x in ast.walk(e)):
                            return e
                        name = f"_h{self.n}"
                        self.n += 1
                        out.append(ast.Assign(targets=[ast.Name(id=name, ctx=ast.Store())], value=e, lineno=st.lineno))
                        return ast.Name(id=name, ctx=ast.Load())
                    c.args = [tmp(a) for a in c.args]
                    for k in c.keywords:
                        k.value = tmp(k.value)
            out.append(st)
        return out


def _kw_overlay(kind):
    """kw: positional arguments of statically resolved calls to repository functions become keywords;
    pos: keyword arguments that continue the positional prefix become positional."""
    from .model import Program
    from .rules import kwswap, util
    prog = Program()
    for f in prog.funcs.values():
        for call in list(util.walk_own(f.node)):
            if not isinstance(call, ast.Call):
                continue
            callee, skip = kwswap._resolve(prog, f, call)
            if callee is None or any(isinstance(x, ast.Starred) for x in call.args) or any(k.arg is None for k in call.keywords):
                continue
            a = callee.node.args
            if a.vararg or a.posonlyargs or "overload" in getattr(callee, "decorators", ()):
                continue
            if callee.node.decorator_list and not (callee.is_static or callee.is_classmethod):
                continue
            pos = [x.arg for x in a.args]
            if skip and pos:
                pos = pos[1:]
            if len(call.args) > len(pos):
                continue
            if kind == "kw":
                # keep the first argument positional (most common style), turn the rest into keywords
                keep = 1 if call.args else 0
                new_kw = [ast.keyword(arg=pos[i], value=call.args[i]) for i in range(keep, len(call.args))]
                call.args = call.args[:keep]
                call.keywords = new_kw + call.keywords
            else:
                kws = {k.arg: k for k in call.keywords}
                i = len(call.args)
                while i < len(pos) and pos[i] in kws:
                    call.args.append(kws[pos[i]].value)
                    call.keywords.remove(kws[pos[i]])
                    i += 1
    ov = {}
    for m in prog.modules.values():
        if m.relpath.endswith(".py") and m.name.split(".")[0] in PACKAGES:
            ov[m.relpath] = ast.unparse(ast.fix_missing_locations(m.tree)) + "\n"
            compile(ov[m.relpath], m.relpath, "exec")
    return ov


class _IfExp2If(ast.NodeTransformer):
    """x = a if c else b   →   if c: x = a  else: x = b   (plain single-target assignments inside functions)"""
    def visit_Assign(self, node):
        if isinstance(node.value, ast.IfExp) and len(node.targets) == 1 and isinstance(node.targets[0], (ast.Name, ast.Attribute)):
            import copy
            a = ast.Assign(targets=[copy.deepcopy(node.targets[0])], value=node.value.body, lineno=node.lineno)
            b = ast.Assign(targets=[copy.deepcopy(node.targets[0])], value=node.value.orelse, lineno=node.lineno)
            return ast.copy_location(ast.If(test=node.value.test, body=[a], orelse=[b]), node)
        return node

    def visit_ClassDef(self, node):
        for i, st in enumerate(node.body):
            if isinstance(st, (ast.FunctionDef, ast.AsyncFunctionDef)):
                node.body[i] = self.visit(st)
        return node

    def visit_Module(self, node):
        for i, st in enumerate(node.body):
            if isinstance(st, (ast.FunctionDef, ast.AsyncFunctionDef, ast.ClassDef)):
                node.body[i] = self.visit(st)
        return node


def _ends_abruptly(body):
    return bool(body) and isinstance(body[-1], (ast.Return, ast.Raise, ast.Continue, ast.Break))


class _EarlyElse(ast.NodeTransformer):
    """if c: ...; return X        →   if c: ...; return X
       rest                            else: rest"""
    def _block(self, stmts):
        out = []
        for i, st in enumerate(stmts):
            st = self.visit(st)
            if isinstance(st, ast.If) and not st.orelse and _ends_abruptly(st.body) and i + 1 < len(stmts):
                rest = self._block(stmts[i + 1:])
                st.orelse = rest
                out.append(st)
                return out
            out.append(st)
        return out

    def generic_visit(self, node):
        super().generic_visit(node)
        for fld in ("body", "orelse", "finalbody"):
            b = getattr(node, fld, None)
            if isinstance(b, list) and b and isinstance(b[0], ast.stmt) and not isinstance(node, (ast.Module, ast.ClassDef)):
                setattr(node, fld, self._block_novisit(b))
        return node

    def _block_novisit(self, stmts):
        out = []
        for i, st in enumerate(stmts):
            if isinstance(st, ast.If) and not st.orelse and _ends_abruptly(st.body) and i + 1 < len(stmts):
                st.orelse = self._block_novisit(stmts[i + 1:])
                out.append(st)
                return out
            out.append(st)
        return out


class _NotSwap(ast.NodeTransformer):
    """if c: A else: B   →   if not c: B else: A   (only when both arms exist and the else arm is not an elif chain)"""
    def visit_If(self, node):
        self.generic_visit(node)
        if node.orelse and not (len(node.orelse) == 1 and isinstance(node.orelse[0], ast.If)):
            node.test = ast.UnaryOp(op=ast.Not(), operand=node.test)
            node.body, node.orelse = node.orelse, node.body
        return node


class _CmpFlip(ast.NodeTransformer):
    """a < b → b > a, a <= b → b >= a, a == b → b == a, a != b → b != a (single-operator comparisons)"""
    FLIP = {ast.Lt: ast.Gt, ast.Gt: ast.Lt, ast.LtE: ast.GtE, ast.GtE: ast.LtE, ast.Eq: ast.Eq, ast.NotEq: ast.NotEq}

    def visit_Compare(self, node):
        self.generic_visit(node)
        if len(node.ops) == 1 and type(node.ops[0]) in self.FLIP:
            return ast.copy_location(ast.Compare(left=node.comparators[0], ops=[self.FLIP[type(node.ops[0])]()],
                                                 comparators=[node.left]), node)
        return node


_SIMPLE = {"ifexp2if": _IfExp2If, "earlyelse": _EarlyElse, "notswap": _NotSwap, "cmpflip": _CmpFlip}


def overlay(kind):
    if kind in ('kw', 'pos'):
        return _kw_overlay(kind)
    ov = {}
    root = repo_root()
    for pkg in PACKAGES:
        for dp, dn, fn in os.walk(os.path.join(root, pkg)):
            for f in fn:
                if f.endswith(".py"):
                    rel = os.path.relpath(os.path.join(dp, f), root)
                    src = open(os.path.join(dp, f)).read()
                    if kind == "unparse":
                        ov[rel] = ast.unparse(ast.parse(src)) + "\n"
                    elif kind == "rename":
                        ov[rel] = ast.unparse(ast.fix_missing_locations(_Renamer().visit(ast.parse(src)))) + "\n"
                        compile(ov[rel], rel, "exec")
                    elif kind == "assert2if":
                        ov[rel] = ast.unparse(ast.fix_missing_locations(_Assert2If().visit(ast.parse(src)))) + "\n"
                        compile(ov[rel], rel, "exec")
                    elif kind in _SIMPLE:
                        ov[rel] = ast.unparse(ast.fix_missing_locations(_SIMPLE[kind]().visit(ast.parse(src)))) + "\n"
                        compile(ov[rel], rel, "exec")
                    elif kind == "hoist":
                        ov[rel] = ast.unparse(ast.fix_missing_locations(_Hoister().visit(ast.parse(src)))) + "\n"
                        compile(ov[rel], rel, "exec")
                    elif kind == "log":
                        ov[rel] = ast.unparse(ast.fix_missing_locations(_Logger().visit(ast.parse(src)))) + "\n"
                        compile(ov[rel], rel, "exec")
                    else:
                        ov[rel] = "# pad\n" * 7 + src if not src.startswith("from __future__") else src.replace("\n", "\n" + "# pad\n" * 7, 1)
    return ov


ALL_KINDS = ("unparse", "pad", "rename", "log", "assert2if", "hoist", "kw", "pos", "ifexp2if", "earlyelse", "notswap", "cmpflip")
_OV: dict = {}


def cached_overlay(kind: str) -> dict:
    if kind not in _OV:
        _OV[kind] = overlay(kind)
    return _OV[kind]


def compare(pid: str, kind: str, base=None) -> tuple[str, str]:
    """('identical' | 'keys' | 'differs' | 'error', detail): the property's obligations on the tree versus on the twin."""
    from .cli import run_property
    try:
        if base is None:
            base, _ = run_property(pid, "quick")
        tw, _ = run_property(pid, "quick", overlay=cached_overlay(kind))
    except AnalysisError as e:
        return "error", f"ANALYSIS-ERROR {e}"
    except Exception as e:   # a crash of a rule on a twin is a checker defect, reported as such
        import traceback
        tb = traceback.extract_tb(e.__traceback__)[-1]
        return "error", f"CRASH {type(e).__name__} {e} at {tb.filename}:{tb.lineno}"
    b = {o.key: o.ok for o in base.obs}
    t = {o.key: o.ok for o in tw.obs}
    if b == t:
        return "identical", f"{len(b)} obligations"
    diff = [(k, b.get(k), t.get(k)) for k in sorted(set(b) | set(t)) if b.get(k) != t.get(k)]
    if Counter((o.rule, o.ok) for o in base.obs) == Counter((o.rule, o.ok) for o in tw.obs) \
            and not any(v is False for k, v in t.items() if b.get(k) is not False):
        return "keys", f"identical verdicts per rule; {len(diff)} obligation key(s) are spelled differently"
    return "differs", f"{len(diff)} obligation(s) differ, e.g. {diff[:3]}"
