"""Mutation adequacy of the checker itself (DESIGN.md §8, A.13).

Variants of the *current* sources are built in memory (text edits that must
match exactly once, then `compile()`d to make sure they are programs that still
build) and analysed through the same entry point as the real tree, with the
loader's overlay — nothing is written under /repo.

    kill : a behaviour-breaking edit; the property's check must report a new violation
    twin : a behaviour-preserving edit; the verdict must not change

A surviving kill-mutant or an alarming twin is a fact about the checker, not
about /repo: it is printed as CHECKER-WEAKNESS and recorded in the evidence,
and does not change the exit code.
"""
from __future__ import annotations

import concurrent.futures as cf
import os
import re

from .model import AnalysisError, repo_root

MUTANTS: dict[str, list] = {}


def M(pid: str, name: str, kind: str, edits: list, rule: str | None = None) -> None:
    """edits: [(relpath, old, new)], each `old` must occur exactly once in the current text."""
    MUTANTS.setdefault(pid, []).append({"name": name, "kind": kind, "edits": edits, "rule": rule})


def _build_overlay(edits) -> dict | None:
    overlay: dict = {}
    for rel, old, new in edits:
        src = overlay.get(rel)
        if src is None:
            with open(os.path.join(repo_root(), rel), encoding="utf-8") as f:
                src = f.read()
        if src.count(old) != 1:
            return None  # anchor text moved: mutant not applicable to this tree
        src = src.replace(old, new, 1)
        if rel.endswith(".py"):
            try:
                compile(src, rel, "exec")
            except SyntaxError:
                return None
        overlay[rel] = src
    return overlay


def _run_one(args):
    pid, m, base_bad = args
    from .cli import run_property
    overlay = _build_overlay(m["edits"])
    if overlay is None:
        return m["name"], m["kind"], "skipped", "edit anchor not found in the current tree"
    try:
        ctx, _ = run_property(pid, "quick", overlay=overlay)
    except AnalysisError as e:
        return m["name"], m["kind"], "analysis-error", str(e)[:200]
    except Exception as e:  # pragma: no cover
        return m["name"], m["kind"], "analysis-error", f"{type(e).__name__}: {e}"[:200]
    new = [o for o in ctx.obs if not o.ok and o.key not in base_bad]
    if m["rule"]:
        hit = [o for o in new if o.rule.startswith(m["rule"])]
    else:
        hit = new
    if m["kind"] == "kill":
        if hit:
            return m["name"], "kill", "killed", f"{hit[0].rule} {hit[0].where}"
        if new:
            return m["name"], "kill", "killed-other-rule", f"{new[0].rule} {new[0].where}"
        return m["name"], "kill", "survived", ""
    # twin
    if new:
        return m["name"], "twin", "alarmed", f"{new[0].rule} {new[0].where}: {new[0].detail[:120]}"
    return m["name"], "twin", "silent", ""


def load_tables() -> None:
    if MUTANTS:
        return
    from . import mutants  # noqa: F401  (fills MUTANTS through M)


def adequacy(pid: str, ctx, meta) -> list[str]:
    load_tables()
    ms = MUTANTS.get(pid, [])
    if not ms:
        return []
    base_bad = {o.key for o in ctx.obs if not o.ok}
    jobs = [(pid, m, base_bad) for m in ms]
    results = []
    workers = min(int(os.environ.get("MUT_WORKERS", "16")), max(1, len(jobs)))
    with cf.ProcessPoolExecutor(max_workers=workers) as ex:
        for r in ex.map(_run_one, jobs):
            results.append(r)
    kills = [r for r in results if r[1] == "kill" and r[2] != "skipped"]
    twins = [r for r in results if r[1] == "twin" and r[2] != "skipped"]
    killed = [r for r in kills if r[2] in ("killed", "killed-other-rule", "analysis-error")]
    strictly = [r for r in kills if r[2] == "killed"]
    silent = [r for r in twins if r[2] == "silent"]
    lines = [f"mutation-adequacy property={pid} kill-mutants={len(kills)} detected={len(killed)} "
             f"(violation by the intended rule: {len(strictly)}) twins={len(twins)} silent={len(silent)} "
             f"skipped={sum(1 for r in results if r[2] == 'skipped')}"]
    for r in results:
        if r[1] == "kill" and r[2] == "survived":
            lines.append(f"CHECKER-WEAKNESS property={pid} kill-mutant survived: {r[0]}")
        if r[1] == "twin" and r[2] in ("alarmed", "analysis-error"):
            lines.append(f"CHECKER-WEAKNESS property={pid} behaviour-preserving twin {r[2]}: {r[0]} — {r[3]}")
    ctx.extra["mutation_adequacy"] = {
        "mutants_total": len(kills), "mutants_killed": len(killed), "killed_by_intended_rule": len(strictly),
        "twins_total": len(twins), "twins_silent": len(silent),
        "results": [{"name": r[0], "kind": r[1], "outcome": r[2], "by": r[3]} for r in results],
    }
    return lines


def main() -> int:
    """python -m sa.mutate [PID ...] : run the adequacy tables stand-alone."""
    import sys
    from .cli import run_property
    load_tables()
    pids = sys.argv[1:] or sorted(MUTANTS)
    bad = 0
    for pid in pids:
        try:
            ctx, meta = run_property(pid, "quick")
        except AnalysisError as e:
            print(f"{pid}: ANALYSIS-ERROR on the unchanged tree: {e}")
            bad += 1
            continue
        for line in adequacy(pid, ctx, meta):
            print(line)
            if line.startswith("CHECKER-WEAKNESS"):
                bad += 1
        for r in ctx.extra.get("mutation_adequacy", {}).get("results", []):
            if "-v" in os.environ.get("MUT_VERBOSE", ""):
                print("   ", r)
    return 1 if bad else 0


if __name__ == "__main__":
    from sa import mutate as _real  # the table module registers into the imported copy, not __main__
    raise SystemExit(_real.main())
