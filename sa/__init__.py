"""Static-analysis engine for pasqal-io/emulators (see /verif/DESIGN.md).

Nothing in this package imports or executes code from the analysed repository:
everything is derived from the source text through `ast`.
"""
