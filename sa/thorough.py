"""What the thorough tier adds to the quick rules (DESIGN.md A.13, §10.9):
  * mutation adequacy — every kill mutant of the property's table (sa/mutants.py) must be reported, every
    behaviour-preserving twin must be silent (in-memory overlays of the current tree, nothing is written or executed);
  * twin invariance — the property's verdicts must be identical on twelve whole-repository behaviour-preserving
    rewrites of the current tree (sa/twins.py).
Both are statements about the *checker* on the current tree: a surviving mutant or a differing twin is printed as a
CHECKER-WEAKNESS line and recorded in the evidence; it is not a violation of the property."""
from __future__ import annotations

import concurrent.futures as cf
import os


def _twin_job(args):
    pid, kind = args
    from . import twins
    return kind, twins.compare(pid, kind)


def run(pid, ctx, meta) -> list[str]:
    lines: list[str] = []
    try:
        from . import mutate
        lines += mutate.adequacy(pid, ctx, meta)
    except ImportError:
        pass
    from . import twins
    kinds = [k for k in os.environ.get("TWIN_KINDS", ",".join(twins.ALL_KINDS)).split(",") if k]
    res = {}
    workers = min(int(os.environ.get("MUT_WORKERS", "16")), len(kinds)) or 1
    with cf.ProcessPoolExecutor(max_workers=workers) as ex:
        for kind, (verdict, detail) in ex.map(_twin_job, [(pid, k) for k in kinds]):
            res[kind] = {"verdict": verdict, "detail": detail[:300]}
    same = [k for k, v in res.items() if v["verdict"] in ("identical", "keys")]
    lines.append(f"twin-invariance property={pid} rewrites={len(res)} identical={len(same)} "
                 f"({', '.join(k for k in kinds)})")
    for k, v in res.items():
        if v["verdict"] in ("differs", "error"):
            lines.append(f"CHECKER-WEAKNESS property={pid} verdicts change under the behaviour-preserving rewrite '{k}': {v['detail']}")
    ctx.extra["twin_invariance"] = res
    return lines
