"""What the thorough tier adds (DESIGN.md A.13); filled in by sa.mutate."""
from __future__ import annotations


def run(pid, ctx, meta) -> list[str]:
    try:
        from . import mutate
    except ImportError:
        return []
    return mutate.adequacy(pid, ctx, meta)
