"""Arithmetic normal form for provenance terms.

``poly(term)`` turns an arithmetic term into a polynomial with numeric
coefficients over *atoms* (non-arithmetic sub-terms, themselves canonicalised),
so that ``x / 2``, ``0.5 * x`` and ``x * 0.5`` — or ``(i + 1) + 1`` and
``i + 2`` — are the same object.  Coefficients are Python complex numbers
compared with a relative tolerance (the constants in this code base are 1/2,
1, 2, 1e-3, -1j …).
"""
from __future__ import annotations

from .interp import strip_typed

EPS = 1e-30


def canon(t):
    """Canonical form: arithmetic sub-terms replaced by ('poly', items)."""
    t = strip_typed(t)
    if not isinstance(t, tuple) or not t:
        return t
    k = t[0]
    if k == "default":
        return canon(t[1])
    if k in ("bin", "un") or (k == "const" and _isnum(t[1])):
        p = poly(t)
        if p is not None:
            return _pack(p)
    if k == "const":
        return t
    return tuple(canon(x) if isinstance(x, tuple) else x for x in t)


def _isnum(v) -> bool:
    return isinstance(v, (int, float, complex)) and not isinstance(v, bool)


def _pack(p: dict):
    items = tuple(sorted(((atoms, _round(c)) for atoms, c in p.items() if abs(c) > EPS), key=repr))
    if not items:
        return ("const", 0)
    if len(items) == 1 and items[0][0] == ():
        c = items[0][1]
        return ("const", c)
    if len(items) == 1 and len(items[0][0]) == 1 and abs(items[0][1] - 1) < EPS:
        return items[0][0][0]
    return ("poly", items)


def _sig(x: float) -> float:
    return float(f"{x:.12g}")


def _round(c: complex):
    c = complex(c)
    re, im = _sig(c.real), _sig(c.imag)
    if im == 0:
        if re == int(re) and abs(re) < 1e15:
            return int(re)
        return re
    return complex(re, im)


def poly(t) -> dict | None:
    """{tuple of atoms (sorted, with repetition): coefficient}; None if `t` is not arithmetic at the top."""
    t = strip_typed(t)
    k = t[0]
    if k == "default":
        return poly(t[1])
    if k == "const":
        if _isnum(t[1]):
            return {(): complex(t[1])}
        return {(t,): 1 + 0j}
    if k == "poly":
        return {atoms: complex(c) for atoms, c in t[1]}
    if k == "un" and t[1] == "neg":
        a = poly(t[2])
        return {m: -c for m, c in a.items()}
    if k == "bin":
        op = t[1]
        if op in ("Add", "Sub"):
            a, b = poly(t[2]), poly(t[3])
            out = dict(a)
            s = 1 if op == "Add" else -1
            for m, c in b.items():
                out[m] = out.get(m, 0j) + s * c
            return out
        if op == "Mult":
            a, b = poly(t[2]), poly(t[3])
            out: dict = {}
            for m1, c1 in a.items():
                for m2, c2 in b.items():
                    m = tuple(sorted(m1 + m2, key=repr))
                    out[m] = out.get(m, 0j) + c1 * c2
            return out
        if op == "Div":
            a, b = poly(t[2]), poly(t[3])
            if set(b) == {()} and abs(b[()]) > 0:
                return {m: c / b[()] for m, c in a.items()}
            den = _pack(b)
            out = {}
            for m, c in a.items():
                out[tuple(sorted(m + (("inv", den),), key=repr))] = c
            return out
        if op == "Pow":
            a, b = poly(t[2]), poly(t[3])
            if set(b) == {()} and b[()].imag == 0 and b[()].real == int(b[()].real) and 0 <= b[()].real <= 4:
                n = int(b[()].real)
                out = {(): 1 + 0j}
                for _ in range(n):
                    nxt: dict = {}
                    for m1, c1 in out.items():
                        for m2, c2 in a.items():
                            m = tuple(sorted(m1 + m2, key=repr))
                            nxt[m] = nxt.get(m, 0j) + c1 * c2
                    out = nxt
                return out
    # atom
    return {(canon_atom(t),): 1 + 0j}


def canon_atom(t):
    t = strip_typed(t)
    if not isinstance(t, tuple) or not t:
        return t
    if t[0] in ("bin", "un"):
        # non-linear arithmetic (MatMult, FloorDiv, not, ...): canonicalise children only
        return tuple(canon(x) if isinstance(x, tuple) else x for x in t)
    return tuple(canon(x) if isinstance(x, tuple) else x for x in t)


def linear_in(t, atoms: list) -> tuple | None:
    """Coefficients (c_1..c_n, const) if t == sum c_i * atoms[i] + const, else None."""
    p = poly(t)
    if p is None:
        return None
    catoms = [canon(a) for a in atoms]
    coefs = [0j] * len(atoms)
    const = 0j
    for m, c in p.items():
        if abs(c) < EPS:
            continue
        if m == ():
            const = c
        elif len(m) == 1 and m[0] in catoms:
            coefs[catoms.index(m[0])] += c
        else:
            return None
    return tuple(coefs) + (const,)


def same(a, b) -> bool:
    return canon(a) == canon(b)


def is_const(t, value, tol: float = 1e-12) -> bool:
    p = poly(t)
    if p is None:
        return False
    p = {m: c for m, c in p.items() if abs(c) > EPS}
    if not p:
        return value == 0
    return set(p) == {()} and abs(p[()] - value) <= tol * max(abs(p[()]), abs(value))


def monomials(t) -> dict:
    p = poly(t) or {}
    return {m: c for m, c in p.items() if abs(c) > EPS}


def normalised_by_own_norm(t):
    """X if `t` is X·(1/‖X‖) — one monomial, coefficient 1, atoms X and inv(X.norm()[.item()]) — else None."""
    mons = monomials(t)
    if len(mons) != 1:
        return None
    (m, c), = mons.items()
    if abs(c - 1) > 1e-12 or len(m) != 2:
        return None
    inv = [a for a in m if isinstance(a, tuple) and a and a[0] == "inv"]
    rest = [a for a in m if not (isinstance(a, tuple) and a and a[0] == "inv")]
    if len(inv) != 1 or len(rest) != 1:
        return None
    den = inv[0][1]
    while isinstance(den, tuple) and den and den[0] == "mcall" and den[2] in ("item", "cpu", "real"):
        den = canon(den[1])
    x = canon(rest[0])
    if isinstance(den, tuple) and den and den[0] == "mcall" and den[2].split(".")[-1] == "norm" and canon(den[1]) == x:
        return rest[0]
    return None
