"""Statement-level control-flow graph for the constructs the repository uses.

Nodes are small integers; ``g.nodes[n]`` carries ``kind`` (entry, exit, raise,
stmt, test, loop, with, handler, join) and ``ast`` (the statement or test
expression).  Edges carry ``label``: None, True/False (branch outcome),
'body'/'exit' for loops, 'exc' for exceptional edges.

Two exits per function: EXIT (normal return / fall off the end) and RAISE
(uncaught exception, including assertion failure).
"""
from __future__ import annotations

import ast
from typing import Iterable, Iterator

import networkx as nx

ENTRY, EXIT, RAISE = 0, 1, 2


class CFG:
    def __init__(self, func: ast.FunctionDef, assert_edges: bool = True):
        self.func = func
        self.g = nx.MultiDiGraph()
        self._n = 3
        self.g.add_node(ENTRY, kind="entry", ast=None)
        self.g.add_node(EXIT, kind="exit", ast=None)
        self.g.add_node(RAISE, kind="raise", ast=None)
        self.assert_edges = assert_edges
        self.node_of: dict[int, int] = {}  # id(ast stmt/test) -> node
        frontier = self._block(func.body, [(ENTRY, None)], loop=None, handlers=[])
        for src, lab in frontier:
            self.g.add_edge(src, EXIT, label=lab)
        self._dom = None
        self._pdom = None

    # ---------------------------------------------------------------- build
    def _new(self, kind: str, node: ast.AST | None) -> int:
        n = self._n
        self._n += 1
        self.g.add_node(n, kind=kind, ast=node)
        if node is not None:
            self.node_of[id(node)] = n
        return n

    def _connect(self, frontier, dst: int) -> None:
        for src, lab in frontier:
            self.g.add_edge(src, dst, label=lab)

    def _raise_target(self, handlers) -> int:
        return handlers[-1] if handlers else RAISE

    def _block(self, stmts, frontier, loop, handlers):
        for st in stmts:
            if not frontier:
                break  # unreachable code after return/raise
            frontier = self._stmt(st, frontier, loop, handlers)
        return frontier

    def _stmt(self, st, frontier, loop, handlers):
        g = self.g
        if isinstance(st, ast.If):
            t = self._new("test", st.test)
            g.nodes[t]["stmt"] = st
            self.node_of[id(st)] = t
            self._connect(frontier, t)
            out = self._block(st.body, [(t, True)], loop, handlers)
            if st.orelse:
                out += self._block(st.orelse, [(t, False)], loop, handlers)
            else:
                out.append((t, False))
            return out
        if isinstance(st, (ast.For, ast.AsyncFor, ast.While)):
            h = self._new("loop", st)
            self._connect(frontier, h)
            ctx = {"head": h, "breaks": []}
            body_out = self._block(st.body, [(h, "body")], ctx, handlers)
            self._connect(body_out, h)
            out = [(h, "exit")]
            if st.orelse:
                out = self._block(st.orelse, out, loop, handlers)
            return out + ctx["breaks"]
        if isinstance(st, (ast.With, ast.AsyncWith)):
            w = self._new("with", st)
            self._connect(frontier, w)
            return self._block(st.body, [(w, None)], loop, handlers)
        if isinstance(st, ast.Try):
            hnode = self._new("handler", st)
            body_out = self._block(st.body, frontier, loop, handlers + [hnode])
            if st.orelse:
                body_out = self._block(st.orelse, body_out, loop, handlers)
            out = list(body_out)
            if st.handlers:
                for h in st.handlers:
                    out += self._block(h.body, [(hnode, "exc")], loop, handlers)
            else:
                g.add_edge(hnode, self._raise_target(handlers), label="exc")
            if st.finalbody:
                j = self._new("join", None)
                self._connect(out, j)
                out = self._block(st.finalbody, [(j, None)], loop, handlers)
            return out
        if isinstance(st, ast.Return):
            n = self._new("stmt", st)
            self._connect(frontier, n)
            g.add_edge(n, EXIT, label=None)
            return []
        if isinstance(st, ast.Raise):
            n = self._new("stmt", st)
            self._connect(frontier, n)
            g.add_edge(n, self._raise_target(handlers), label="exc")
            return []
        if isinstance(st, ast.Break):
            n = self._new("stmt", st)
            self._connect(frontier, n)
            if loop is not None:
                loop["breaks"].append((n, None))
            return []
        if isinstance(st, ast.Continue):
            n = self._new("stmt", st)
            self._connect(frontier, n)
            if loop is not None:
                g.add_edge(n, loop["head"], label=None)
            return []
        if isinstance(st, ast.Assert):
            n = self._new("test", st.test)
            g.nodes[n]["stmt"] = st
            self.node_of[id(st)] = n
            self._connect(frontier, n)
            if self.assert_edges:
                g.add_edge(n, self._raise_target(handlers), label=False)
            return [(n, True)]
        if isinstance(st, ast.Match):
            m = self._new("stmt", st)
            self._connect(frontier, m)
            out = []
            for case in st.cases:
                out += self._block(case.body, [(m, "case")], loop, handlers)
            out.append((m, "nomatch"))
            return out
        # simple statement (incl. nested def/class, treated as a binding)
        n = self._new("stmt", st)
        self._connect(frontier, n)
        if handlers and _may_raise(st):
            g.add_edge(n, handlers[-1], label="exc")
        return [(n, None)]

    # -------------------------------------------------------------- queries
    def node(self, st: ast.AST) -> int:
        return self.node_of[id(st)]

    def has(self, st: ast.AST) -> bool:
        return id(st) in self.node_of

    def stmts(self) -> Iterator[tuple[int, ast.AST]]:
        for n, d in self.g.nodes(data=True):
            if d["ast"] is not None:
                yield n, d["ast"]

    def reachable(self) -> set[int]:
        return set(nx.descendants(self.g, ENTRY)) | {ENTRY}

    def dominators(self) -> dict[int, int]:
        if self._dom is None:
            self._dom = nx.immediate_dominators(nx.DiGraph(self.g), ENTRY)
        return self._dom

    def dominates(self, a: int, b: int) -> bool:
        """a dominates b (every path from entry to b passes through a)."""
        dom = self.dominators()
        if b not in dom:
            return True  # b unreachable: vacuous
        cur = b
        while True:
            if cur == a:
                return True
            nxt = dom.get(cur)
            if nxt is None or nxt == cur:
                return False
            cur = nxt

    def edge_dominates(self, src: int, label, b: int) -> bool:
        """Every entry->b path uses the edge (src, label)."""
        h = nx.DiGraph()
        h.add_nodes_from(self.g.nodes)
        for u, v, d in self.g.edges(data=True):
            if u == src and d.get("label") == label:
                continue
            h.add_edge(u, v)
        if b not in h:
            return True
        return not nx.has_path(h, ENTRY, b)

    def postdominates(self, a: int, b: int, exits: Iterable[int] = (EXIT,)) -> bool:
        """Every path from b to one of `exits` passes through a."""
        h = nx.DiGraph(self.g)
        if a in h:
            h.remove_node(a)
        if b not in h:
            return True
        for e in exits:
            if e in h and nx.has_path(h, b, e):
                return False
        return True

    def can_reach(self, a: int, b: int, avoiding: Iterable[int] = ()) -> bool:
        h = nx.DiGraph(self.g)
        for x in avoiding:
            if x in h and x not in (a, b):
                h.remove_node(x)
        return a in h and b in h and nx.has_path(h, a, b)

    def paths(self, start: int = ENTRY, ends: Iterable[int] = (EXIT,), max_visits: int = 2,
              limit: int = 20000) -> Iterator[list[tuple[int, object]]]:
        """Enumerate paths as lists of (node, label of the edge taken out of it).

        Every edge is used at most `max_visits` times on a path.
        """
        ends = set(ends)
        count = 0
        stack = [(start, [], {})]
        while stack:
            n, path, used = stack.pop()
            if n in ends:
                count += 1
                if count > limit:
                    raise RuntimeError("path limit exceeded")
                yield path + [(n, None)]
                continue
            for _, v, k, d in self.g.out_edges(n, keys=True, data=True):
                key = (n, v, k)
                c = used.get(key, 0)
                if c >= max_visits:
                    continue
                u2 = dict(used)
                u2[key] = c + 1
                stack.append((v, path + [(n, d.get("label"))], u2))


def _may_raise(st: ast.AST) -> bool:
    for n in ast.walk(st):
        if isinstance(n, (ast.Call, ast.Subscript, ast.Attribute, ast.BinOp)):
            return True
    return False


def stmt_calls(st: ast.AST) -> list[ast.Call]:
    """Calls syntactically inside a statement, excluding nested defs/lambdas bodies."""
    out = []

    def walk(n):
        for c in ast.iter_child_nodes(n):
            if isinstance(c, (ast.FunctionDef, ast.AsyncFunctionDef, ast.Lambda, ast.ClassDef)):
                continue
            if isinstance(c, ast.Call):
                out.append(c)
            walk(c)

    if isinstance(st, ast.Call):
        out.append(st)
    walk(st)
    return out


def own_nodes(st: ast.AST) -> Iterator[ast.AST]:
    """Nodes of a CFG node's own expression part (not nested statements)."""
    if isinstance(st, (ast.If, ast.While)):
        yield from ast.walk(st.test)
    elif isinstance(st, (ast.For, ast.AsyncFor)):
        yield from ast.walk(st.target)
        yield from ast.walk(st.iter)
    elif isinstance(st, (ast.With, ast.AsyncWith)):
        for it in st.items:
            yield from ast.walk(it)
    elif isinstance(st, ast.Try):
        return
    elif isinstance(st, (ast.FunctionDef, ast.AsyncFunctionDef, ast.ClassDef)):
        return
    else:
        yield from ast.walk(st)
