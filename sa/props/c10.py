"""C10 — MPS truncation and canonical form: structural clauses."""
from ..rules import kernels, drivers, canon

META = {
    "title": "MPS truncation and canonical form honour their contract",
    "technique": "static analysis: call-site argument provenance of every split/truncate/zip site, typestate of "
                 "the orthogonality centre around factor writes; QR gauge-move idiom table; idiom classification of the truncation cut-off (running sum vs per-value)",
    "design_ref": "DESIGN.md §5 C10",
    "explanation": "TRUNCARGS: at each of the 6 sites producing MPS factors (evolve_pair, minimize_energy_pair, "
                   "truncate_impl → split_matrix; MPS.truncate, zip_right → truncate_impl; MPO.apply_to → zip_right) "
                   "the error/precision and rank/bond-cap arguments are explicit and come from config / self / "
                   "other, never defaults or literals, and the centre flag reaches the splitter. CENTER: factor "
                   "writes outside the gauge routines happen at the asserted or freshly orthogonalised centre or "
                   "are followed by a centre store driven by the splitter's flag; MPS.truncate is "
                   "orthogonalize(last) ≺ truncate_impl ≺ centre:=0; orthogonalize records the centre it moved to; "
                   "norm() is the norm of the centre tensor.",
    "not_decided": "the discarded-weight bound, isometry of the factors, the centre declared when an MPS is built "
                   "from a fresh factor list",
    "trusted_base": ["CPython ast", "sa.interp"],
    "assumptions": [],
}


def check(ctx):
    canon.truncargs(ctx)
    canon.center_writes(ctx)
    canon.dmrg_protocol(ctx)
    canon.scaling(ctx)
    ctx.floor("TRUNCARGS", 12)
    ctx.floor("CENTER", 8)
    canon.gauge_moves(ctx)
    drivers.sweep_boundaries(ctx)
    kernels.truncation_cutoff(ctx)
