"""C14 — observables are recorded exactly at their requested times (structural clauses)."""
from ..rules import drivers, adapter, once

META = {
    "title": "Observables are recorded exactly at their requested times",
    "technique": "static analysis: who-may-call and event-order analysis of the observable hooks in both "
                 "drivers, term equality of the time given to the filter and to the callbacks, taint analysis "
                 "exact-merge → tolerance-unique sink; path enumeration over the statement CFG of the time-merge loop; tolerance ordering (filter ≤ merge)",
    "design_ref": "DESIGN.md §5 C14, A.11",
    "explanation": "ONCE-filter: the two membership tests are asked about the time argument and the observable's own evaluation_times on the run's config; a hand-written membership test must range over all own times with the same tolerance (a bisection on one neighbour is not accepted). ONCE: fill_results (emu-mps) has exactly the call sites init() and the base "
                   "timestep_complete(), runs once per completed step after current_time is set and before the "
                   "index advances; _apply_observables (emu-sv) runs with 0 before the loop and k+1 after step k; "
                   "in both the time passed to each callback is the same term as the one tested by "
                   "_is_evaluation_time, callbacks come from config.observables only, and the state handed over "
                   "is the current one. GRID: every observable time is a target time. TIMEEQ: times merged by "
                   "exact set union must pass a tolerance de-duplication before reaching "
                   "Observable(evaluation_times=), which the installed Pulser requires to be unique up to "
                   "TIME_TOLERANCE.",
    "not_decided": "the floating-point matching of times itself (runtime values)",
    "trusted_base": ["CPython ast", "sa.interp", "installed pulser source for TIME_TOLERANCE"],
    "assumptions": ["Pulser's Observable.__call__ records at the time it is given"],
}


def check(ctx):
    once.mps(ctx)
    once.sv(ctx)
    adapter.grid(ctx)
    adapter.unique_observable_times(ctx)
    adapter.timeeq(ctx)
    adapter.merge_close_times(ctx)
    ctx.floor("ONCE", 8)
    ctx.floor("TIMEEQ", 2)
    once.filter_tolerance(ctx)
    drivers.run_loops(ctx)
    drivers.evaluation_time_filter(ctx)
