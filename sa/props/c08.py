"""C08 — Lanczos ground-state search: honesty clause."""
from ..rules import conv

META = {
    "title": "Lanczos ground-state search is variational and meets its residual",
    "technique": "static analysis: path-sensitive guard analysis of the convergence flag, must-raise analysis "
                 "of the public entry, who-may-call; scan for rewrites of the convergence flags with an embedded positive self-test",
    "design_ref": "DESIGN.md §5 C08",
    "explanation": "CONV: _lowest_eigenvector_krylov_method reports converged=True only on paths where "
                   "`resid < residual_tolerance` or the breakdown test `beta < norm_tolerance` was taken true; "
                   "krylov_energy_minimization returns only when converged or happy_breakdown was established "
                   "and raises otherwise; only the restart driver calls the single-cycle routine; the DMRG "
                   "client uses the raising entry. "
                   "CONV-rewrite: no function of the solver modules overwrites converged/happy_breakdown on an existing result (dataclasses.replace or attribute store).",
    "not_decided": "variational bound, Rayleigh quotient, value of the residual (numerical)",
    "trusted_base": ["CPython ast", "sa.interp"],
    "assumptions": ["dataclasses.replace keeps the converged flag of its argument"],
}


def check(ctx):
    M = "emu_base.math.krylov_energy_min."
    conv.result_honest(ctx, M + "_lowest_eigenvector_krylov_method", M + "KrylovEnergyResult",
                       {"residual_tolerance", "norm_tolerance"}, loop_iters=(0, 1), vec_param="v_init")
    conv.entry_raises(ctx, M + "krylov_energy_minimization", {"converged", "happy_breakdown"},
                      "krylov_energy_minimization")
    conv.who_may_call(ctx, {M + "_lowest_eigenvector_krylov_method": {M + "krylov_energy_minimization_impl"},
                            M + "krylov_energy_minimization_impl": {M + "krylov_energy_minimization"}})
    conv.clients_use_raising_entry(ctx, M + "krylov_energy_minimization", 1)
    ctx.floor("CONV-honest", 2)
    conv.no_flag_rewrite(ctx, ("emu_base.math.krylov_energy_min", "emu_mps.solver_utils"), {"converged", "happy_breakdown"})
