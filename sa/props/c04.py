"""C04 — backends reject what they cannot emulate (dispatch structure)."""
from ..rules import drivers, dispatch

META = {
    "title": "Backends reject what they cannot emulate instead of returning wrong results",
    "technique": "static analysis: CFG reachability of discriminator chains + path-sensitive abstract "
                 "interpretation of the backend constructors (dispatch / must-inspect rules); table of required rejections decided on raising paths with polarity; driver-class dispatch table",
    "design_ref": "DESIGN.md §5 C04, A.6",
    "explanation": "HAM-mps: every make_H call of the emu-mps drivers binds hamiltonian_type=self.hamiltonian_type and dim=self.dim (copied from the sequence data) and the matrix just stored as current - never a callee default (a rebuild after the SLM switch must not change the interaction kind). DISPATCH-sv: jump operators present => (EvolveDensityMatrix, DensityMatrix), none => (EvolveStateVector, StateVector). DISPATCH rules: (a) every if/elif chain on an enumerated discriminator (interaction type, "
                   "basis, Hamiltonian type, noise type, eigenstates) ends in raise on the none-matched path; "
                   "(b) every normal path through each backend driver's constructor/init has decided on the "
                   "SequenceData's hamiltonian_type and level count (forwarded to a dispatching parameter or "
                   "tested with the other outcome raising); (c) create_impl never returns a non-DMRG driver "
                   "while solver==DMRG is possible and DMRGBackendImpl refuses noise first; (d) Pulser's "
                   "NoiseTypes literal (read from the installed source) is covered by handled ∪ non-Lindbladian. "
                   "(e) DISPATCH-reject: a table of required rejections (two bases in the samples, imaginary drive samples, false-positive readout with qutrits, fewer than two atoms, dim ∉ {2,3}, initial state with state-preparation errors) — each must be a raising path decided by its condition.",
    "not_decided": "that accepted sequences are emulated correctly (C01/C02); data-dependent rejections "
                   "inside Pulser",
    "trusted_base": ["CPython ast", "networkx reachability/dominators", "the table of discriminator chains in "
                     "sa/rules/dispatch.py (each confirmed by reading)"],
    "assumptions": ["annotations identify the SequenceData parameter of each backend driver",
                    "exceptions are not swallowed by callers (no try/except around the drivers: checked by "
                    "the loader: the three packages contain no `except` clause on these paths)"],
}


def check(ctx):
    dispatch.exhaustive(ctx)
    dispatch.rejections(ctx)
    dispatch.consume(ctx, "emu_mps.mps_backend_impl.MPSBackendImpl", ["__init__", "init"],
                     {"hamiltonian type": {"hamiltonian_type"}, "level count": {"dim", "eigenstates"}})
    dispatch.consume(ctx, "emu_sv.sv_backend_impl.SVBackendImpl", ["__init__"],
                     {"hamiltonian type": {"hamiltonian_type"}, "level count": {"dim", "eigenstates"}})
    dispatch.solver(ctx)
    dispatch.noise_cover(ctx)
    drivers.create_impl_table(ctx)
    dispatch.hamiltonian_type_table(ctx)
    drivers.sv_solver_table(ctx)
    drivers.make_h_binding(ctx)
