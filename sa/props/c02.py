"""C02 — emu-mps TDVP dynamics (structural clauses)."""
from ..rules import canon, pure, drivers, perm, step, tdvp, mpoham

META = {
    "title": "emu-mps TDVP runs reproduce the Pulser Hamiltonian dynamics",
    "technique": "formal identity of the single-site MPO term against Pulser's drive Hamiltonian (literal operator tables, sa.ratfun); writer/reader agreement of the MPO automaton channels; static analysis: index-space typing (PERM), inductive step invariant of the driver by "
                 "path-sensitive abstract interpretation, rational splitting coefficients, bath event automata; path conditions of the sweep boundaries; call-order of the driver's init/run loop",
    "design_ref": "DESIGN.md §5 C02, A.1–A.3",
    "explanation": "GAUGE: every QR/LQ move of the orthogonality centre in the MPS read-out routines contracts the triangular factor into the neighbour on the right index (shared with C10/C11/C13). HAM-mps: update_H adds, per qubit, [[0, Omega/2 e^(-i phi)], [Omega/2 e^(+i phi), -delta]] (entries evaluated from the Operators tables, compared as formal identities) onto a copy of the noise term, writes term 0 to factors[0][0,:,:,0] and term i to factors[i][1,:,:,0] for every i in range(1, n), and the ten factor builders keep the identity channels (pending 1->1, done 0->0; first site 0->1) and leave that slot alone. PERM: drives, interaction matrix and initial state reach update_H/make_H/self.state in MPS "
                   "site order. STEP-mps: inductive invariant idx=i, current_time=T[i], target_time=T[i+1], "
                   "Hamiltonian rows=i (base case from class defaults/__init__/init, step by abstract execution "
                   "of sweep_complete→timestep_complete for the three driver classes). TDVP: per-path event "
                   "language and rational coefficients (+1/2 pair, -1/2 single, +1 turning pair) of both sweep "
                   "directions. BATHS: push/pop pairing, linkage of the pushed environment to the factor left "
                   "behind, rebuild after the Hamiltonian changes. UNITS-mps: time_step = -i*1e-3*dt exactly once. "
                   "HERM/ROLE-mps: is_hermitian = not has_lindblad_noise, tolerances = precision*extra_krylov_"
                   "tolerance, max_krylov_dim, dim, config plumbing.",
    "not_decided": "TDVP projection error, Krylov error, truncation error (runtime quantities)",
    "trusted_base": ["CPython ast", "sa.interp", "sa.algebra"],
    "assumptions": ["driver methods are invoked as MPSBackend._run does: init(); progress() until is_finished()"],
}


def check(ctx):
    from ..rules import kwswap
    kwswap.repo_wide(ctx, ("emu_mps", "emu_base"), 180)
    K = "emu_mps.mps_backend_impl."
    for cls in ("MPSBackendImpl", "NoisyMPSBackendImpl", "DMRGBackendImpl"):
        perm.check_impl(ctx, K + cls, {"drive", "matrix", "state", "permfield"})
    step.step_mps(ctx)
    step.hamiltonian_refresh(ctx)
    step.mps_initial_state(ctx)
    tdvp.tdvp_moves(ctx)
    tdvp.corner_case(ctx)
    tdvp.bath_pairing(ctx, K + "MPSBackendImpl", ["_left_to_right_update_tdvp", "_right_to_left_update_tdvp"])
    tdvp.evolve_plumbing(ctx)
    tdvp.no_bypass(ctx)
    tdvp.solver_units_and_tolerances(ctx)
    ctx.floor("PERM-sink", 9)
    ctx.floor("STEP-mps", 30)
    ctx.floor("TDVP", 6)
    ctx.floor("BATHS-pairing", 4)
    ctx.floor("UNITS-mps", 6)
    ctx.floor("HERM", 4)
    drivers.run_loops(ctx)
    drivers.progress_dispatch(ctx)
    drivers.init_sequence(ctx)
    drivers.sweep_boundaries(ctx)
    pure.check(ctx, [], ["emu_mps.optimatrix.optimiser", "emu_mps.optimatrix.permutations"])
    mpoham.local_term(ctx)
    mpoham.channels(ctx)
    ctx.floor("HAM-mps", 12)
    canon.gauge_moves(ctx)   # the values C02 compares are read off moved orthogonality centres
    drivers.adapter_column_order(ctx)
    drivers.make_h_binding(ctx)
