"""C32 — qubit-order optimisation returns a valid, no-worse permutation (structural clauses)."""
from ..rules import pure, config

META = {
    "title": "Qubit-order optimisation returns a valid, no-worse permutation",
    "technique": "static analysis: provenance-term shape of the arg-min (candidate set contains the identity, "
                 "result = first component of min by bandwidth), path analysis of the improvement loop, "
                 "gather/scatter classification of the permutation helpers",
    "design_ref": "DESIGN.md §5 C32",
    "explanation": "ARGMIN: minimize_bandwidth chains [arange(L)] in front of the random start permutations, maps "
                   "minimize_bandwidth_impl over them and returns the first component of min(..., key=bandwidth) — "
                   "so the result is no worse than the identity start; minimize_bandwidth_impl replaces the "
                   "accumulated permutation only on strict improvement, by gathering it with the round's "
                   "permutation, and returns the matching bandwidth. ARGMIN-helpers: permute_list/tuple/string/"
                   "tensor are all gather-type with the same permutation argument, inv_permutation is the scatter "
                   "of arange, eye_permutation is arange — the mutual consistency PERM relies on.",
    "not_decided": "that SciPy's reverse Cuthill-McKee returns a permutation; numerical bandwidth values",
    "trusted_base": ["CPython ast", "sa.interp", "semantics of min(), itertools.chain, torch indexing"],
    "assumptions": [],
}


def check(ctx):
    config.argmin(ctx)
    ctx.floor("ARGMIN", 5)
    ctx.floor("ARGMIN-helpers", 6)
    pure.check(ctx, [], ["emu_mps.optimatrix.optimiser", "emu_mps.optimatrix.permutations"])
