"""C17 — emu-mps quantum-jump trajectories: noise plumbing (structural clauses)."""
from ..rules import drivers, observables, adapter, jump, noise, step, tdvp, mpoham, kernels

META = {
    "title": "emu-mps quantum-jump trajectories reproduce Lindblad dynamics on average",
    "technique": "static analysis: provenance of the noise term and jump operators through the noisy driver, "
                 "loop-order vs. tensor-layout agreement of the jump candidates, event order after a jump; polynomial normal form of the jump gap and noise term; provenance of the noise model",
    "design_ref": "DESIGN.md §5 C17",
    "explanation": "APPLY-op: the jump operator is applied by MPS.apply with its column index contracted (not its transpose: the relaxation jump |g><r| would become an excitation). ROLE-noise: lindblad_ops = SequenceData.lindblad_ops; lindblad_noise = "
                   "compute_noise_from_lindbladians(ops, dim) is computed before the Hamiltonian is filled and is "
                   "the noise= argument of every evolution update_H, zero in update_H_no_noise which precedes "
                   "fill_results; aggregated_lindblad_ops = stack(L)† @ stack(L); the random.choices candidate "
                   "list (site outer, operator inner) matches expect_batch(...)[site, operator].view(-1); after a "
                   "jump: apply → orthogonalize(0) → normalise → init_baths → set_jump_threshold(‖ψ‖²). "
                   "HERM: is_hermitian = not has_lindblad_noise reaches both Krylov calls.",
    "not_decided": "convergence of trajectory averages to the master equation (statistical)",
    "trusted_base": ["CPython ast", "sa.interp", "row-major semantics of Tensor.view(-1)"],
    "assumptions": [],
}


def check(ctx):
    noise.mps_noise_plumbing(ctx)
    jump.noisy_timestep(ctx)
    tdvp.evolve_plumbing(ctx)
    ctx.floor("ROLE-noise", 8)
    adapter.noise_source(ctx)
    step.step_mps(ctx)
    observables.noise_term(ctx)
    drivers.create_impl_table(ctx)
    drivers.normalised_copies(ctx)
    drivers.jump_gap(ctx)
    mpoham.local_term(ctx)
    kernels.mps_apply_operator(ctx)
