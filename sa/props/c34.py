"""C34 — multi-trajectory results aggregate all simulated trajectories (structural clauses)."""
from ..rules import adapter

META = {
    "title": "Multi-trajectory results aggregate all simulated trajectories",
    "technique": "static analysis: loop-shape and def-use analysis of both run() methods and of the trajectory "
                 "generator",
    "design_ref": "DESIGN.md §5 C34",
    "explanation": "TRAJ: in MPSBackend.run and SVBackend.run the single loop iterates pulser_data.get_sequences() "
                   "without break/continue/filter, appends the result of exactly one "
                   "_run_from_sequence_data(sequence_data, self._config) per iteration and returns "
                   "Results.aggregate(<that list>); PulserData is built from the backend's own sequence, config "
                   "and config.dt; the generator yields once per repetition of every noise trajectory and "
                   "n_trajectories is forwarded to Pulser.",
    "not_decided": "Pulser's averaging in Results.aggregate; the number of trajectories Pulser generates",
    "trusted_base": ["CPython ast", "sa.interp (list.append on local lists is modelled)"],
    "assumptions": [],
}


def check(ctx):
    adapter.traj_runs(ctx, "emu_mps.mps_backend.MPSBackend")
    adapter.traj_runs(ctx, "emu_sv.sv_backend.SVBackend")
    adapter.traj_reps(ctx)
    adapter.grid(ctx)
    ctx.floor("TRAJ", 4)
    adapter.noise_source(ctx)
