"""C26 — resuming from an autosave gives the same results as an uninterrupted run (structural clauses)."""
from ..rules import drivers, perm, save

META = {
    "title": "Resuming from an autosave gives the same results as an uninterrupted run",
    "technique": "who-compares-by-identity query over the methods of the pickled class hierarchy with class-hierarchy resolution of the compared constant; static analysis: sibling entry points must apply the same post-processing (index-space "
                 "typing of the returned results), must-pass-through of the autosave removal, pickle hook pairing; whole-dictionary frame condition of the pickle hooks; who-may-call of save_simulation",
    "design_ref": "DESIGN.md §5 C26",
    "explanation": "PICKLE-identity: every `is` / `is not` test on a field of the pickled driver compares with None/True/False or an Enum member (a singleton after unpickling; a string or plain class attribute is a new object after resume, so the test silently flips). ENTRY: run (via _run_from_sequence_data) and resume both return results typed register-order "
                   "by PERM, i.e. both go through permute_results under the reordering flag; _run removes the "
                   "autosave file on every normal return and returns impl.results; resume re-points "
                   "impl.autosave_file at the resumed file. PICKLE: every entry __getstate__ serialises with "
                   "_to_abstract_repr is restored with _from_abstract_repr of the same key, observables are "
                   "re-patched on load, __dict__ is restored wholesale and no driver class has a mutable "
                   "class-level default (all evolving state is pickled). "
                   "PICKLE-whole: __getstate__ returns a copy of the whole __dict__ with no entry removed and __setstate__ recomputes nothing besides the transformed entries.",
    "not_decided": "value equality of resumed and uninterrupted runs; distribution equality for noisy runs; "
                   "re-aggregation of earlier trajectories of a multi-trajectory run (observation O2)",
    "trusted_base": ["CPython ast", "sa.interp", "PERM tables (sa/rules/perm.py)"],
    "assumptions": ["pickle restores every picklable attribute of __dict__ faithfully"],
}


def check(ctx):
    perm.check_entry_points(ctx, ["run", "resume", "_run_from_sequence_data"])
    save.run_removes_autosave(ctx)
    save.resume_rebinds_file(ctx)
    save.pickle_pairing(ctx)
    ctx.floor("PERM-entry", 3)
    ctx.floor("PICKLE-pairing", 4)
    drivers.results_helpers(ctx)
    drivers.autosave_content(ctx)
    drivers.autosave_callers(ctx)
    save.identity_tests_survive_pickling(ctx)
