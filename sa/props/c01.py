"""C01 — emu-sv noiseless dynamics (structural clauses)."""
from ..rules import drivers, step, axes

META = {
    "title": "emu-sv noiseless runs reproduce the Pulser Hamiltonian dynamics",
    "technique": "static analysis: path-sensitive abstract interpretation of the emu-sv driver loop with a "
                 "symbolic step index; affine normal forms of time/row indices; argument-role binding; flag/branch mapping of the phase-free fast path; polynomial shape of the generator",
    "design_ref": "DESIGN.md §5 C01, A.2",
    "explanation": "STEP-sv/UNITS-sv/ROLE-sv/HERM: symbolic evaluation of SVBackendImpl._run → step(k) shows that "
                   "step k hands the stepper dt = 1e-3·(T[k+1]−T[k]), rows omega[k], delta[k], phi[k], the "
                   "interaction matrix at a time inside [T[k],T[k+1]], the current state data, "
                   "config.krylov_tolerance and the Lindblad list, positionally in the order both stepper "
                   "classes declare; the state is stored from the stepper's first result before observables "
                   "are applied with index k+1; the loop runs range(nsteps); the generator is −i·dt·H with "
                   "is_hermitian=True. "
                   "Every path of EvolveStateVector.evolve exponentiates (no early return skips the Krylov step); HAM-form: the drive term is applied for every qubit and the diagonal is −ΣΔ_i n_i + Σ_{i<j} U_ij n_i n_j over all pairs.",
    "not_decided": "that the propagator's numbers equal exact evolution or Pulser's (Krylov and discretisation "
                   "errors are runtime quantities)",
    "trusted_base": ["CPython ast", "sa.interp", "sa.algebra polynomial normal form"],
    "assumptions": ["self.stepper only holds the classes assigned in SVBackendImpl.__init__",
                    "torch.autograd.Function.apply forwards its arguments positionally to forward(ctx, ...)"],
}


def check(ctx):
    from ..rules import kwswap
    kwswap.repo_wide(ctx, ("emu_sv", "emu_base"), 80)
    step.step_sv(ctx)
    step.role_sv_steppers(ctx)
    step.sv_initial_state(ctx)
    ctx.floor("STEP-sv", 8)
    ctx.floor("ROLE-sv", 10)
    ctx.floor("UNITS-sv", 2)
    ctx.floor("HERM", 1)
    from ..rules import observables
    observables.hamiltonian_structure(ctx)
    step.sv_initial_hamiltonian(ctx)
    drivers.phase_shortcut(ctx)
    drivers.sv_current_hamiltonian(ctx)
    drivers.sv_solver_table(ctx)
    drivers.adapter_column_order(ctx)
    axes.diagonal_builders(ctx)
