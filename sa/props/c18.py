"""C18 — quantum-jump stepping completes every time step once, in order (state-machine shape)."""
from ..rules import noise, drivers, jump, once

META = {
    "title": "Quantum-jump stepping completes every time step once, in order, and terminates",
    "technique": "static analysis: per-path event language of NoisyMPSBackendImpl.sweep_complete against a four-"
                 "state automaton, field-ownership (who-may-write) of the step bookkeeping, who-may-call; polynomial normal form of every store to the jump gap; run-loop path conditions",
    "design_ref": "DESIGN.md §5 C18, A.4",
    "explanation": "JUMP-ownership: _timestep_index is written only by timestep_complete (+= 1), current_time only "
                   "by sweep_complete (from target_time), target_time only from target_times[idx+1], "
                   "target_times[1] or the root finder's next abscissa. JUMP-path: every path of the noisy "
                   "sweep_complete is exactly one of complete / start / iterate / jump with the prescribed events "
                   "and arguments (finder on [previous_time, current_time] with the two gaps; ordinate fed at the "
                   "current time; after a jump the step's end is re-targeted and the finder cleared); "
                   "timestep_complete is reached only from sweep_complete. ONCE as in C14.",
    "not_decided": "termination and the 1 ns location bound (they depend on the norm values, runtime)",
    "trusted_base": ["CPython ast", "sa.interp"],
    "assumptions": ["BrentsRootFinder keeps its bracket (C19 is not applicable)"],
}


def check(ctx):
    jump.sweep_complete_paths(ctx)
    once.mps(ctx)
    ctx.floor("JUMP-path", 5)
    ctx.floor("JUMP-ownership", 9)
    drivers.run_loops(ctx)
    noise.mps_noise_plumbing(ctx)
    drivers.jump_gap(ctx)
