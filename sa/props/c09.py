"""C09 — the DMRG solver: protocol clauses."""
from ..rules import drivers, canon, conv, dispatch

META = {
    "title": "The DMRG solver finds the ground state of the final Hamiltonian",
    "technique": "static analysis: per-path event analysis of the DMRG sweep (bath pairing/linkage, centre flag, "
                 "operands), guard analysis of the convergence gate, call-site argument provenance; path conditions of the sweep boundaries and of the restart",
    "design_ref": "DESIGN.md §5 C09",
    "explanation": "BATHS: each DMRG move pushes one environment and pops the opposite one, built from the factor "
                   "just left behind, and moves the sweep index accordingly. CENTER: the centre recorded after the "
                   "two-site minimisation follows the flag given to minimize_energy_pair (itself 'sweeping left to "
                   "right'); sites idx, idx+1 are minimised and written back. CONV-gate: timestep_complete is "
                   "reached only where convergence_check(|E−E_prev| < tol) holds, otherwise a RuntimeError once "
                   "max_sweeps is exceeded; at the left end the state is orthogonalised on site 0 and the sweep "
                   "counted before the gate. ROLE/TRUNCARGS: residual_tolerance = config.precision, Krylov norm "
                   "tolerance = precision·extra_krylov_tolerance, split with config.precision/max_bond_dim. CONV: "
                   "the Lanczos client uses the raising entry. DISPATCH: create_impl/DMRG refuse noise. "
                   "CONV-gate: every path of DMRGBackendImpl.progress that advances the time step has minimised the energy and passed convergence_check; timestep_complete is called from sweep_complete only.",
    "not_decided": "the energies reached (variational bound, gap-dependent accuracy)",
    "trusted_base": ["CPython ast", "sa.interp", "sa.algebra"],
    "assumptions": [],
}


def check(ctx):
    canon.dmrg_protocol(ctx)
    canon.dmrg_gate_everywhere(ctx)
    canon.truncargs(ctx)
    from ..rules import tdvp
    tdvp.solver_units_and_tolerances(ctx)
    conv.clients_use_raising_entry(ctx, "emu_base.math.krylov_energy_min.krylov_energy_minimization", 1)
    dispatch.solver(ctx)
    ctx.floor("CONV-gate", 4)
    ctx.floor("CENTER", 3)
    drivers.progress_dispatch(ctx)
    drivers.sweep_boundaries(ctx)
    drivers.dmrg_restart(ctx)
    conv.entry_raises(ctx, "emu_base.math.krylov_energy_min.krylov_energy_minimization", {"converged", "happy_breakdown"}, "krylov_energy_minimization")
