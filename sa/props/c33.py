"""C33 — configuration safeguards are always applied."""
from ..rules import drivers, config, dispatch, tagkey, tdvp

META = {
    "title": "Configuration safeguards are always applied",
    "technique": "static analysis: path-sensitive analysis of MPSConfig.__init__ (every returning path has "
                 "passed / applied each safeguard), constant evaluation, whitelist/handler table agreement, "
                 "dispatch path analysis of create_impl",
    "design_ref": "DESIGN.md §5 C33",
    "explanation": "CONFIG: on every returning path of MPSConfig.__init__ (a) the stored extra_krylov_tolerance is "
                   "1e-12/precision when precision·extra < 1e-12 and the requested value otherwise (constants "
                   "evaluated), and these two factors are exactly what every emu-mps Krylov call multiplies; "
                   "both floor factors being the effective options self.precision / self.extra_krylov_tolerance (not __init__'s keyword arguments, which backend_options={...} overrides); "
                   "(b) `self.autosave_dt > 10` has been asserted on the effective option; (c) optimize_qubit_ordering has been and-ed with "
                   "check_permutable_observables(), whose predicate is base-tag ⊆ whitelist and whose whitelist "
                   "agrees with the un-permutation handlers; (d) create_impl returns the DMRG driver whenever "
                   "solver==DMRG is possible and that driver refuses noise before anything else.",
    "not_decided": "Pulser's own validation of the base EmulationConfig options",
    "trusted_base": ["CPython ast", "sa.interp", "sa.algebra"],
    "assumptions": ["`assert` statements are active (the package is not run with python -O)"],
}


def check(ctx):
    config.mps_config(ctx)
    tdvp.solver_units_and_tolerances(ctx)
    tagkey.check(ctx)
    dispatch.solver(ctx)
    ctx.floor("CONFIG-krylov-floor", 3)
    drivers.create_impl_table(ctx)
