"""C07 — Krylov exponentiation is honest about convergence."""
from ..rules import conv

META = {
    "title": "Krylov exponentiation is accurate and honest about convergence",
    "technique": "static analysis: path-sensitive guard analysis of result construction (converged=True only "
                 "under a passed tolerance test), must-raise analysis of the public entry, who-may-call",
    "design_ref": "DESIGN.md §5 C07",
    "explanation": "CONV: in krylov_exp_impl every KrylovExpResult(converged=True) lies on a path where "
                   "`err < exp_tolerance` or `n2 < norm_tolerance` (the tolerance parameters themselves, not a "
                   "scaled copy) was taken true, and the exhausted-dimension exit reports converged=False; "
                   "krylov_exp returns only where the flag was tested true and raises otherwise; nobody but "
                   "krylov_exp calls the non-raising implementation; the 5 exponentiation sites of the repo go "
                   "through krylov_exp; double_krylov.lanczos returns only after a passed tolerance test.",
    "not_decided": "the 10×tolerance accuracy bound of a converged result (numerical)",
    "trusted_base": ["CPython ast", "sa.interp (loops abstracted by one symbolic iteration)"],
    "assumptions": ["RecursionError raised by krylov_exp is not caught by callers (no except clause in the packages)"],
}


def check(ctx):
    conv.result_honest(ctx, "emu_base.math.krylov_exp.krylov_exp_impl",
                       "emu_base.math.krylov_exp.KrylovExpResult", {"exp_tolerance", "norm_tolerance"}, vec_param="v")
    conv.entry_raises(ctx, "emu_base.math.krylov_exp.krylov_exp", {"converged"}, "krylov_exp")
    conv.who_may_call(ctx, {"emu_base.math.krylov_exp.krylov_exp_impl": {"emu_base.math.krylov_exp.krylov_exp"}})
    conv.clients_use_raising_entry(ctx, "emu_base.math.krylov_exp.krylov_exp", 5)
    conv.local_flag_guard(ctx, "emu_base.math.double_krylov.lanczos", {"tolerance"})
    ctx.floor("CONV-honest", 3)
    conv.no_flag_rewrite(ctx, ("emu_base.math.krylov_exp", "emu_base.math.double_krylov", "emu_sv.time_evolution", "emu_mps.solver_utils"), {"converged", "happy_breakdown"})
