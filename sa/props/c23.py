"""C23 — interactions follow the register, cutoff, custom matrix and SLM schedule (provenance clauses)."""
from ..rules import pure, adapter, dark, step, drivers

META = {
    "title": "Interactions follow the register, cutoff, custom matrix and SLM schedule",
    "technique": "static analysis: provenance of the interaction matrix through get_sequences (source "
                 "preference, clone-before-edit effect analysis, mask pattern, SLM rows/columns), branch table of "
                 "the time switch, affine form of the query time at each consumer; event ordering of cutoff and SLM copy; half-open-interval test of the query time",
    "design_ref": "DESIGN.md §5 C23",
    "explanation": "INTERACT: the full matrix is the user's config.interaction_matrix when given, else the "
                   "trajectory's register matrix; it is cloned before M[abs(M) < config.interaction_cutoff] = 0; "
                   "the masked matrix is a clone of it with rows and columns of every SLM target zeroed; "
                   "_InteractionMatrixCallable returns the masked matrix for t < slm_end_time and the full one "
                   "otherwise, slm_end_time = sequence._slm_mask_time[1] or 0.0; emu-mps queries it at a convex "
                   "combination of current_time/target_time, emu-sv at a convex combination of T[k], T[k+1]; "
                   "the qubit-order optimiser sees the end-of-sequence matrix. "
                   "The SLM-masked matrix is cloned from the matrix after the cutoff was applied. "
                   "DARK-sv: the emu-sv dark-atom wrapper returns, on every call, a fresh clone of the backend's own callable evaluated at the call's time with the bad atoms' rows and columns zeroed (no value cached across query times).",
    "not_decided": "symmetry and zero diagonal of Pulser's matrix; the case where the SLM end falls strictly "
                   "inside a step (no query time is exact then)",
    "trusted_base": ["CPython ast", "sa.interp", "sa.algebra"],
    "assumptions": ["torch boolean-mask assignment semantics"],
}


def check(ctx):
    adapter.interact(ctx)
    adapter.consumers(ctx)
    step.hamiltonian_refresh(ctx)
    step.step_sv(ctx)
    ctx.floor("INTERACT", 8)
    pure.check(ctx, [], ["emu_mps.optimatrix.optimiser", "emu_mps.optimatrix.permutations"])
    dark.sv_completeness(ctx)
    drivers.custom_interaction_matrix(ctx)
    drivers.make_h_binding(ctx)
