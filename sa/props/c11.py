"""C11 — MPS/MPO operations: frame condition and symbol tables."""
from ..rules import kernels, canon, pure, tables

META = {
    "title": "MPS/MPO operations are faithful to their dense counterparts",
    "technique": "static analysis: interprocedural mutates-parameter effect summaries with flow-insensitive alias "
                 "sets (frame condition), literal evaluation of the operator-symbol and basis-vector tables; QR gauge-move idiom table; loop-structure check of the term buffers",
    "design_ref": "DESIGN.md §5 C11",
    "explanation": "APPLY-op: MPS.apply(k, A) stores sum_j A[i,j]*factor[a,j,b] - the operator's column index is contracted with the physical leg (matmul from the left, tensordot over ([1],[1]) with the transposition back, or einsum 'ij,ajb->aib'); contracting the row index applies the transpose. PURE: for every public method of MPS and MPO and every function of algebra.py / utils.py, the set "
                   "of parameters whose reachable tensors or object state may be mutated (augmented assignment, "
                   "subscript/attribute store, trailing-underscore torch method, list mutation, or passing to a "
                   "callee that mutates) is empty, except for the documented in-place table {orthogonalize, "
                   "truncate, apply, constructors, truncate_impl, assign_devices} and for mutations that go "
                   "exclusively through MPS.orthogonalize (a gauge change that leaves the represented state "
                   "unchanged). TABLES: each operator symbol 'ab' of the three MPO bases is the single 1 at "
                   "[idx(a), idx(b)] with idx(g/0)=0, idx(r/1)=1, idx(x)=2; amplitude strings map r/1→level 1, "
                   "x→level 2, else level 0; MPS.make builds |g…g>. "
                   "CENTER-scale: scale_factors multiplies exactly factors[which]; MPS.__rmul__ scales the factor at the orthogonality centre it passes on. TABLES-terms (MPO): the per-site buffer is reset to identities for every term, each target slot receives its entry's operator, coeff·term is accumulated once.",
    "not_decided": "numerical agreement with dense linear algebra within the truncation precision",
    "trusted_base": ["CPython ast", "the VIEW_METHODS/IN_PLACE tables in sa/rules/pure.py"],
    "assumptions": ["aliasing is tracked through names, attributes, subscripts, view-like methods and loop "
                    "targets; tensors returned by other calls are assumed fresh"],
}


def check(ctx):
    pure.check(ctx, ["emu_mps.mps.MPS", "emu_mps.mpo.MPO"], ["emu_mps.algebra", "emu_mps.utils"])
    tables.mps_tables(ctx)
    tables.operator_terms(ctx, ("MPO",))
    canon.scaling(ctx)
    ctx.floor("PURE", 30)
    ctx.floor("TABLES-mpo", 17)
    canon.gauge_moves(ctx)
    kernels.symbolic_operator_builder(ctx)
    kernels.mps_apply_operator(ctx)
