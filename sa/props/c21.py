"""C21 — the simulation time grid covers the sequence and every evaluation time (structural clauses)."""
from ..rules import drivers, once, adapter, step

META = {
    "title": "The simulation time grid covers the sequence and every evaluation time",
    "technique": "static analysis: provenance-term shape of the grid construction (sorted set, affine grid "
                 "element, single duration), loop-nesting of the trajectory generator, loop bounds of the drivers; path enumeration over the statement CFG of the time-merge loop",
    "design_ref": "DESIGN.md §5 C21",
    "explanation": "GRID: _get_target_times returns sorted(<set>) (strictly increasing) of t·duration over a "
                   "relative set that contains {i·dt/duration : i∈range(floor(duration/dt)+1)} (starts at 0, "
                   "every multiple of dt), 1.0 and every observable time, with one duration = get_duration("
                   "include_fall_time=config.with_modulation); the same flag goes to the sampler together with "
                   "the noise model and n_trajectories. TRAJ-reps: the SequenceData yield sits in `for _ in "
                   "range(samples.reps)` inside `for samples in noisy_samples`. One solver step per interval: "
                   "emu-sv loops range(nsteps) with nsteps = drive rows = len(T)-1 (STEP-sv O8).",
    "not_decided": "rounding of the last grid point; Pulser's own sampling",
    "trusted_base": ["CPython ast", "sa.interp", "sa.algebra"],
    "assumptions": ["math.floor/sorted/set have their standard semantics"],
}


def check(ctx):
    adapter.grid(ctx)
    adapter.merge_close_times(ctx)
    adapter.unique_observable_times(ctx)
    adapter.traj_reps(ctx)
    step.step_sv(ctx)
    ctx.floor("GRID", 8)
    once.filter_tolerance(ctx)
    drivers.evaluation_time_filter(ctx)
