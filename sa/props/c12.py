"""C12 — state-vector and density-matrix objects: symbol tables and frame condition."""
from ..rules import kernels, pure, tables

META = {
    "title": "State-vector and density-matrix objects are faithful to their definitions",
    "technique": "static analysis: literal evaluation and cross-comparison of the dense/sparse/MPO symbol tables and "
                 "of the amplitude-string index map; interprocedural mutates-parameter effect summaries",
    "design_ref": "DESIGN.md §5 C12",
    "explanation": "TABLES: DenseOperator and SparseOperator define gg, gr, rg, rr as the single 1 at [idx(a), "
                   "idx(b)], key-for-key equal to each other and to the MPO table; StateVector decodes an amplitude "
                   "string with r→'1', g→'0', int(…, 2) (first atom most significant) and stores each amplitude at "
                   "that index; index_to_bitstring is the inverse convention. PURE: public methods of StateVector, "
                   "DensityMatrix, DenseOperator, SparseOperator do not mutate their operands (constructors and the "
                   "private _normalize excepted). "
                   "TABLES-terms (Dense, Sparse, MPO): the per-site buffer is reset to identities for every term, each target slot receives its entry's operator, coeff·kron(term) is accumulated once per term.",
    "not_decided": "numerical equality with Kronecker-product constructions and dense linear algebra",
    "trusted_base": ["CPython ast", "tables in sa/rules/pure.py"],
    "assumptions": ["same aliasing assumptions as C11"],
}


def check(ctx):
    dec = tables.mps_tables(ctx)
    tables.sv_tables(ctx, dec)
    tables.operator_terms(ctx)
    pure.check(ctx, ["emu_sv.state_vector.StateVector", "emu_sv.density_matrix_state.DensityMatrix",
                     "emu_sv.dense_operator.DenseOperator", "emu_sv.sparse_operator.SparseOperator"],
               ["emu_sv.utils"])
    ctx.floor("TABLES-sv", 12)
    ctx.floor("PURE", 25)
    kernels.symbolic_operator_builder(ctx)
    kernels.sparse_csr_from_coalesced(ctx)
