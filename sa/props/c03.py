"""C03 — results independent of atom labelling and internal qubit reordering."""
from ..rules import drivers, config, perm, tagkey

META = {
    "title": "Results are independent of atom labelling and internal qubit reordering",
    "technique": "static analysis: index-space (register vs. site order) typing of per-atom values by abstract "
                 "interpretation over provenance terms; source/converter/sink tables",
    "design_ref": "DESIGN.md §5 C03, A.1",
    "explanation": "PERM: every per-atom value of emu-mps is typed REG (register order), SITE (MPS site order), "
                   "PERM/INVPERM; register-ordered sources (drives, interaction matrix, initial state, bad-atom "
                   "mask, qubit ids) must be gathered with the qubit permutation before meeting site-ordered "
                   "data; masks must live in the space of what they index; every public MPSBackend entry point "
                   "returns results un-permuted with the inverse permutation; permute_results re-indexes every "
                   "per-atom result; whitelist/handler tables agree (TAGKEY).",
    "not_decided": "numerical equality up to the configured precision; that the optimiser returns a permutation (C32)",
    "trusted_base": ["CPython ast", "sa.interp path-sensitive term interpreter", "tables in sa/rules/perm.py "
                     "(sources, gather converters, sinks, propagating attributes)"],
    "assumptions": ["permutation helpers are gather-type (checked under C32)",
                    "attribute types come from annotations and constructor assignments"],
}


def check(ctx):
    K = "emu_mps.mps_backend_impl."
    for cls in ("MPSBackendImpl", "NoisyMPSBackendImpl", "DMRGBackendImpl"):
        perm.check_impl(ctx, K + cls, {"drive", "matrix", "state", "results", "permfield"})
    perm.check_entry_points(ctx, ["run", "resume", "_run_from_sequence_data"])
    perm.check_permute_results_body(ctx)
    tagkey.check(ctx)
    config.helpers_gather(ctx)   # PERM's transfer functions assume gather-type helpers
    ctx.floor("PERM-sink", 9)
    drivers.results_helpers(ctx)
    drivers.adapter_column_order(ctx)
    drivers.adapter_column_ids(ctx)
