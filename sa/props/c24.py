"""C24 — noise-model channels act on the intended atomic levels."""
from ..rules import adapter, dispatch, drivers, noise

META = {
    "title": "Noise-model channels act on the intended atomic levels",
    "technique": "static analysis: literal evaluation of the jump-operator entry tables and square-root rate "
                 "arguments per noise type; region analysis of the Pulser→emulator basis change; pairing check of rates and operators; provenance of the noise model per path",
    "design_ref": "DESIGN.md §5 C24, A.9",
    "explanation": "BASIS-rate: each rate enters under math.sqrt with Pulser's divisor (relaxation 1, dephasing 2, "
                   "depolarizing 4, eff_noise: its own rate). BASIS-table: relaxation writes [0,1] (|g><r|), "
                   "dephasing diag(1,-1), depolarizing the three Pauli patterns, all in zeros(dim,dim) and in "
                   "units of the coefficient. BASIS: in the eff_noise/ising branch the r↔g relabelling must cover "
                   "every row and column touching levels 0/1 unless a guard pins dim to 2; XY operators are "
                   "untouched; shapes are validated against (dim, dim). DISPATCH: unknown types raise, "
                   "hyperfine dephasing is refused. "
                   "BASIS-rate: effective-noise rates and operators are paired one-to-one (zip of eff_noise_rates with one tensor per eff_noise_opers entry; only a filter on the zipped pairs that drops zero rates is accepted). "
                   "NOISE-forward: PulserData hands the jump-operator builder the dim and interaction_type of the sequence's HamiltonianData and the builder forwards them (no fallback to the callee defaults ising / 2).",
    "not_decided": "that Pulser's own operators are the intended physics; numerical values of the rates",
    "trusted_base": ["CPython ast", "sa.interp", "the divisor/entry tables in sa/rules/noise.py (from Pulser's "
                     "documentation of the channels)"],
    "assumptions": ["emulator basis convention (g, r[, x]) = (0, 1[, 2])"],
}


def check(ctx):
    noise.rates_and_tables(ctx)
    noise.eff_noise(ctx)
    dispatch.exhaustive(ctx)
    dispatch.noise_cover(ctx)
    ctx.floor("BASIS-rate", 4)
    ctx.floor("BASIS-table", 3)
    adapter.noise_source(ctx)
    dispatch.hamiltonian_type_table(ctx)
    drivers.noise_forwarding(ctx)
    ctx.floor("NOISE-forward", 2)
