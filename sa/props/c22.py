"""C22 — per-step drive values are the interpolated Pulser samples; amplitude never negative."""
from ..rules import kernels, adapter, drivers

META = {
    "title": "Per-step drive values are the interpolated Pulser samples",
    "technique": "static analysis: provenance of the interpolation (knots, signal key, midpoints), allocation-"
                 "site identity for the name→array→return-position→dataclass-field chain, region taint analysis "
                 "of the non-negativity clamp; polynomial identity of the PCHIP evaluation against Σ p_k t^k",
    "design_ref": "DESIGN.md §5 C22, A.7",
    "explanation": "STEP-adapter: each of amp/det/phase is PCHIP1D(arange(T_end), signal[key]) evaluated at "
                   "½(T[:-1]+T[1:]) and stored in the whole column of the array bound to that key; arrays are "
                   "returned in the order (amp, det, phase), unpacked as (omega, delta, phi) and passed "
                   "positionally into SequenceData, whose 11 fields each receive the matching quantity. CLAMP: "
                   "PCHIP output is possibly negative; only a non-negativity clamp (where(x>0,x,0), clamp(min=0), "
                   "relu, maximum(x,0)) sanitises, and only the region it is stored to; no tainted region of the "
                   "amplitude array may remain at return; detuning/phase must not be clamped. "
                   "PCHIP-end: _limit_endpoint zeroes the three-point end slope whenever its sign differs from the boundary "
                   "secant's (a zero secant included: a flat first/last interval stays flat), caps it at 3x that secant, "
                   "and both ends pass (boundary secant, next secant) in that order.",
    "not_decided": "the interpolated values themselves (C20 is not applicable)",
    "trusted_base": ["CPython ast", "sa.interp with allocation-site identity for torch.zeros", "sa.algebra"],
    "assumptions": ["dict iteration order is insertion order"],
}


def check(ctx):
    adapter.step_adapter(ctx)
    adapter.clamp(ctx)
    ctx.floor("STEP-adapter", 5)
    ctx.floor("CLAMP", 2)
    kernels.pchip_evaluation(ctx)
    kernels.pchip_end_slopes(ctx)
    drivers.adapter_column_order(ctx)
    drivers.adapter_column_ids(ctx)
