"""C06 — emu-sv operators: CPU and batched (GPU) paths agree (structural clause)."""
from ..rules import drivers, device, observables, axes

META = {
    "title": "emu-sv operators apply exactly the Hamiltonian and Lindbladian they represent",
    "technique": "static analysis: sibling-branch comparison of the two device arms (normalised operands) and "
                 "literal evaluation of the batched kernel's accumulation table",
    "design_ref": "DESIGN.md §5 C06",
    "explanation": "HAM-form (diagonal builders): both _create_diagonal implementations (Hamiltonian and Lindbladian) cover every pair i<j unconditionally on the level-1 slices, the Hamiltonian one also subtracts deltas[i] once per i. DEVICE: at each `if x.is_cpu: y = A @ B else: y = matmul_2x2_with_batched(A', B')` site "
                   "(2 in lindblad_operator.py) the two arms take the same operands (including .conj()) and "
                   "assign the same target; matmul_2x2_with_batched's four index_add_ calls form the table "
                   "{(r,c)} with alpha=left[r,c], destination row r, source right[:,c], starting from zeros. "
                   "No CUDA device exists in this sandbox, so the non-CPU arm is executed by no test. "
                   "LINDBLAD-form/HAM-form: h_eff and the σ-term loops cover every qubit unconditionally, the interaction term is added once, the jump term sums over every qubit and operator.",
    "not_decided": "equality of the operators with the dense Hamiltonian/Lindbladian (numerical)",
    "trusted_base": ["CPython ast", "semantics of torch.Tensor.index_add_, select, unsqueeze"],
    "assumptions": [],
}


def check(ctx):
    device.sibling_arms(ctx)
    device.batched_kernel(ctx)
    observables.lindbladian_structure(ctx)
    observables.hamiltonian_structure(ctx)
    drivers.phase_shortcut(ctx)
    axes.diagonal_builders(ctx)
