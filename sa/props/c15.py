"""C15 — sampled bitstrings: readout-error roles and bit conventions (structural clauses)."""
from ..rules import sampling

META = {
    "title": "Sampled bitstrings follow the state's measurement distribution",
    "technique": "static analysis: keyword pass-through (argument-selection) check along the three sample() "
                 "chains, path table of the readout model, loop-shape of the error injection; path table of the three samplers with an infeasibility filter on the level count",
    "design_ref": "DESIGN.md §5 C15",
    "explanation": "KWSWAP: p_false_pos / p_false_neg flow unswapped from MPS.sample, StateVector.sample and "
                   "DensityMatrix.sample through apply_measurement_errors into readout_with_error. ROLE-readout: "
                   "the path table of readout_with_error is {('0'→'1'): r < p_false_pos, ('1'→'0'): r < "
                   "p_false_neg, otherwise unchanged}; every occurrence of a bitstring is redrawn and counted "
                   "once; MPS writes '1' exactly for level 1; emu-sv formats the basis index as a zero-padded "
                   "binary string; emu-sv applies errors whenever a rate is positive. "
                   "All three samplers apply measurement errors on every returning path on which a rate is positive (dim ∈ {2,3} used to discard the infeasible qudit path).",
    "not_decided": "every statistical clause (Born-rule distribution, exact shot count, independence)",
    "trusted_base": ["CPython ast", "sa.interp"],
    "assumptions": ["random.random() is uniform on [0,1)"],
}


def check(ctx):
    sampling.check(ctx)
    sampling.mps_sample_gauge(ctx)
    ctx.floor("KWSWAP", 8)
