"""C31 — every pulser-core version the package accepts can run the emulators."""
from ..rules import apicompat

META = {
    "title": "Every pulser-core version the package accepts can run the emulators",
    "technique": "static analysis: cross-package signature/attribute checking of the repo against the installed "
                 "Pulser source (parsed, never imported), PEP 440 evaluation of the declared specifier; comparison of the renormalisation guard with the constant read from the installed Pulser",
    "design_ref": "DESIGN.md §5 C31, A.10",
    "explanation": "APICOMPAT: for the offline-available pulser-core release admitted by the specifier declared in "
                   "pyproject.toml and ci/emu_base/pyproject.toml (which must agree): every imported Pulser name "
                   "exists; every super().__init__ of a repo subclass of a Pulser class binds to the base "
                   "constructor (required keyword-only parameters included); concrete subclasses define every "
                   "abstract member; direct calls of Pulser callables bind to their signatures; overrides and "
                   "monkey-patched observable implementations accept the keywords Pulser passes; attributes read "
                   "on parameters annotated with Pulser classes exist (or the class has dynamic attributes). "
                   "APICOMPAT-norm: MPS._from_state_amplitudes renormalises whenever |norm⁴−1| exceeds the tolerance read from the installed Pulser's State._to_abstract_repr, and MPS.overlap is |⟨a|b⟩|².",
    "not_decided": "behavioural changes that keep signatures (e.g. the rank of NoiseTrajectory.interaction_matrix, "
                   "3 in 1.9.1); releases admitted by the specifier but not available offline (1.8.x)",
    "trusted_base": ["CPython ast", "packaging.specifiers", "the installed pulser-core source tree"],
    "assumptions": ["only pulser-core 1.9.1 is available in the sandbox; the check is relative to it"],
}


def check(ctx):
    apicompat.check(ctx)
    apicompat.serialisation_tolerance(ctx)
    ctx.floor("APICOMPAT-import", 30)
    ctx.floor("APICOMPAT-super", 5)
    ctx.floor("APICOMPAT-abstract", 10)
    apicompat.base_instance_state(ctx)
    apicompat.interaction_matrix_rank(ctx)
