"""C13 — every reported observable equals its definition on the current state (plumbing + definition shape)."""
from ..rules import drivers, step, canon, dark, jump, observables, once, axes

META = {
    "title": "Every reported observable equals its definition on the current state",
    "technique": "static analysis: provenance of the (state, Hamiltonian, time, results) handed to callbacks on "
                 "every path of both drivers, event order in the noisy driver, expression-shape checks of the "
                 "built-in implementations; dispatch table of observable class → implementation; QR gauge-move idiom table; polynomial normal form of the normalised state; exponent arithmetic of view-axis selections (polynomial identities in the loop variables); post-state heap of _evolve_step on every path",
    "design_ref": "DESIGN.md §5 C13",
    "explanation": "OBSDEF-axis: the emu-sv occupation and correlation routines (state vector and density matrix) select level 1 of exactly the qubit(s) each entry is stored under - the exponents in front of the selected view axis sum to i, resp. j-1 after qubit i was removed, as polynomial identities in the loop variables - over every qubit and every pair i<j, mirrored; sum of diagonal entries for rho, squared norm for psi. ROLE-sv: on every path of emu-sv's _evolve_step, (state.data, _current_H) are the two components of this step's stepper.apply(...), and _apply_observables rebuilds a generator only when none is stored (before the first step). ROLE-callback/ONCE: in both drivers every callback receives the run's config, the filter's "
                   "time, the current state (emu-mps: 1/‖ψ‖·ψ on the plain and on the dark-atom branch) and the "
                   "current Hamiltonian; on the dark branch state, Hamiltonian and orthogonality centre are padded "
                   "with the same filter; in the noisy driver update_H(noise=0) precedes fill_results. OBSDEF: "
                   "occupation uses the projector on level 1 sized by the state's dim, energy = Re<H>, second "
                   "moment = Re<H·H>, variance = <H²>−<H>², correlation = get_correlation_matrix() with n=|1><1|.",
    "not_decided": "numerical values and physical ranges of the observables",
    "trusted_base": ["CPython ast", "sa.interp"],
    "assumptions": ["monkeypatch_observables binds the implementations listed in the two config classes"],
}


def check(ctx):
    once.mps(ctx)
    once.sv(ctx)
    dark.mps_completeness(ctx)
    jump.noisy_timestep(ctx)
    observables.mps_definitions(ctx)
    observables.sv_definitions(ctx)
    ctx.floor("ROLE-callback", 9)
    ctx.floor("OBSDEF", 9)
    canon.gauge_moves(ctx)
    step.sv_initial_hamiltonian(ctx)
    once.filter_tolerance(ctx)
    drivers.observable_dispatch(ctx)
    drivers.normalised_copies(ctx)
    drivers.evaluation_time_filter(ctx)
    observables.sv_density_matrix_energy(ctx)
    drivers.sv_current_hamiltonian(ctx)
    axes.qubit_axes(ctx)
    ctx.floor("OBSDEF-axis", 4)
