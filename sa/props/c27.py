"""C27 — a loadable autosave always survives a crash during autosaving."""
from ..rules import drivers, save

META = {
    "title": "A loadable autosave always survives a crash during autosaving",
    "technique": "static analysis: abstract interpretation of a 3-file file-system model along every path of "
                 "save_simulation (typestate of the advertised file after each file-system step); who-may-call of save_simulation, must-precede of pickle.dump, no file-system effect before load in resume",
    "design_ref": "DESIGN.md §5 C27, A.5",
    "explanation": "SAVE: each file of {advertised, .new, .bak, …} is abstracted to {absent, partial, old, new}; "
                   "open-for-write makes a file partial until its `with` block closes, os.rename/os.replace move "
                   "atomically, os.remove deletes, shutil copies are non-atomic. Premise: a previous autosave "
                   "completed (advertised = old). Obligation: after every file-system step on every feasible "
                   "path the advertised file is old or new (any crash point lies between two such steps), and "
                   "it is new on return. resume() opens exactly the file it is given.",
    "not_decided": "durability against power loss (no fsync is required by the property); atomicity of "
                   "os.rename/os.replace is trusted",
    "trusted_base": ["CPython ast", "sa.interp", "POSIX/Windows atomicity of os.replace and os.rename onto a "
                     "non-existing name"],
    "assumptions": ["the process is the only writer of the autosave files",
                    "pickle.dump writes only through the handle it is given"],
}


def check(ctx):
    save.crash_safe(ctx)
    ctx.floor("SAVE-window", 1)
    drivers.progress_dispatch(ctx)
    drivers.autosave_content(ctx)
    drivers.autosave_callers(ctx)
