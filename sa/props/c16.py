"""C16 — emu-sv open-system runs: plumbing and generator shape (structural clauses)."""
from ..rules import drivers, adapter, device, observables, step, axes

META = {
    "title": "emu-sv open-system runs solve the Lindblad equation and stay physical",
    "technique": "static analysis: argument-role binding of the density-matrix stepper, polynomial normal form of "
                 "the Lindblad superoperator, sibling comparison of the device arms; flag-definition and branch mapping of the phase-free fast path; provenance of the noise model",
    "design_ref": "DESIGN.md §5 C16",
    "explanation": "HAM-form (diagonal builders): RydbergLindbladian._create_diagonal and its state-vector sibling add interaction_matrix[i, j] for every i and every j > i unconditionally (no if/break/continue) to the slice with both qubits in level 1 (exponent sums i and j-1). DISPATCH-sv: jump operators present => density-matrix stepper and state. ROLE-sv: the density-matrix stepper and DensityMatrix state are selected together exactly when "
                   "the sequence has Lindblad operators; EvolveDensityMatrix.apply has the positional parameter "
                   "list the driver uses and forwards each parameter to RydbergLindbladian under the same role, "
                   "SequenceData.lindblad_ops included; krylov_exp is called with is_hermitian=False, the "
                   "stepper's tolerance and state, generator −i·dt·(L ρ). LINDBLAD-form: i·L(ρ) = H_eff ρ − "
                   "(H_eff ρ)† + i·Σ L ρ L† with H_eff carrying −(i/2) Σ L†L and the same operator/qubit on both "
                   "sides of the jump term. DEVICE: the CPU and batched arms agree."
                   "h_eff covers every qubit (an idle atom keeps its −i/2 ΣL†L term), jump term over every qubit and operator.",
    "not_decided": "accuracy of the Lindblad evolution; Hermiticity, unit trace and positivity of the result",
    "trusted_base": ["CPython ast", "sa.interp", "sa.algebra"],
    "assumptions": [],
}


def check(ctx):
    from ..rules import kwswap
    kwswap.repo_wide(ctx, ("emu_sv", "emu_base"), 80)
    step.step_sv(ctx)
    step.role_sv_steppers(ctx)
    observables.lindblad_form(ctx)
    device.sibling_arms(ctx)
    device.batched_kernel(ctx)
    ctx.floor("LINDBLAD-form", 4)
    ctx.floor("HERM", 2)
    observables.lindbladian_structure(ctx)
    adapter.noise_source(ctx)
    drivers.phase_shortcut(ctx)
    observables.sv_density_matrix_energy(ctx)
    drivers.sv_current_hamiltonian(ctx)
    drivers.sv_solver_table(ctx)
    axes.diagonal_builders(ctx)
