"""C20 — PCHIP interpolation is exact at knots, C1 and shape-preserving (formula-identity clauses)."""
from ..rules import kernels, pchip

META = {
    "title": "PCHIP interpolation is exact at knots, C1 and shape-preserving",
    "technique": "static analysis: formal rational-function identities (cross-multiplied polynomial normal forms, "
                 "sa.ratfun) between the provenance terms the source computes and the reference PCHIP formulas; "
                 "argument-binding and store-region checks on the derivative array; term shape of the end limiter "
                 "and of the interval lookup",
    "design_ref": "DESIGN.md §10.11",
    "explanation": "PCHIP-hermite: the four coefficients returned by _polynomial_coeffs satisfy P(0)=y[i], "
                   "P'(0)=d[i], P(h)=y[i]+delta*h, P'(h)=d[i+1] identically in the symbols (so, with delta=(y[i+1]-y[i])/h "
                   "from PCHIP-setup and one derivative array shared by neighbouring intervals, the interpolant "
                   "reproduces the data and is C1 for every input). PCHIP-interior: _weighted_harmonic_mean is the "
                   "Fritsch-Carlson mean with weights 2h_r+h_l / h_r+2h_l and d[1:-1] is that mean of (delta[:-1], "
                   "delta[1:], h[:-1], h[1:]) where delta[k-1]*delta[k] > 0 and 0 elsewhere. PCHIP-endpoint: "
                   "_endpoint_slope is the one-sided three-point estimate and each end passes (its boundary secant, "
                   "the next, their widths) through the limiter; PCHIP-end: the limiter zeroes a slope whose sign "
                   "differs from the boundary secant's (zero included) and caps it at three times that secant. "
                   "PCHIP-two-points: two knots give the straight line. PCHIP-setup: h, delta, d are computed from "
                   "the validated, strictly increasing knots and fed to the coefficients. PCHIP-eval: the value is "
                   "the cubic of interval clamp(searchsorted(x, xq, right=True)-1, 0, n-2) at xq-x[i] (end cubics "
                   "extended outside the knots).",
    "not_decided": "floating-point rounding of the evaluated formulas; monotonicity itself is the Fritsch-Carlson "
                   "theorem about the formulas shown to be implemented (trusted mathematics, not re-proved)",
    "trusted_base": ["CPython ast", "sa.interp", "sa.ratfun / sa.algebra polynomial normal forms",
                     "the reference formulas written in sa/rules/pchip.py (Fritsch & Carlson 1980; Moler 2004 §3.4; "
                     "SciPy PchipInterpolator._find_derivatives/_edge_case)"],
    "assumptions": ["torch slicing/where/searchsorted semantics", "exact arithmetic for the identities"],
}


def check(ctx):
    pchip.hermite(ctx)
    pchip.interior(ctx)
    pchip.endpoint_formula(ctx)
    pchip.two_points(ctx)
    pchip.setup(ctx)
    kernels.pchip_end_slopes(ctx)
    pchip.end_cap(ctx)
    kernels.pchip_evaluation(ctx)
    ctx.floor("PCHIP-hermite", 5)
    ctx.floor("PCHIP-interior", 2)
    ctx.floor("PCHIP-endpoint", 3)
    ctx.floor("PCHIP-setup", 3)
    ctx.floor("PCHIP-end", 3)
    ctx.floor("PCHIP-eval", 2)
