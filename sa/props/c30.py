"""C30 — emu-sv gradients: three structural clauses (WGDIV, GRADPATH, AUTOGRAD)."""
from ..rules import kernels, grad

META = {
    "title": "emu-sv gradients equal finite differences of the emulated results",
    "technique": "static analysis: def-use slices of torch.where arguments vs. masks (where-guarded division), "
                 "taint analysis of graph-breaking operations on the forward path, structural contract check of "
                 "the custom autograd Function; polynomial normal form of the derivative operators' coefficients; interprocedural mutates-parameter summaries restricted to tensor storage (in-place rule)",
    "design_ref": "DESIGN.md §5 C30, A.8",
    "explanation": "GRADPATH-observable: the generator handed to the energy observables must not be an object created inside autograd.Function.forward (no graph is recorded there) - today it is (known finding K3). WGDIV: on the functions reachable from PCHIP1D (6 functions, 3 where() sites) no branch of a "
                   "torch.where divides by a value that is computed from the same data as the mask unless that "
                   "divisor went through a sanitising where/clamp first (forward is masked, backward would be "
                   "0·inf = nan); divisions by the knot spacings h are safe only while _validate_xy rejects "
                   "non-increasing knots. GRADPATH: no .item()/.detach()/.tolist()/.numpy()/float()/int()/"
                   "torch.tensor() is applied to a value derived from a differentiable input in the 30 forward-"
                   "path functions of emu-sv (adapter, PCHIP, driver, callbacks, Hamiltonian, state). AUTOGRAD: "
                   "backward returns one value per forward input in order, each gradient guarded by its "
                   "needs_input_grad[i] and computed with the matching dH/dθ operator, saved_tensors unpacked in "
                   "the order saved, opposite exponent signs for parameter and state gradients. "
                   "GRAD-ops: α of DHDOmegaSparse is ½·e^{iφ}, of DHDPhiSparse ½·Ω·e^{i(φ+π/2)} (polynomial normal form of the exponent), and the σˣ shortcut is selected only where φ was tested zero and α is real. AUTOGRAD-inplace: forward/backward of EvolveStateVector never write into the storage of a tensor input (interprocedural mutates-parameter summaries restricted to tensor storage).",
    "not_decided": "agreement of the gradients with finite differences (numerical)",
    "trusted_base": ["CPython ast", "sa.interp", "torch autograd semantics of where/division"],
    "assumptions": ["the list of forward-path functions in sa/rules/grad.py covers the differentiable path"],
}


def check(ctx):
    grad.wgdiv(ctx)
    grad.gradpath(ctx)
    grad.autograd(ctx)
    grad.derivative_ops(ctx)
    grad.inplace(ctx)
    ctx.floor("WGDIV", 3)
    ctx.floor("GRADPATH", 30)
    ctx.floor("AUTOGRAD", 10)
    kernels.pchip_evaluation(ctx)
    kernels.pchip_end_slopes(ctx)
    grad.backward_covers_every_qubit(ctx)
    grad.observable_generator_on_graph(ctx)
