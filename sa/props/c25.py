"""C25 — badly prepared atoms behave as absent, on both backends."""
from ..rules import drivers, dark, perm

META = {
    "title": "Badly prepared atoms behave as absent, on both backends",
    "technique": "static analysis: index-space typing of the bad-atom mask (PERM), effect/def-use analysis of "
                 "the filtering on both backends, constructor-argument provenance of the dark factors (PHYSDIM)",
    "design_ref": "DESIGN.md §5 C25, A.1, A.9",
    "explanation": "PERM(mask): the mask built from SequenceData.bad_atoms is register-ordered and must be "
                   "gathered into site order before it indexes the permuted interaction matrix / drives or is "
                   "handed to extended_mps_factors, extended_mpo_factors, get_extended_site_index. DARK-mps: the "
                   "filter keeps the not-bad atoms, restricts omega, delta, phi and both axes of the matrix, "
                   "rebuilds qubit_count, pads state/Hamiltonian/centre with the same filter, refuses a user "
                   "initial state. DARK-sv: omega of bad atoms is zeroed and their rows and columns are zeroed on "
                   "a clone of the matrix at every query. PHYSDIM: dark factors take their physical dimension "
                   "from the neighbouring factors, never a literal.",
    "not_decided": "that removing the atoms leaves the others' dynamics numerically unchanged; emu-mps raises "
                   "when fewer than two atoms are well prepared (K3, documented only)",
    "trusted_base": ["CPython ast", "sa.interp", "PERM tables"],
    "assumptions": ["torch boolean-mask indexing semantics"],
}


def check(ctx):
    K = "emu_mps.mps_backend_impl."
    for cls in ("MPSBackendImpl", "NoisyMPSBackendImpl"):
        perm.check_impl(ctx, K + cls, {"mask", "matrix", "drive"})
    dark.mps_completeness(ctx)
    dark.sv_completeness(ctx)
    dark.physdim(ctx)
    ctx.floor("PERM-sink", 9)
    ctx.floor("DARK-mps", 8)
    ctx.floor("DARK-sv", 3)
    ctx.floor("PHYSDIM", 4)
    drivers.init_sequence(ctx)
