"""C19 — Brent root finding terminates inside the bracket at a sign change (invariant-preservation clauses)."""
from ..rules import brent

META = {
    "title": "Brent root finding terminates inside the bracket at a sign change",
    "technique": "static analysis: Hoare-style invariant preservation over the paths of the abstract interpreter "
                 "(symbolic pre-state, post-state fields read off each returning path, sign and ordering facts "
                 "taken from the path conditions); rational-function identities for the midpoint and the "
                 "interpolation guards; event protocol of the driver loop",
    "design_ref": "DESIGN.md §10.12",
    "explanation": "BRENT-init: the constructor requires start <= end and f_start*f_end < 0 and stores the two given "
                   "points as paired (abscissa, ordinate) ends with |fb| <= |fa|, c = d = a. BRENT-bracket: on every "
                   "path of provide_ordinate the new point replaces the end whose ordinate has its sign (decided from "
                   "the path conditions and the invariant), abscissae and ordinates move together through the swap, "
                   "|fb| <= |fa| is re-established, current_guess = b, and the update is reached only when the ordinate "
                   "belongs to the abscissa that was requested (one-at-a-time feeding, as the jump solver does). "
                   "BRENT-inside: every path of get_next_abscissa returns either the midpoint b+(a-b)/2 (flag set) or "
                   "b+dx under the established guards |dx| < |3(a-b)/4|, dx*(a-b) >= 0 and the step-halving test "
                   "against |b-c|/2 resp. |c-d|/2, records it as next_abscissa and shifts the history (d<-c, c<-b). "
                   "BRENT-driver: is_converged is |b-a| < tolerance; find_root_brents loops until it holds, feeds each "
                   "requested abscissa back with f evaluated at it, and returns current_guess.",
    "not_decided": "termination itself (Brent's theorem about these guards, trusted mathematics) and floating-point "
                   "effects (e.g. a tolerance below the spacing of floats at the root)",
    "trusted_base": ["CPython ast", "sa.interp path conditions and heap", "sa.ratfun"],
    "assumptions": ["`assert` statements are active (the package is not run with python -O)"],
}


def check(ctx):
    brent.initial(ctx)
    brent.bracket(ctx)
    brent.inside(ctx)
    brent.driver(ctx)
    ctx.floor("BRENT-bracket", 16)
    ctx.floor("BRENT-init", 2)
    ctx.floor("BRENT-inside", 3)
    ctx.floor("BRENT-driver", 2)
