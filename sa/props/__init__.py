"""Registry of claimed properties: one module per property id (c01.py → C01)."""
from __future__ import annotations

import importlib
import os
import re

_HERE = os.path.dirname(__file__)


def ids() -> list[str]:
    out = []
    for fn in sorted(os.listdir(_HERE)):
        m = re.match(r"c(\d{2,3})\.py$", fn)
        if m:
            out.append("C" + m.group(1))
    return out


def get(pid: str):
    return importlib.import_module(f"sa.props.{pid.lower()}")
