"""DEVICE — the CPU arm and the non-CPU arm of a device test compute the same thing (DESIGN.md §5 C06)."""
from __future__ import annotations

import ast

from ..algebra import is_const
from ..interp import Interp, SELF, contains, show, strip_typed, walk
from ..model import AnalysisError, dotted
from . import util

MATMUL = "emu_base.math.matmul.matmul_2x2_with_batched"


def sibling_arms(ctx) -> None:
    """For every `if x.is_cpu: y = A @ B else: y = matmul_2x2_with_batched(A', B')`: A ≡ A', B ≡ B'."""
    prog = ctx.prog
    n = 0
    for f in list(prog.funcs.values()):
        for node in util.walk_own(f.node):
            if not isinstance(node, ast.If):
                continue
            t = node.test
            neg = False
            if isinstance(t, ast.UnaryOp) and isinstance(t.op, ast.Not):
                t, neg = t.operand, True
            if not (isinstance(t, ast.Attribute) and t.attr in ("is_cpu", "is_cuda")):
                continue
            cpu_body, gpu_body = (node.body, node.orelse)
            if (t.attr == "is_cuda") != neg:
                cpu_body, gpu_body = gpu_body, cpu_body
            # an arm is one assignment, possibly preceded by temporaries that only feed it
            def _arm(body):
                if not body or not isinstance(body[-1], ast.Assign):
                    return None
                for st in body[:-1]:
                    if not (isinstance(st, ast.Assign) and len(st.targets) == 1 and isinstance(st.targets[0], ast.Name)
                            and st.targets[0].id in util.single_assignments(f)):
                        return None
                return body[-1]
            a, b = _arm(cpu_body), _arm(gpu_body)
            if a is None or b is None:
                continue
            call = util.inline_locals(f, b.value)
            if not (isinstance(call, ast.Call) and util.call_name(prog, f.module, call, f) == MATMUL):
                continue
            n += 1
            same_target = util.text(a.targets[0]) == util.text(b.targets[0])
            mm = util.inline_locals(f, a.value)
            if not (isinstance(mm, ast.BinOp) and isinstance(mm.op, ast.MatMult)):
                raise AnalysisError(f"DEVICE: CPU arm at {f.loc(a)} is not a matrix product: {util.text(a)}")
            callee = prog.lookup(MATMUL)
            pn = [x.arg for x in callee.node.args.args]
            left, right = util.arg_of(call, callee, pn[0]), util.arg_of(call, callee, pn[1])
            ctx.require(left is not None and right is not None and len(pn) == 2,
                        f"DEVICE: {util.text(call)} does not bind both operands of {MATMUL}")
            l_ok = util.text(mm.left) == util.text(left)
            r_ok = util.text(mm.right) == util.text(right)
            tensor_is_tested = util.text(t.value) == util.text(mm.right)
            ok = same_target and l_ok and r_ok
            ctx.ob("DEVICE-arms", f"{f.qualname}|{util.akey(mm, f, 60)}", f.loc(node), ok,
                   f"CPU arm {util.text(mm, 60)} and batched arm take the same operands" if ok else
                   f"CPU arm computes {util.text(a, 80)} but the non-CPU arm computes {util.text(b, 100)} — the two "
                   f"device paths disagree (the non-CPU arm is executed by no test in this sandbox)")
    ctx.require(n >= 2, f"DEVICE: {n} cpu/batched sibling sites found, 2 confirmed by hand")
    ctx.floor("DEVICE-arms", 2)


def batched_kernel(ctx) -> None:
    """matmul_2x2_with_batched realises result[:, r] += left[r, c] * right[:, c] for (r, c) in {0,1}²."""
    prog = ctx.prog
    f = prog.func(MATMUL)
    it = Interp(prog, None, inline=lambda c, r, d: False)
    paths = [p for p in it.run(f) if p.status == "return"]
    ctx.require(len(paths) == 1, "matmul_2x2_with_batched: expected straight-line code")
    p = paths[0]
    left = ("param", f.qualname, "left")
    right = ("param", f.qualname, "right")
    table = set()
    probs = []
    for e in p.events:
        if e.kind == "call" and e.name == ".index_add_":
            dim, index, src = (list(e.pos) + [None] * 3)[:3]
            alpha = dict(e.kw).get("alpha")
            r = _const_index(index)
            c = _select_col(src, right)
            a = _left_entry(alpha, left)
            okdim = dim is not None and is_const(dim, 1)
            if r is None or c is None or a is None or not okdim:
                probs.append(f"unrecognised accumulation {show(e.result)[:100]}")
                continue
            if a != (r, c):
                probs.append(f"row {r} accumulates right[:, {c}] weighted by left[{a[0]}, {a[1]}] (expected left[{r}, {c}])")
            table.add((r, c))
    # the accumulator starts from zeros_like(right) and is what is returned
    ret = p.retval
    starts_zero = contains(ret, lambda t: t[0] == "call" and t[1] == "torch.zeros_like")
    missing = {(0, 0), (0, 1), (1, 0), (1, 1)} - table
    ok = not probs and not missing and starts_zero
    ctx.ob("DEVICE-kernel", "matmul_2x2_with_batched table", f.loc(), ok,
           "four index_add_ accumulations realise result[:, r] += left[r, c]·right[:, c] for all (r, c), from zeros"
           if ok else
           "; ".join(probs + ([f"missing terms {sorted(missing)}"] if missing else [])
                     + ([] if starts_zero else ["accumulator does not start from zeros_like(right)"])))


def _const_index(t):
    """0/1 from torch.tensor(0|1, ...) (through the local names zero/one)."""
    t = strip_typed(t)
    if t[0] == "call" and t[1] == "torch.tensor" and t[2] and t[2][0][0] == "const" and t[2][0][1] in (0, 1):
        return t[2][0][1]
    if t[0] == "const" and t[1] in (0, 1):
        return t[1]
    return None


def _select_col(t, right):
    """c from right.select(1, c).unsqueeze(1)  |  right[:, c].unsqueeze(1)  |  right[:, c:c+1]"""
    t = strip_typed(t)
    if t[0] == "mcall" and t[2] == "unsqueeze":
        inner = strip_typed(t[1])
        if inner[0] == "mcall" and inner[2] == "select" and strip_typed(inner[1]) == right and len(inner[3]) == 2 \
                and is_const(inner[3][0], 1) and inner[3][1][0] == "const":
            return inner[3][1][1]
        if inner[0] == "sub" and strip_typed(inner[1]) == right and inner[2][0] == "tuple" and len(inner[2][1]) == 2 \
                and inner[2][1][0][0] == "slice" and inner[2][1][1][0] == "const":
            return inner[2][1][1][1]
    return None


def _left_entry(t, left):
    if t is None:
        return None
    t = strip_typed(t)
    if t[0] == "sub" and strip_typed(t[1]) == left and t[2][0] == "tuple" and len(t[2][1]) == 2 and \
            all(x[0] == "const" for x in t[2][1]):
        return (t[2][1][0][1], t[2][1][1][1])
    return None
