"""TDVP splitting, bath pairing/linkage, centre flag, unit and tolerance plumbing of emu-mps (DESIGN.md A.3)."""
from __future__ import annotations

import ast

from ..algebra import canon, is_const, linear_in, monomials, poly, same
from ..interp import decided, Interp, SELF, Event, Path, contains, field_defs, show, strip_typed, walk
from ..model import AnalysisError
from . import util

MPS = "emu_mps.mps_backend_impl.MPSBackendImpl"
DMRG = "emu_mps.mps_backend_impl.DMRGBackendImpl"
SW = ("attr", SELF, "_sweep_index")


def _off(term, base=SW):
    li = linear_in(term, [base])
    if li is None or abs(li[0] - 1) > 1e-12 or abs(li[1].imag) > 1e-12:
        return None
    return int(round(li[1].real))


def _coef(term, atomname="delta_time"):
    mons = monomials(term)
    if len(mons) != 1:
        return None
    (m, c), = mons.items()
    if len(m) == 1 and show(m[0]).endswith(atomname):
        return complex(c)
    return None


def _flag(term):
    t = strip_typed(term)
    t = t[1] if t[0] == "default" else t
    return t[1] if t[0] == "const" else show(t)


def _factor_idx(term, holder: str, base=SW):
    """offset o if term == self.<holder>.factors[base + o]"""
    t = strip_typed(term)
    if t[0] == "sub" and strip_typed(t[1]) == ("attr", ("attr", SELF, holder), "factors"):
        return _off(t[2], base)
    return None


def tokens(p: Path, base=SW) -> list:
    """Project a path's event trace onto the sweep alphabet."""
    out = []
    for e in p.events:
        if e.kind == "call":
            n = e.name
            if n.endswith("._evolve"):
                idx = strip_typed(e.args.get("indices", ("tuple", ())))
                offs = tuple(_off(x, base) for x in idx[1]) if idx[0] == "tuple" else None
                c = _coef(e.args.get("dt"))
                if offs is not None and len(offs) == 2:
                    out.append(("P", c, _flag(e.args.get("orth_center_right")), offs, e))
                else:
                    out.append(("S", c, offs, e))
            elif n == ".append" and strip_typed(e.recv) in (("attr", SELF, "left_baths"), ("attr", SELF, "right_baths")):
                side = "L" if strip_typed(e.recv)[2] == "left_baths" else "R"
                out.append((side + "+", _bath_arg(e.pos[0] if e.pos else None, side, base), e))
            elif n == ".pop" and strip_typed(e.recv) in (("attr", SELF, "left_baths"), ("attr", SELF, "right_baths")):
                side = "L" if strip_typed(e.recv)[2] == "left_baths" else "R"
                out.append((side + "-", e))
            elif n.endswith(".sweep_complete"):
                out.append(("SC", e))
            elif n.endswith("minimize_energy_pair"):
                out.append(("M", e))
            elif n.endswith(".orthogonalize") and strip_typed(e.recv) == ("attr", SELF, "state"):
                out.append(("ORTH", e))
        elif e.kind == "setattr" and e.target[0] == SELF:
            if e.name == "_sweep_index":
                out.append(("I", _off(e.value, SW), e))
            elif e.name == "_swipe_direction":
                v = strip_typed(e.value)
                out.append(("D", v[1].split(".")[-1] if v[0] == "ref" else show(v), e))
    return out


def _bath_arg(term, side: str, base):
    """(bath source ok, state factor offset, ham factor offset) of new_left_bath/new_right_bath(...).to(...)"""
    if term is None:
        return None
    t = strip_typed(term)
    # strip a trailing .to(device)
    if t[0] == "mcall" and t[2] == "to":
        t = strip_typed(t[1])
    fn = "new_left_bath" if side == "L" else "new_right_bath"
    if t[0] == "call" and t[1].endswith("." + fn) and len(t[2]) == 3:
        cur, st, op = t[2]
        cur0 = strip_typed(cur)
        cur_ok = (cur0[0] == "mcall" and cur0[2].endswith("get_current_left_bath" if side == "L" else "get_current_right_bath")) or \
                 (cur0[0] == "sub" and strip_typed(cur0[1]) == ("attr", SELF, "left_baths" if side == "L" else "right_baths")
                  and is_const(cur0[2], -1))
        return (cur_ok, _factor_idx(st, "state", base), _factor_idx(op, "hamiltonian", base))
    return ("?", show(t)[:80])


def _sig(tok) -> tuple:
    return tuple(x for x in tok if not isinstance(x, Event))


def _fmt(sig) -> str:
    k = sig[0]
    if k == "P":
        return f"pair-evolve{sig[3]} dt={_c(sig[1])}·Δ centre_right={sig[2]}"
    if k == "S":
        return f"single-evolve{sig[2]} dt={_c(sig[1])}·Δ"
    if k in ("L+", "R+"):
        return f"{'left' if k[0] == 'L' else 'right'}_baths.append{sig[1]}"
    if k in ("L-", "R-"):
        return f"{'left' if k[0] == 'L' else 'right'}_baths.pop"
    if k == "I":
        return f"_sweep_index {sig[1]:+d}" if isinstance(sig[1], int) else f"_sweep_index ← {sig[1]}"
    if k == "D":
        return f"direction ← {sig[1]}"
    return k


def _c(c):
    if c is None:
        return "?"
    return f"{c.real:g}" if abs(c.imag) < 1e-12 else str(c)


HALF, MHALF, ONE = 0.5 + 0j, -0.5 + 0j, 1 + 0j

EXPECT_TDVP = {
    # function: {branch description: (cond predicate over cond_log, expected signature list)}
    "_left_to_right_update_tdvp": [
        ("moving right", [("P", HALF, True, (0, 1)), ("L+", (True, 0, 0)), ("S", MHALF, (1,)), ("R-",), ("I", 1)]),
        ("right end", [("P", ONE, False, (0, 1)), ("D", "RIGHT_TO_LEFT")]),
    ],
    "_right_to_left_update_tdvp": [
        ("moving left", [("R+", (True, 1, 1)), ("S", MHALF, (0,)), ("L-",), ("P", HALF, False, (-1, 0)), ("I", -1)]),
        ("moving left, reaching the left end", [("R+", (True, 1, 1)), ("S", MHALF, (0,)), ("L-",),
                                                ("P", HALF, False, (-1, 0)), ("I", -1), ("SC",), ("D", "LEFT_TO_RIGHT")]),
        ("at the left end", [("SC",), ("D", "LEFT_TO_RIGHT")]),
        ("nothing to do", []),
    ],
}


def tdvp_moves(ctx) -> None:
    prog = ctx.prog
    K = prog.cls(MPS)

    def inline(callee, recv, depth):
        return recv == SELF and callee.name not in ("_evolve", "sweep_complete", "get_current_left_bath",
                                                    "get_current_right_bath", "save_simulation")

    for fname, expected in EXPECT_TDVP.items():
        f = K.methods.get(fname)
        ctx.require(f is not None, f"TDVP: {fname} not found")
        it = Interp(prog, K, inline=inline)
        paths = [p for p in it.run(f) if p.status == "return"]
        ctx.count("paths", len(paths))
        ctx.require(len(paths) >= 2, f"TDVP: {fname} has {len(paths)} path(s)")
        exp_sigs = {tuple(sig): name for name, sig in expected}
        for p in paths:
            toks = tokens(p)
            sigs = tuple(_sig(t) for t in toks)
            sigs_cmp = tuple(_norm_sig(s) for s in sigs)
            name = None
            for es, nm in exp_sigs.items():
                if tuple(_norm_sig(s) for s in es) == sigs_cmp:
                    name = nm
            conds = "; ".join(f"{show(c)[:50]}={t}" for c, t in p.cond_log)
            where = toks[0][-1].loc() if toks else f.loc()
            if name is not None:
                ctx.ob("TDVP", f"{fname}|{name}", where, True,
                       f"{name}: " + " → ".join(_fmt(s) for s in sigs) if sigs else f"{name}: no sweep action")
                continue
            # find closest expected sequence to explain
            best = min(exp_sigs, key=lambda es: _dist(tuple(_norm_sig(s) for s in es), sigs_cmp))
            diff = _first_diff(tuple(_norm_sig(s) for s in best), sigs_cmp)
            ctx.ob("TDVP", f"{fname}|{exp_sigs[best]}", where, False,
                   f"path [{conds}] performs " + (" → ".join(_fmt(s) for s in sigs) or "nothing")
                   + f"; the second-order two-site TDVP sweep requires ({exp_sigs[best]}) "
                   + " → ".join(_fmt(s) for s in best) + f"; first difference: {diff}", entry=f.qualname)
        ctx.floor("TDVP", 4)


def _norm_sig(s):
    out = []
    for x in s:
        if isinstance(x, complex):
            out.append((round(x.real, 12), round(x.imag, 12)))
        else:
            out.append(x)
    return tuple(out)


def _dist(a, b) -> int:
    n = abs(len(a) - len(b))
    for x, y in zip(a, b):
        if x != y:
            n += 1
    return n


def _first_diff(exp, got) -> str:
    for i, (x, y) in enumerate(zip(exp, got)):
        if x != y:
            return f"event {i + 1}: expected {x}, found {y}"
    if len(exp) != len(got):
        return f"{len(exp)} events expected, {len(got)} found"
    return "none"


def corner_case(ctx) -> None:
    """progress(): 1-2 qubit corner case evolves by the full delta_time and completes the sweep."""
    prog = ctx.prog
    K = prog.cls(MPS)
    f = K.methods["progress"]

    def inline(callee, recv, depth):
        return False

    it = Interp(prog, K, inline=inline)
    n = 0
    for p in it.run(f):
        toks = tokens(p)
        ev = [t for t in toks if t[0] in ("P", "S")]
        for t in ev:
            n += 1
            c = t[1]
            # in progress() the dt is target_time - current_time itself
            e = t[-1]
            li = linear_in(e.args.get("dt"), [("attr", SELF, "target_time"), ("attr", SELF, "current_time")])
            ok = li is not None and abs(li[0] - 1) < 1e-12 and abs(li[1] + 1) < 1e-12
            sc = any(x[0] == "SC" for x in toks)
            ctx.ob("TDVP", f"progress corner case {t[0]}", e.loc(), ok and sc,
                   "≤2 sites: one evolution by the whole step, then sweep_complete" if ok and sc else
                   f"≤2 sites: evolves by {show(e.args.get('dt'))[:60]}" + ("" if sc else " without sweep_complete"),
                   entry=f.qualname)
    ctx.require(n >= 2, "TDVP: corner-case evolutions not found in progress()")


# ----------------------------------------------------------------- pairing
def bath_pairing(ctx, cls_q: str, funcs: list[str], base=SW, inline_extra=()) -> None:
    """Generic: on every path of a sweep-move function, pushes and pops come in matched opposite pairs and
    the pushed bath is built from the factor just left behind."""
    prog = ctx.prog
    K = prog.cls(cls_q)

    def inline(callee, recv, depth):
        return recv == SELF and callee.name not in ("_evolve", "sweep_complete", "get_current_left_bath",
                                                    "get_current_right_bath", "save_simulation", "timestep_complete",
                                                    "progress")

    for fname in funcs:
        f = prog.find_method(K, fname)
        ctx.require(f is not None, f"BATHS: {cls_q}.{fname} not found")
        it = Interp(prog, K, inline=inline)
        b = base
        if callable(base):
            b = base(f)
        paths = [p for p in it.run(f) if p.status == "return"]
        ctx.count("paths", len(paths))
        npush = 0
        for p in paths:
            toks = tokens(p, b)
            lp = [t for t in toks if t[0] == "L+"]
            lm = [t for t in toks if t[0] == "L-"]
            rp = [t for t in toks if t[0] == "R+"]
            rm = [t for t in toks if t[0] == "R-"]
            npush += len(lp) + len(rp)
            ok = len(lp) == len(rm) and len(rp) == len(lm) and len(lp) + len(rp) <= 1
            conds = "; ".join(f"{show(c)[:40]}={t}" for c, t in p.cond_log)
            ctx.ob("BATHS-pairing", f"{K.name}.{fname}|{conds}", f.loc(), ok,
                   f"pushes/pops are matched (L+{len(lp)} R-{len(rm)} R+{len(rp)} L-{len(lm)})" if ok else
                   f"on path [{conds}] the bath stacks get L+{len(lp)} R-{len(rm)} R+{len(rp)} L-{len(lm)}: "
                   f"a move of the sweep must push one side and pop the other exactly once", entry=f.qualname)
            for t in lp + rp:
                want = (True, 0, 0) if t[0] == "L+" else (True, 1, 1)
                okb = t[1] == want
                ctx.ob("BATHS-linkage", f"{K.name}.{fname}|{t[0]}", t[-1].loc(), okb,
                       f"{t[0]}: environment extended with state/Hamiltonian factor at sweep index{want[1]:+d}" if okb
                       else f"{t[0]}: the pushed environment is built from {t[1]} (current-bath ok, state factor "
                            f"offset, Hamiltonian factor offset); expected {want}", entry=f.qualname)
            # the sweep index moves in the direction of the push
            inc = [t for t in toks if t[0] == "I"]
            if lp or rp:
                wanti = 1 if lp else -1
                oki = len(inc) == 1 and inc[0][1] == wanti
                ctx.ob("BATHS-index", f"{K.name}.{fname}|{'L+' if lp else 'R+'}", (inc[0][-1] if inc else f).loc() if inc else f.loc(),
                       oki, f"sweep index moves by {wanti:+d} with the push" if oki else
                       f"after pushing a {'left' if lp else 'right'} bath the sweep index changes by "
                       f"{[t[1] for t in inc]} (expected {wanti:+d})", entry=f.qualname)
        ctx.require(npush >= 1, f"BATHS: no bath push found in {cls_q}.{fname}")


# ------------------------------------------------------------ _evolve plumbing
def evolve_plumbing(ctx) -> None:
    prog = ctx.prog
    K = prog.cls(MPS)
    f = K.methods.get("_evolve")
    ctx.require(f is not None, "_evolve not found")
    fd = field_defs(prog, K)

    def inline(callee, recv, depth):
        return False

    it = Interp(prog, K, inline=inline)
    paths = [p for p in it.run(f) if p.status == "return"]
    seen = set()
    for p in paths:
        for e in p.events:
            if e.kind != "call" or not (e.name.endswith("solver_utils.evolve_pair") or e.name.endswith("solver_utils.evolve_single")):
                continue
            kind = e.name.split(".")[-1]
            seen.add(kind)
            okdt = strip_typed(e.args.get("dt")) == ("param", f.qualname, "dt")
            ctx.ob("UNITS-mps", f"_evolve→{kind} dt", e.loc(), okdt,
                   f"{kind}(dt=) is _evolve's dt unchanged" if okdt else
                   f"{kind}(dt={show(e.args.get('dt'))[:50]}) is not _evolve's dt", entry=f.qualname)
            h = strip_typed(e.args.get("is_hermitian"))
            okh = h == ("un", "not", ("attr", SELF, "has_lindblad_noise"))
            ctx.ob("HERM", f"_evolve→{kind}", e.loc(), okh,
                   "is_hermitian = not has_lindblad_noise" if okh else
                   f"is_hermitian={show(h)[:50]}: with Lindblad noise the effective Hamiltonian is not Hermitian "
                   f"and Lanczos must not be used (and vice versa)", entry=f.qualname)
            okc = strip_typed(e.args.get("config")) == ("attr", SELF, "config")
            ctx.ob("ROLE-mps", f"_evolve→{kind} config", e.loc(), okc,
                   "the run's config supplies precision / bond cap / Krylov options" if okc else
                   f"config={show(e.args.get('config'))[:50]}", entry=f.qualname)
            b = strip_typed(e.args.get("baths"))
            okb = b[0] == "tuple" and len(b[1]) == 2 and "left" in show(b[1][0]) and "right" in show(b[1][1])
            ctx.ob("ROLE-mps", f"_evolve→{kind} baths", e.loc(), okb,
                   "baths = (current left, current right)" if okb else f"baths={show(b)[:80]}", entry=f.qualname)
            if kind == "evolve_pair":
                okd = strip_typed(e.args.get("dim")) == ("attr", SELF, "dim")
                ctx.ob("ROLE-mps", "_evolve→evolve_pair dim", e.loc(), okd,
                       "dim=self.dim" if okd else f"dim={show(e.args.get('dim'))[:40]} (default 2 breaks leakage runs)",
                       entry=f.qualname)
                flag = strip_typed(e.args.get("orth_center_right"))
                okf = flag == ("param", f.qualname, "orth_center_right")
                # centre store uses the same flag
                stores = [x for x in p.events if x.kind == "setattr" and x.name == "orthogonality_center"]
                okst = False
                if stores:
                    v = strip_typed(stores[-1].value)
                    d = decided(p, flag, stores[-1].ncond)
                    if v[0] == "ifexp":
                        okst = strip_typed(v[1]) == flag and _lr(v[2], v[3], p, f)
                    elif d is not None:
                        # `r if flag else l` as two paths: the stored index is the 2nd (flag) / 1st (not flag) of indices
                        okst = v[0] == "unpack" and v[2] == (1 if d else 0) and len(v) > 3 and v[3] == 2 and \
                            strip_typed(v[1])[0] == "param" and strip_typed(v[1])[2].lstrip("*") == "indices"
                ctx.ob("CENTER", "_evolve pair centre", (stores[-1] if stores else e).loc(), okf and okst,
                       "orthogonality_center ← r if flag else l, with the flag given to the splitter" if okf and okst
                       else "the orthogonality centre stored after a pair evolution does not follow the "
                            "orth_center_right flag handed to evolve_pair", entry=f.qualname)
    ctx.require(seen == {"evolve_pair", "evolve_single"}, f"_evolve: solver calls found: {sorted(seen)}")
    hl = fd.get("has_lindblad_noise", [])
    okl = any(show(v).replace(" ", "") in ("(len(pulser_data.lindblad_ops)>0)",) or
              ("lindblad_ops" in show(v) and ">" in show(v)) for v, _ in hl if _ is not None)
    ctx.ob("HERM", "has_lindblad_noise definition", f.loc(), okl,
           "has_lindblad_noise ⇔ the sequence has Lindblad operators" if okl else
           f"has_lindblad_noise is defined as {[show(v) for v, _ in hl]}")


def _lr(a, b, p, f) -> bool:
    """a, b are the unpacked (l, r) of indices: a == r and b == l."""
    sa, sb = strip_typed(a), strip_typed(b)
    return sa[0] == "unpack" and sb[0] == "unpack" and sa[2] == 1 and sb[2] == 0 and sa[1] == sb[1]


def solver_units_and_tolerances(ctx) -> None:
    prog = ctx.prog
    mod = "emu_mps.solver_utils."
    conv = -0.001j
    for fname in ("evolve_pair", "evolve_single"):
        f = prog.func(mod + fname)
        it = Interp(prog, None, inline=lambda c, r, d: False)
        paths = [p for p in it.run(f) if p.status == "return"]
        ctx.require(paths, f"{fname}: no returning path")
        p = paths[0]
        dtp = ("param", f.qualname, "dt")
        ts = None
        if fname == "evolve_pair":
            mk = [e for e in p.events if e.kind == "call" and e.name == mod + "make_op"]
            ctx.require(mk, "evolve_pair: make_op call not found")
            ts = mk[0].args.get("time_step")
            where = mk[0].loc()
            okdim = strip_typed(mk[0].args.get("dim")) == ("param", f.qualname, "dim")
            ctx.ob("ROLE-mps", "evolve_pair→make_op dim", where, okdim,
                   "make_op(dim=) is evolve_pair's dim" if okdim else
                   f"make_op(dim={show(mk[0].args.get('dim'))[:40]}): pair tensors of 3-level atoms are reshaped with the wrong physical dimension")
        else:
            where = f.loc()
            kx = [e for e in p.events if e.kind == "call" and e.name == "emu_base.math.krylov_exp.krylov_exp"]
            ctx.require(len(kx) == 1, "evolve_single: krylov_exp call not found")
            g = strip_typed(kx[0].args.get("op"))
            ctx.require(g[0] == "localfunc" and g[1] in prog.funcs, "evolve_single: generator passed to krylov_exp not found")
            gen = prog.funcs[g[1]]
            ts, okop = _scaled_generator(prog, gen, p)
            ctx.ob("UNITS-mps", "evolve_single generator", gen.loc(), okop,
                   "op(x) = time_step · H_eff(x)" if okop else "the generator of evolve_single is not <scalar>·H_eff(x)")
        li = linear_in(ts, [dtp]) if ts is not None else None
        ok = li is not None and abs(li[0] - conv) < 1e-15 and abs(li[1]) < 1e-15
        ctx.ob("UNITS-mps", f"{fname} time_step", where, ok,
               "time_step = −i·1e-3·dt (ns→µs applied exactly once)" if ok else
               f"time_step = {show(ts)[:80] if ts is not None else '?'}; expected −i·1e-3·dt", entry=f.qualname)
        for e in p.events:
            if e.kind == "call" and e.name == "emu_base.math.krylov_exp.krylov_exp":
                _tol_args(ctx, f, e, ("exp_tolerance", "norm_tolerance"))
                okh = strip_typed(e.args.get("is_hermitian")) == ("param", f.qualname, "is_hermitian")
                ctx.ob("HERM", f"{fname}→krylov_exp", e.loc(), okh,
                       "is_hermitian is passed through" if okh else
                       f"krylov_exp(is_hermitian={show(e.args.get('is_hermitian'))[:40]}) ignores the caller's flag",
                       entry=f.qualname)
    mo = prog.func(mod + "make_op")
    itm = Interp(prog, None, inline=lambda c, r, d: False)
    pm = [q for q in itm.run(mo) if q.status == "return"][0]
    rv = strip_typed(pm.retval)
    gen = None
    if rv[0] == "tuple":
        for x in rv[1]:
            x0 = strip_typed(x)
            if x0[0] == "localfunc" and x0[1] in prog.funcs:
                gen = prog.funcs[x0[1]]
    ctx.require(gen is not None, "make_op: returned generator function not found")
    ts2, okop = _scaled_generator(prog, gen, pm)
    okop = okop and ts2 == ("param", mo.qualname, "time_step")
    ctx.ob("UNITS-mps", "make_op generator", gen.loc(), okop,
           "op(x) = time_step · H_eff(x)" if okop else "the generator built by make_op is not time_step·H_eff(x)")
    f = prog.func(mod + "minimize_energy_pair")
    it = Interp(prog, None, inline=lambda c, r, d: False)
    for p in it.run(f):
        for e in p.events:
            if e.kind == "call" and e.name.endswith("krylov_energy_minimization"):
                _tol_args(ctx, f, e, ("norm_tolerance",))
                okr = strip_typed(e.args.get("residual_tolerance")) == ("param", f.qualname, "residual_tolerance")
                ctx.ob("ROLE-mps", "minimize_energy_pair residual_tolerance", e.loc(), okr,
                       "residual_tolerance is passed through" if okr else
                       f"residual_tolerance={show(e.args.get('residual_tolerance'))[:40]}", entry=f.qualname)


def _tol_args(ctx, f, e: Event, names) -> None:
    cfg = ("param", f.qualname, "config")
    want = ("bin", "Mult", ("attr", cfg, "precision"), ("attr", cfg, "extra_krylov_tolerance"))
    for n in names:
        ok = e.args.get(n) is not None and same(e.args[n], want)
        ctx.ob("ROLE-mps", f"{f.name} {n}", e.loc(), ok,
               f"{n} = config.precision · config.extra_krylov_tolerance" if ok else
               f"{n} = {show(e.args.get(n))[:60]}; the documented (and floor-protected) Krylov tolerance is "
               f"precision·extra_krylov_tolerance", entry=f.qualname)
    ok = strip_typed(e.args.get("max_krylov_dim")) == ("attr", cfg, "max_krylov_dim")
    ctx.ob("ROLE-mps", f"{f.name} max_krylov_dim", e.loc(), ok,
           "max_krylov_dim = config.max_krylov_dim" if ok else
           f"max_krylov_dim = {show(e.args.get('max_krylov_dim'))[:40]}", entry=f.qualname)


def _scaled_generator(prog, gen, outer_path):
    """(scalar term, ok): gen(x) returns <closure scalar> * <effective Hamiltonian applied to x>."""
    rets = [n for n in ast.walk(gen.node) if isinstance(n, ast.Return)]
    if len(rets) != 1 or not isinstance(rets[0].value, ast.BinOp) or not isinstance(rets[0].value.op, ast.Mult):
        return None, False
    v = rets[0].value
    sides = [v.left, v.right]
    names = [s_.id for s_ in sides if isinstance(s_, ast.Name)]
    calls = [s_ for s_ in sides if isinstance(s_, ast.Call)]
    if len(names) != 1 or len(calls) != 1:
        return None, False
    # the scalar is a variable of the enclosing function: its value on the outer path
    val = outer_path.frames[0].env.get(names[0]) if outer_path.frames else None
    return (strip_typed(val) if val is not None else None), val is not None


def _op_returns_scaled(op, name: str) -> bool:
    rets = [n for n in ast.walk(op.node) if isinstance(n, ast.Return)]
    if len(rets) != 1 or not isinstance(rets[0].value, ast.BinOp) or not isinstance(rets[0].value.op, ast.Mult):
        return False
    v = rets[0].value
    sides = [v.left, v.right]
    names = [s.id for s in sides if isinstance(s, ast.Name)]
    calls = [s for s in sides if isinstance(s, ast.Call)]
    return names == [name] and len(calls) == 1


def no_bypass(ctx) -> None:
    """Every returning path of the two solver kernels returns tensors derived from krylov_exp's result, and every path
    of `_evolve` calls exactly one kernel: no shortcut returns the input factors unchanged."""
    prog = ctx.prog
    mod = "emu_mps.solver_utils."
    for fname in ("evolve_pair", "evolve_single"):
        f = prog.func(mod + fname)
        it = Interp(prog, None, inline=lambda c, r, d: False)
        bad = []
        for p in it.run(f):
            if p.status != "return":
                continue
            if not contains(p.retval, lambda t: t[0] == "call" and t[1] == "emu_base.math.krylov_exp.krylov_exp"):
                conds = "; ".join(f"{show(c)[:50]}={t}" for c, t in p.cond_log)
                bad.append(f"[{conds}] returns {show(p.retval)[:60]}")
        ctx.ob("TDVP", f"{fname} every path exponentiates", f.loc(), not bad,
               f"every path of {fname} returns the Krylov-exponentiated tensors" if not bad else
               f"{fname} has a path that returns without exponentiating: {bad[0]}", entry=f.qualname)
    K = prog.cls(MPS)
    f = K.methods["_evolve"]
    it = Interp(prog, K, inline=lambda c, r, d: False)
    bad = []
    for p in it.run(f):
        if p.status != "return":
            continue
        n = sum(1 for e in p.events if e.kind == "call" and e.name.startswith(mod + "evolve_"))
        w = sum(1 for e in p.events if e.kind == "setitem" and "state.factors" in show(e.target[0]))
        if n != 1 or w != 1:
            conds = "; ".join(f"{show(c)[:40]}={t}" for c, t in p.cond_log)
            bad.append(f"[{conds}] kernel calls={n}, factor writes={w}")
    ctx.ob("TDVP", "_evolve always evolves", f.loc(), not bad,
           "every path of _evolve calls one solver kernel and writes its result back" if not bad else
           f"_evolve has a path that does not evolve: {bad[0]}", entry=f.qualname)
