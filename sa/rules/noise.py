"""BASIS and rate rules for get_lindblad_operators; noise plumbing of the emu-mps driver (C24, C17)."""
from __future__ import annotations

import ast

from ..algebra import canon, is_const, linear_in, monomials, same
from ..interp import Interp, SELF, Event, Path, contains, field_defs, show, strip_typed, walk
from ..model import AnalysisError
from . import util

GLO = "emu_base.jump_lindblad_operators.get_lindblad_operators"

# noise type -> (rate attribute, divisor under the square root)
RATES = {"relaxation": ("relaxation_rate", 1), "dephasing": ("dephasing_rate", 2),
         "depolarizing": ("depolarizing_rate", 4)}

# noise type -> list of operators, each {(row, col): coefficient in units of c = sqrt(rate/div)}
# emulator basis: index 0 = g, 1 = r  (|g><r| = [0, 1])
TABLES = {
    "relaxation": [{(0, 1): 1}],
    "dephasing": [{(0, 0): 1, (1, 1): -1}],
    "depolarizing": [{(0, 1): 1, (1, 0): 1}, {(0, 1): -1j, (1, 0): 1j}, {(0, 0): 1, (1, 1): -1}],
}


def _paths(ctx):
    prog = ctx.prog
    f = prog.func(GLO)
    it = Interp(prog, None, inline=lambda c, r, d: False)
    paths = it.run(f)
    ctx.count("paths", len(paths))
    return f, paths


def _noise_type_of(p: Path, f):
    nt = ("param", f.qualname, "noise_type")
    for c, t in p.cond_log:
        c0 = strip_typed(c)
        if c0[0] == "cmp" and c0[1] == "==" and strip_typed(c0[2]) == nt and c0[3][0] == "const" and t:
            return c0[3][1]
    return None


def rates_and_tables(ctx) -> None:
    f, paths = _paths(ctx)
    nm = ("param", f.qualname, "noise_model")
    dim = ("param", f.qualname, "dim")
    seen = set()
    for p in paths:
        if p.status != "return":
            continue
        nt = _noise_type_of(p, f)
        if nt not in RATES or nt in seen:
            continue
        seen.add(nt)
        attr, div = RATES[nt]
        sq = [e for e in p.events if e.kind == "call" and e.name == "math.sqrt"]
        ctx.require(len(sq) == 1, f"BASIS-rate: {nt}: expected one math.sqrt, found {len(sq)}")
        arg = sq[0].pos[0]
        li = linear_in(arg, [("attr", nm, attr)])
        ok = li is not None and abs(li[0] - 1 / div) < 1e-12 and abs(li[1]) < 1e-12
        ctx.ob("BASIS-rate", f"{nt}", sq[0].loc(), ok,
               f"{nt}: coefficient = sqrt({attr}/{div})" if ok else
               f"{nt}: coefficient = sqrt({show(arg)[:60]}); Pulser's convention is sqrt({attr}/{div})", entry=f.qualname)
        c = sq[0].result
        # operator tables
        ops = strip_typed(p.retval)
        ctx.require(ops[0] == "list", f"BASIS-table: {nt}: return value is not a list literal")
        want = TABLES[nt]
        okn = len(ops[1]) == len(want)
        detail = []
        for i, (op, table) in enumerate(zip(ops[1], want)):
            got = {}
            op0 = strip_typed(op)
            shape_ok = op0[0] == "call" and op0[1] == "torch.zeros" and len(op0[2]) >= 2 and \
                strip_typed(op0[2][0]) == dim and strip_typed(op0[2][1]) == dim
            if not shape_ok:
                detail.append(f"operator {i} is not zeros(dim, dim)")
            for e in p.events:
                if e.kind == "setitem" and canon(strip_typed(e.target[0])) == canon(op0):
                    idx = strip_typed(e.target[1])
                    if idx[0] == "tuple" and all(x[0] == "const" for x in idx[1]):
                        rc = tuple(x[1] for x in idx[1])
                        v = strip_typed(e.value)
                        if v[0] == "call" and v[1] == "torch.tensor" and v[2]:
                            v = v[2][0]
                        lv = linear_in(v, [c])
                        got[rc] = complex(lv[0]) if lv is not None and abs(lv[1]) < 1e-12 else show(v)[:30]
                    else:
                        got[show(idx)] = "?"
            if got != {k: complex(v) for k, v in table.items()}:
                detail.append(f"operator {i}: entries {got}, expected {table} (in units of the coefficient)")
        ok = okn and not detail
        ctx.ob("BASIS-table", f"{nt}", f.loc(), ok,
               f"{nt}: {len(want)} operator(s) with the entries Pulser defines, in the emulator basis (g=0, r=1)" if ok else
               f"{nt}: " + ("; ".join(detail) or f"{len(ops[1])} operators returned, {len(want)} expected"),
               entry=f.qualname)
    ctx.require(seen == set(RATES), f"BASIS: noise types analysed {sorted(seen)}")


def eff_noise(ctx) -> None:
    f, paths = _paths(ctx)
    dim = ("param", f.qualname, "dim")
    it_ = ("param", f.qualname, "interact_type")
    n_ising = n_xy = 0
    for p in paths:
        if p.status != "return" or _noise_type_of(p, f) != "eff_noise":
            continue
        ising = None
        for c, t in p.cond_log:
            c0 = strip_typed(c)
            if c0[0] == "cmp" and c0[1] == "==" and strip_typed(c0[2]) == it_ and c0[3] == ("const", "ising"):
                ising = t
        dim_pinned = any(strip_typed(c)[0] == "cmp" and strip_typed(c)[1] == "==" and strip_typed(strip_typed(c)[2]) == dim
                         and is_const(strip_typed(c)[3], 2) and t for c, t in p.cond_log)
        # rates: sqrt(rate) * op for zip(eff_noise_rates, ops)
        ret = strip_typed(p.retval)
        ok_rate = False
        if ret[0] == "comp":
            elt = ret[2][0]
            s = show(elt)
            ok_rate = "sqrt(" in s and "eff_noise_rates" in show(ret[3][0][0]) and strip_typed(elt)[0] == "bin" and strip_typed(elt)[1] == "Mult"
            sq = [t for t in walk(elt) if t[0] == "call" and t[1] == "math.sqrt"]
            ok_rate = ok_rate and len(sq) == 1 and strip_typed(sq[0][2][0])[0] == "unpack"
            # pairing: zip(noise_model.eff_noise_rates, <one tensor per entry of noise_model.eff_noise_opers, unfiltered>)
            nm = ("param", f.qualname, "noise_model")
            z = strip_typed(ret[3][0][0])
            pair_ok = False
            def _drops_only_zero_rates(ifs) -> bool:
                for c in ifs:
                    c = strip_typed(c)
                    if not (c[0] == "cmp" and c[1] in (">", "!=") and strip_typed(c[2])[0] == "unpack" and strip_typed(c[2])[2] == 0
                            and is_const(c[3], 0)):
                        return False
                return True
            if len(ret[3]) == 1 and _drops_only_zero_rates(ret[3][0][1]) and z[0] == "call" and z[1] == "zip" and len(z[2]) == 2:
                a, b = strip_typed(z[2][0]), strip_typed(z[2][1])
                ops_1to1 = b == ("attr", nm, "eff_noise_opers") or (
                    b[0] == "comp" and len(b[3]) == 1 and not b[3][0][1]
                    and strip_typed(b[3][0][0]) == ("attr", nm, "eff_noise_opers"))
                pair_ok = a == ("attr", nm, "eff_noise_rates") and ops_1to1
            ctx.ob("BASIS-rate", "eff_noise pairing", f.loc(), pair_ok,
                   "the k-th rate multiplies the k-th operator: zip(eff_noise_rates, one tensor per eff_noise_opers entry)"
                   if pair_ok else
                   f"eff_noise: rates and operators are paired as {show(z)[:160]} — the operator list is filtered, "
                   f"reordered or not built one-to-one from eff_noise_opers, so rates are applied to the wrong operators "
                   f"(e.g. rates (0.0, 0.3))", entry=f.qualname)
        ctx.ob("BASIS-rate", "eff_noise", f.loc(), ok_rate,
               "eff_noise: each operator is scaled by sqrt(its rate)" if ok_rate else
               f"eff_noise operators are built as {show(ret)[:100]}, not sqrt(rate)·op over zip(rates, operators)",
               entry=f.qualname)
        stores = [e for e in p.events if e.kind == "setitem" and strip_typed(e.target[0])[0] == "elem"]
        if ising is True:
            n_ising += 1
            ctx.require(stores, "BASIS: the ising branch of eff_noise does not rewrite the operators")
            for e in stores:
                kind = _basis_change_kind(e)
                if kind == "unknown":
                    raise AnalysisError(f"BASIS: unrecognised basis-change idiom at {e.loc()}: "
                                        f"{show(e.target[1])} = {show(e.value)[:80]}")
                ok = kind == "full" or (kind == "corner2x2" and dim_pinned)
                ctx.ob("BASIS", f"eff_noise ising|basis change: {kind}" + ("" if ok else ", number of levels not pinned to 2"), e.loc(), ok,
                       "the Pulser→emulator basis change (r↔g) covers every row and column touching levels 0/1"
                       if ok else
                       "the basis change flips only the [:2, :2] block while dim may be 3: entries [2,0],[2,1],[0,2],"
                       "[1,2] of 3×3 effective-noise operators stay in Pulser's (r,g,x) order, so Pulser's |x><r| "
                       "becomes |x><g| in the emulator", entry=f.qualname)
        elif ising is False:
            n_xy += 1
            ctx.ob("BASIS", "eff_noise XY untouched", f.loc(), not stores,
                   "XY operators are used as given" if not stores else "XY operators are basis-flipped", entry=f.qualname)
        # shape validation: every operator is dim x dim
        shape_guard = any("shape" in show(c) and "dim" in show(c) for c, t in p.cond_log)
        ctx.ob("BASIS", "eff_noise shape check", f.loc(), shape_guard,
               "operators whose shape is not (dim, dim) are rejected" if shape_guard else
               "effective-noise operators are not checked against (dim, dim)", entry=f.qualname)
    ctx.require(n_ising >= 1 and n_xy >= 1, f"BASIS: eff_noise paths found: ising={n_ising}, xy={n_xy}")


def _basis_change_kind(e: Event) -> str:
    idx = strip_typed(e.target[1])
    v = strip_typed(e.value)
    base = strip_typed(e.target[0])

    def is_corner(i) -> bool:
        return i[0] == "tuple" and len(i[1]) == 2 and all(
            x[0] == "slice" and x[1] == ("const", None) and is_const(x[2], 2) and x[3] == ("const", None) for x in i[1])

    def is_full(i) -> bool:
        if i[0] == "slice":
            return all(x == ("const", None) for x in i[1:])
        if i[0] == "tuple":
            return all(x[0] == "slice" and all(y == ("const", None) for y in x[1:]) for x in i[1])
        return i == ("const", Ellipsis)

    if is_corner(idx) and v[0] == "call" and v[1] == "torch.flip" and len(v[2]) == 2:
        src = strip_typed(v[2][0])
        dims = strip_typed(v[2][1])
        if src[0] == "sub" and canon(strip_typed(src[1])) == canon(base) and is_corner(strip_typed(src[2])) and \
                dims[0] in ("tuple", "list") and sorted(x[1] for x in dims[1]) == [0, 1]:
            return "corner2x2"
    # conjugation by an index permutation swapping 0 and 1: t[perm][:, perm] / t[perm, :][:, perm]
    if is_full(idx) or True:
        s = show(v)
        perms = [t for t in walk(v) if t[0] in ("list", "tuple") and len(t[1]) >= 2 and
                 all(x[0] == "const" and isinstance(x[1], int) for x in t[1])]
        if perms and all([x[1] for x in pm[1]][:2] == [1, 0] and
                         [x[1] for x in pm[1]][2:] == list(range(2, len(pm[1]))) for pm in perms):
            subs = [t for t in walk(v) if t[0] == "sub"]
            if len(subs) >= 2 and is_full(idx):
                return "full"
    return "unknown"


# ------------------------------------------------------------ emu-mps plumbing
def mps_noise_plumbing(ctx) -> None:
    """Noisy driver: lindblad_ops → compute_noise_from_lindbladians(ops, dim) → lindblad_noise → update_H(noise=);
    aggregated operator = L†L of the same stacked list; jump candidates ordered like expect_batch's result."""
    prog = ctx.prog
    K = prog.cls("emu_mps.mps_backend_impl.NoisyMPSBackendImpl")
    it = Interp(prog, K, inline=lambda c, r, d: False)
    f = K.methods["init_lindblad_noise"]
    p = [q for q in it.run(f) if q.status == "return"][0]
    ln = p.heap.get((SELF, "lindblad_noise"))
    ok = ln is not None and strip_typed(ln)[0] == "call" and strip_typed(ln)[1].endswith("compute_noise_from_lindbladians")
    if ok:
        ev = [e for e in p.events if e.kind == "call" and e.name.endswith("compute_noise_from_lindbladians")][0]
        ok = strip_typed(ev.args.get("lindbladians")) == ("attr", SELF, "lindblad_ops") and \
            strip_typed(ev.args.get("dim")) == ("attr", SELF, "dim")
    ctx.ob("ROLE-noise", "lindblad_noise", f.loc(), ok,
           "lindblad_noise = compute_noise_from_lindbladians(self.lindblad_ops, self.dim)" if ok else
           f"lindblad_noise = {show(ln)[:80] if ln is not None else 'not set'}")
    agg = p.heap.get((SELF, "aggregated_lindblad_ops"))
    stacked = ("call", "torch.stack", (("attr", SELF, "lindblad_ops"),), ())
    want = ("bin", "MatMult", ("mcall", ("mcall", stacked, "conj", (), ()), "transpose", (("const", 1), ("const", 2)), ()), stacked)
    oka = agg is not None and (canon(agg) == canon(want) or
                               ("conj()" in show(agg) and "transpose(1, 2)" in show(agg) and show(agg).count("stack(self.lindblad_ops)") == 2
                                and strip_typed(agg)[0] == "bin" and strip_typed(agg)[1] == "MatMult" and "conj" in show(strip_typed(agg)[2])))
    if not oka and agg is not None:
        oka = _einsum_is_LdagL(strip_typed(agg), stacked)
    ctx.ob("ROLE-noise", "aggregated_lindblad_ops", f.loc(), oka,
           "aggregated_lindblad_ops[k] = L_k† L_k for the stacked self.lindblad_ops" if oka else
           f"aggregated_lindblad_ops = {show(agg)[:100] if agg is not None else 'not set'} is not stack(L)† @ stack(L)")
    # lindblad_ops come from the sequence data
    fd = field_defs(prog, K)
    okl = any(show(v).endswith("pulser_data.lindblad_ops") for v, _ in fd.get("lindblad_ops", []))
    ctx.ob("ROLE-noise", "lindblad_ops source", K.methods["__init__"].loc(), okl,
           "self.lindblad_ops = SequenceData.lindblad_ops" if okl else "self.lindblad_ops is not SequenceData.lindblad_ops")
    # init order: noise term computed before the Hamiltonian is filled
    g = K.methods["init"]
    it2 = Interp(prog, K, max_depth=8)
    for q in it2.run(g):
        if q.status != "return":
            continue
        ev = q.events
        a = [e for e in ev if e.kind == "setattr" and e.name == "lindblad_noise"]
        b = [e for e in ev if e.kind == "call" and e.name == "emu_mps.hamiltonian.update_H"]
        c = [e for e in ev if e.kind == "call" and e.name.endswith(".set_jump_threshold")]
        ok = a and b and c and ev.index(a[0]) < ev.index(b[-1]) < ev.index(c[-1]) and is_const(c[-1].args.get("bound"), 1.0)
        ctx.ob("ROLE-noise", "init order", g.loc(), bool(ok),
               "init(): noise term ≺ Hamiltonian fill ≺ first jump threshold drawn in [0, 1]" if ok else
               "NoisyMPSBackendImpl.init does not compute the noise term before filling the Hamiltonian and drawing "
               "the first threshold in [0, 1]", entry=g.qualname)
        break
    # jump: candidate order (site outer, operator inner) = row-major layout of expect_batch(...).view(-1)
    j = K.methods["do_random_quantum_jump"]
    for q in it.run(j):
        if q.status != "return":
            continue
        ev = q.events
        ch = [e for e in ev if e.kind == "call" and e.name == "random.choices"]
        ctx.require(len(ch) == 1, "do_random_quantum_jump: random.choices call not found")
        cand = strip_typed(ch[0].pos[0]) if ch[0].pos else None
        w = dict(ch[0].kw).get("weights")
        okc = cand is not None and cand[0] == "comp" and len(cand[3]) == 2 and \
            "num_sites" in show(cand[3][0][0]) and strip_typed(cand[3][1][0]) == ("attr", SELF, "lindblad_ops")
        okw = w is not None and "expect_batch(self.aggregated_lindblad_ops)" in show(w) and ".view(-1)" in show(w) and ".real" in show(w)
        ctx.ob("ROLE-noise", "jump candidates", ch[0].loc(), okc and okw,
               "candidates [(site, L) for site … for L …] match expect_batch(L†L)[site, operator] flattened row-major"
               if okc and okw else
               f"jump candidates {show(cand)[:80] if cand else '?'} / weights {show(w)[:80] if w else '?'} are not in "
               f"the (site-major, operator-minor) order of expect_batch(aggregated_lindblad_ops).view(-1)",
               entry=j.qualname)
        # post-jump sequence
        names = []
        for e in ev[ev.index(ch[0]):]:
            if e.kind == "call":
                n = e.name.split(".")[-1]
                if n in ("apply", "orthogonalize", "init_baths", "set_jump_threshold"):
                    names.append(n)
            if e.kind == "setattr" and e.name == "state" and e.aug == "Mult":
                names.append("normalise")
        want = ["apply", "orthogonalize", "normalise", "init_baths", "set_jump_threshold"]
        ctx.ob("ROLE-noise", "post-jump sequence", j.loc(), names == want,
               "apply → orthogonalize(0) → normalise → init_baths → set_jump_threshold" if names == want else
               f"after choosing a jump the driver does {names}; expected {want}", entry=j.qualname)
        ap = [e for e in ev if e.kind == "call" and e.name.endswith("MPS.apply")]
        oka = bool(ap) and strip_typed(ap[0].args.get("qubit_index"))[0] == "unpack" and strip_typed(ap[0].args.get("qubit_index"))[2] == 0 \
            and strip_typed(ap[0].args.get("single_qubit_operator"))[2] == 1
        ctx.ob("ROLE-noise", "jump application", (ap[0] if ap else j).loc() if ap else j.loc(), oka,
               "the chosen operator is applied to the chosen site" if oka else
               "state.apply does not receive (chosen site, chosen operator)", entry=j.qualname)
        break


def _einsum_is_LdagL(t, stacked) -> bool:
    """torch.einsum(spec, X, Y) == stacked† @ stacked batched over the first index: out[k,a,b] = Σ_i conj(S[k,i,a])·S[k,i,b].
    Both operands are the stacked list, the contracted letter is the *row* index of both, and the conjugated operand is
    the one that supplies the first output index."""
    if not (t[0] == "call" and t[1] == "torch.einsum" and len(t[2]) == 3 and strip_typed(t[2][0])[0] == "const"):
        return False
    spec = str(strip_typed(t[2][0])[1]).replace(" ", "")
    if "->" not in spec or spec.count(",") != 1:
        return False
    ins, out = spec.split("->")
    x, y = ins.split(",")
    ops = []
    for o in t[2][1:]:
        o = strip_typed(o)
        conj = False
        while o[0] == "mcall" and o[2] in ("conj", "conj_physical", "contiguous"):
            conj = conj or o[2].startswith("conj")
            o = strip_typed(o[1])
        if canon(o) != canon(stacked):
            return False
        ops.append(conj)
    if not (len(x) == len(y) == len(out) == 3 and x[0] == y[0] == out[0] and x[1] == y[1] and x[1] not in out):
        return False
    a, b = x[2], y[2]          # free indices of the two operands
    if a == b or sorted(out[1:]) != sorted([a, b]):
        return False
    # the operand whose free index comes first in the output must be the conjugated one (L† on the left), and only it
    first_is_x = out[1] == a
    return (ops[0] and not ops[1]) if first_is_x else (ops[1] and not ops[0])
