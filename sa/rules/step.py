"""STEP / UNITS / HERM / ROLE rules for the two time-stepping drivers (DESIGN.md A.2)."""
from __future__ import annotations

import ast

from ..algebra import canon, is_const, linear_in, monomials, normalised_by_own_norm, poly, same
from ..interp import Interp, SELF, Event, Path, cmp_with_left, contains, field_defs, show, strip_typed, walk
from ..model import AnalysisError, FuncInfo
from . import util

SV = "emu_sv.sv_backend_impl.SVBackendImpl"
MPS = "emu_mps.mps_backend_impl.MPSBackendImpl"
T_FIELD = "target_times"
CONV = 0.001  # ns -> µs


def _T(idx):
    return ("sub", ("attr", SELF, T_FIELD), idx)


def _is_T(atom) -> bool:
    a = strip_typed(atom)
    if a[0] != "sub":
        return False
    b = strip_typed(a[1])
    return b[0] == "attr" and b[2] == T_FIELD


def _noise_ok(p: Path, e: Event, term) -> bool:
    """`term` is self.lindblad_noise as of event e (the field itself, or the value stored to it earlier)."""
    t = strip_typed(term)
    if t == ("attr", SELF, "lindblad_noise"):
        return True
    i = p.events.index(e)
    stored = [x.value for x in p.events[:i] if x.kind == "setattr" and x.name == "lindblad_noise" and x.target[0] == SELF]
    return bool(stored) and strip_typed(stored[-1]) == t


DRIVES = ("omega", "delta", "phi")


def _drive_base_ok(base, name: str) -> bool:
    names = {t[2] for t in walk(base) if t[0] == "attr" and t[2] in DRIVES}
    return names == {name}


def _time_form(term, k):
    """Decompose a time expression into {offset: coefficient} over T[k+offset]; None if not of that form.
    Index -1 (last) is kept as offset 'last'."""
    mons = monomials(term)
    out: dict = {}
    for m, c in mons.items():
        if len(m) != 1 or not _is_T(m[0]):
            return None
        idx = m[0][2]
        li = linear_in(idx, [k]) if k is not None else None
        if li is not None and abs(li[0] - 1) < 1e-12 and li[1].imag == 0:
            off = int(round(li[1].real))
        else:
            ci = poly(idx)
            if ci is not None and set(ci) == {()}:
                off = ("abs", int(round(ci[()].real)))
            else:
                return None
        out[off] = out.get(off, 0) + c
    return out


def _row_form(term, field: str, k):
    """offset o if term == self.<field>[k+o] (optionally [k+o, :]); None otherwise."""
    t = strip_typed(term)
    if t[0] != "sub" or strip_typed(t[1]) != ("attr", SELF, field):
        return None
    idx = t[2]
    if idx[0] == "tuple":
        if len(idx[1]) != 2 or idx[1][1][0] != "slice" or any(x != ("const", None) for x in idx[1][1][1:]):
            return None
        idx = idx[1][0]
    li = linear_in(idx, [k])
    if li is None or abs(li[0] - 1) > 1e-12:
        return None
    return int(round(li[1].real))


# =========================================================================== emu-sv
def sv_paths(ctx):
    prog = ctx.prog
    K = prog.cls(SV)
    f = prog.find_method(K, "_run")
    ctx.require(f is not None, "SVBackendImpl._run not found")
    it = Interp(prog, K, max_depth=8)
    paths = [p for p in it.run(f) if p.status == "return"]
    ctx.require(paths, "SVBackendImpl._run: no returning path")
    ctx.count("paths", len(paths))
    return K, f, paths


def _loop_elem(path: Path, func_q: str):
    """(k atom, loop id, iterable term) of the single for-loop of `func_q` on this path."""
    for e in path.events:
        for c in e.ctx:
            if c[0] == "loop" and c[1][0] == func_q:
                lid = c[1]
                for ee in path.events:
                    for t in list(ee.args.values()) + list(ee.pos):
                        for s in walk(t):
                            if s[0] == "elem" and s[2] == lid:
                                return s, lid, s[1]
    return None, None, None


def step_sv(ctx) -> None:
    prog = ctx.prog
    K, f, paths = sv_paths(ctx)
    fd = field_defs(prog, K)
    seen_apply = 0
    for p in paths:
        k, lid, it_term = _loop_elem(p, f.qualname)
        ctx.require(k is not None, "STEP-sv: the stepping loop of SVBackendImpl._run was not found")
        # O8: ascending range(nsteps), nsteps = number of rows of the drive
        rng = strip_typed(it_term)
        ok8 = rng[0] == "call" and rng[1] == "range" and len(rng[2]) == 1
        nsteps_ok = False
        if ok8:
            n = strip_typed(rng[2][0])
            defs = fd.get(n[2], []) if n[0] == "attr" and n[1] == SELF else []
            for v, ev in defs:
                s = show(v)
                if ".omega.shape[0]" in s or ".delta.shape[0]" in s or ".phi.shape[0]" in s:
                    nsteps_ok = True
                li = None
            # also accept len(target_times) - 1
            for v, ev in defs:
                pv = monomials(v)
                if len(pv) == 2 and pv.get((), 0) == -1 and any("target_times" in show(m[0]) and "len" in show(m[0]) for m in pv if m):
                    nsteps_ok = True
        loop_node = _find_loop(f, lid)
        has_jump = any(isinstance(n, (ast.Break, ast.Continue)) for n in ast.walk(loop_node)) if loop_node else True
        ctx.ob("STEP-sv", "O8 loop bounds", f.loc(loop_node), ok8 and nsteps_ok and not has_jump,
               "one iteration per drive row: range(nsteps), nsteps = rows of the drive, no break/continue"
               if ok8 and nsteps_ok and not has_jump else
               f"the stepping loop iterates over {show(it_term)[:80]}"
               + ("" if nsteps_ok else " whose bound is not the number of drive rows")
               + (" and contains break/continue" if has_jump else "")
               + " — steps are skipped or the drive is indexed out of range", entry=f.qualname)
        in_loop = [e for e in p.events if ("loop", lid) in e.ctx]
        applies = [e for e in in_loop if e.kind == "call" and e.name == ".apply"
                   and strip_typed(e.recv) == ("attr", SELF, "stepper")]
        ctx.require(len(applies) == 1, f"STEP-sv: {len(applies)} stepper.apply calls per iteration (expected 1)")
        a = applies[0]
        seen_apply += 1
        # the stepper protocol (shared by the autograd Function and the density-matrix stepper) is exactly: dt, Ω, δ, φ,
        # interaction matrix, state, tolerance, jump operators — everything the step depends on is passed anew each step
        extra = len(a.pos) > 8 or any(isinstance(x, ast.Starred) for x in getattr(a.node, "args", []))
        ctx.ob("STEP-sv", "stepper protocol", a.loc(), not extra,
               "the stepper receives the eight per-step arguments and nothing carried over from the previous step" if not extra else
               f"stepper.apply receives {len(a.pos)} positional arguments (the protocol has 8): something beyond the drives, "
               f"the interaction matrix, the state, the tolerance and the jump operators of *this* step — e.g. the previous "
               f"step's generator — reaches the stepper, so a step can evolve under another step's Hamiltonian", entry=f.qualname)
        if extra:
            continue
        ctx.require(len(a.pos) == 8 and not a.kw, f"STEP-sv: stepper.apply is called with {len(a.pos)} positional "
                                                   f"and {len(a.kw)} keyword arguments (8 positional expected)")
        dt, om, de, ph, um, st, tol, lb = a.pos
        # O1 + UNITS
        tf = _time_form(dt, k)
        ok1 = tf is not None and set(tf) == {0, 1} and abs(tf[1] + tf[0]) < 1e-15 and tf[1].real > 0
        ctx.ob("STEP-sv", "O1 dt", a.loc(), ok1,
               "dt handed to the stepper is c·(T[k+1] − T[k])" if ok1 else
               f"dt handed to the stepper is {show(dt)[:120]}, not a positive multiple of T[k+1] − T[k]",
               entry=f.qualname)
        if ok1:
            c = tf[1]
            oku = abs(c - CONV) < 1e-15
            ctx.ob("UNITS-sv", "ns→µs factor", a.loc(), oku,
                   "exactly one factor 1e-3 between target_times (ns) and the exponent (rad/µs · µs)" if oku else
                   f"the time step reaches the stepper scaled by {c.real:g} instead of 1e-3 (ns→µs): the "
                   f"evolution runs {c.real / CONV:g}× too long/short", entry=f.qualname)
        # O2-O4 rows
        for name, term in (("omega", om), ("delta", de), ("phi", ph)):
            off = _row_form(term, name, k)
            ok = off == 0
            ctx.ob("STEP-sv", f"O2-4 row {name}", a.loc(), ok,
                   f"step k uses {name}[k]" if ok else
                   f"step k evolves with {show(term)[:80]} in the {name} position (expected self.{name}[k])",
                   entry=f.qualname)
        # O5 interaction time inside [T[k], T[k+1]]
        um0 = strip_typed(um)
        ok5 = False
        detail5 = f"interaction matrix argument is {show(um)[:100]}"
        targ = None
        if um0[0] == "vcall" and strip_typed(um0[1]) == ("attr", SELF, "interaction_matrix") and len(um0[2]) == 1:
            targ = um0[2][0]
        elif um0[0] == "mcall" and um0[1] == SELF and um0[2] == "interaction_matrix" and len(um0[3]) == 1:
            targ = um0[3][0]
        if targ is not None:
            um0 = ("vcall", None, (targ,))
            tf5 = _time_form(um0[2][0], k)
            if tf5 is not None and set(tf5) <= {0, 1} and all(c.imag == 0 and c.real >= -1e-15 for c in tf5.values()) \
                    and abs(sum(tf5.values()) - 1) < 1e-12 and tf5.get(0, 0).real > 1e-12:
                # strictly before T[k+1]: the matrix switches at t >= slm_end_time, so T[k+1] already belongs to the next step
                ok5 = True
            detail5 = f"interaction matrix queried at {show(um0[2][0])[:100]}"
        ctx.ob("STEP-sv", "O5 interaction time", a.loc(), ok5,
               "the interaction matrix of step k is queried at a time in [T[k], T[k+1])" if ok5 else
               detail5 + " — not a time inside the half-open step [T[k], T[k+1]) being evolved (at T[k+1] the SLM mask "
                         "of the next step already applies)", entry=f.qualname)
        # ROLE: state / tolerance / lindblads
        okst = strip_typed(st) == ("attr", ("attr", SELF, "state"), "data")
        ctx.ob("ROLE-sv", "state argument", a.loc(), okst,
               "the current state's data is evolved" if okst else f"the stepper evolves {show(st)[:80]}",
               entry=f.qualname)
        oktol = contains(tol, lambda t: t[0] == "attr" and t[2] == "krylov_tolerance")
        ctx.ob("ROLE-sv", "tolerance argument", a.loc(), oktol,
               "config.krylov_tolerance is the Krylov tolerance" if oktol else
               f"the Krylov tolerance argument is {show(tol)[:80]}", entry=f.qualname)
        lb_defs = fd.get("pulser_lindblads", [])
        oklb = strip_typed(lb) == ("attr", SELF, "pulser_lindblads") and any(
            contains(v, lambda t: t[0] == "attr" and t[2] == "lindblad_ops") for v, _ in lb_defs)
        ctx.ob("ROLE-sv", "lindblad argument", a.loc(), oklb,
               "SequenceData.lindblad_ops are the jump operators" if oklb else
               f"the jump-operator argument is {show(lb)[:80]}", entry=f.qualname)
        # O7 state stored from the stepper's first result, before observables
        stores = [e for e in in_loop if e.kind == "setattr" and e.name == "data"
                  and strip_typed(e.target[0]) == ("attr", SELF, "state")]
        obs_calls = [e for e in in_loop if e.kind == "call" and e.name.endswith("._apply_observables")]
        ctx.require(obs_calls, "STEP-sv: _apply_observables is not called in the stepping loop")
        ok7 = False
        if stores:
            v = strip_typed(stores[-1].value)
            first = (v[0] == "unpack" and v[2] == 0 and strip_typed(v[1]) == strip_typed(a.result)) or \
                    (v[0] == "sub" and strip_typed(v[1]) == strip_typed(a.result) and v[2] == ("const", 0))
            ok7 = first and p.events.index(stores[-1]) < p.events.index(obs_calls[0]) and \
                p.events.index(a) < p.events.index(stores[-1])
        ctx.ob("STEP-sv", "O7 state store", (stores[-1] if stores else a).loc(), ok7,
               "state.data ← first result of the stepper, before the observables of T[k+1]" if ok7 else
               "the evolved vector is not stored into self.state.data before the observables are applied",
               entry=f.qualname)
        # O6 observables at k+1 after the step, at 0 before the loop
        o = obs_calls[0]
        li = linear_in(o.args.get("step_idx"), [k])
        ok6 = li is not None and abs(li[0] - 1) < 1e-12 and abs(li[1] - 1) < 1e-12
        ctx.ob("STEP-sv", "O6 observable index", o.loc(), ok6,
               "after evolving step k the observables are applied with index k+1" if ok6 else
               f"after evolving step k the observables are applied with index {show(o.args.get('step_idx'))[:60]}",
               entry=f.qualname)
        pre = [e for e in p.events if e.kind == "call" and e.name.endswith("._apply_observables")
               and ("loop", lid) not in e.ctx and p.events.index(e) < p.events.index(a)]
        ok0 = len(pre) == 1 and is_const(pre[0].args.get("step_idx"), 0)
        ctx.ob("STEP-sv", "O6 observables at t=0", f.loc(), ok0,
               "_apply_observables(0) runs once before the first step" if ok0 else
               "the observables at t = 0 are not applied exactly once before the first step", entry=f.qualname)
        # time handed to callbacks: T[idx]/T[-1] with the same idx
        for e in in_loop:
            if e.kind == "call" and e.name == "<value>" and len(e.pos) == 5:
                tfc = _callback_time(e.pos[1], k)
                okc = tfc == 1
                ctx.ob("ONCE-sv", "callback time", e.loc(), okc,
                       "callbacks after step k receive T[k+1]/T[-1]" if okc else
                       f"callbacks after step k receive the time {show(e.pos[1])[:80]}", entry=f.qualname)
                okS = strip_typed(e.pos[2]) == ("attr", SELF, "state")
                ctx.ob("ROLE-sv", "callback state", e.loc(), okS,
                       "callbacks read self.state" if okS else f"callbacks read {show(e.pos[2])[:60]}",
                       entry=f.qualname)
    ctx.require(seen_apply >= 1, "STEP-sv: no stepper.apply event")


def _callback_time(term, k):
    """offset o if term == T[k+o] / T[-1]."""
    t = strip_typed(term)
    if t[0] == "bin" and t[1] == "Div":
        num, den = t[2], t[3]
        d = strip_typed(den)
        if _is_T(d) and is_const(d[2], -1):
            tf = _time_form(num, k)
            if tf is not None and len(tf) == 1:
                off, c = next(iter(tf.items()))
                if abs(c - 1) < 1e-12:
                    return off
    return None


def _find_loop(f: FuncInfo, lid):
    for n in ast.walk(f.node):
        if isinstance(n, (ast.For, ast.While)) and lid is not None and n.lineno == lid[1]:
            return n
    return None


def role_sv_steppers(ctx) -> None:
    """Positional binding of stepper.apply's 8 arguments to each stepper class, and on to the Hamiltonian."""
    prog = ctx.prog
    K = prog.cls(SV)
    fd = field_defs(prog, K)
    steppers = set()
    for v, ev in fd.get("stepper", []):
        for t in walk(v):
            if t[0] == "ref" and t[1] in prog.classes:
                steppers.add(t[1])
    # the stepper is chosen together with the state type under one condition
    init = prog.find_method(K, "__init__")
    it = Interp(prog, K, max_depth=8)
    pairs = set()
    for p in it.run(init):
        if p.status != "return":
            continue
        st = p.heap.get((SELF, "stepper"))
        state = p.heap.get((SELF, "state"))
        stq = strip_typed(st)[1] if st and strip_typed(st)[0] == "ref" else show(st)
        sq = None
        if state is not None:
            for t in walk(state):
                if t[0] in ("new",) and t[1] in prog.classes:
                    sq = t[1]
                    break
                if t[0] in ("mcall", "call") and isinstance(t[1 if t[0] == "call" else 2], str):
                    q = t[1 if t[0] == "call" else 2]
                    if q in prog.funcs and prog.funcs[q].cls is not None:
                        sq = prog.funcs[q].cls.qualname
                        break
        pairs.add((stq.split(".")[-1], (sq or "?").split(".")[-1]))
        steppers.add(stq) if stq in prog.classes else None
    want = {("EvolveStateVector", "StateVector"), ("EvolveDensityMatrix", "DensityMatrix")}
    ctx.ob("ROLE-sv", "stepper/state pairing", init.loc(), pairs == want,
           "EvolveStateVector⇄StateVector and EvolveDensityMatrix⇄DensityMatrix are selected by one condition"
           if pairs == want else f"stepper/state combinations reachable in __init__: {sorted(pairs)}")
    # lindblad condition selects the density-matrix stepper
    ctx.require(len(steppers) == 2, f"ROLE-sv: stepper classes found: {sorted(steppers)}")
    expected = ["dt", "omega", "delta", "phi", "U", "state", "tol", "lindblads"]
    role_of = {"dt": "dt", "omegas": "omega", "deltas": "delta", "phis": "phi", "interaction_matrix": "U",
               "full_interaction_matrix": "U", "state": "state", "density_matrix": "state",
               "krylov_tolerance": "tol", "pulser_lindblads": "lindblads"}
    for sq in sorted(steppers):
        C = prog.classes[sq]
        is_autograd = any(b.endswith("autograd.Function") for b in prog.external_bases(C))
        entry = C.methods.get("forward") if is_autograd else C.methods.get("apply")
        ctx.require(entry is not None, f"ROLE-sv: {sq} has no {'forward' if is_autograd else 'apply'}")
        params = entry.params[1:] if is_autograd else entry.params
        roles = [role_of.get(x, "?" + x) for x in params]
        ok = roles == expected
        ctx.ob("ROLE-sv", f"{C.name} parameter order", entry.loc(), ok,
               f"{C.name}.{entry.name} takes (dt, omegas, deltas, phis, U, state, tolerance, lindblads) in the order "
               f"the driver passes them" if ok else
               f"{C.name}.{entry.name} takes {params}; the driver passes (dt, omega, delta, phi, U, state, tol, "
               f"lindblads) positionally")
        # inside the stepper: parameters reach the Hamiltonian constructor under the same role
        _stepper_to_hamiltonian(ctx, C, entry, role_of)


def _stepper_to_hamiltonian(ctx, C, entry: FuncInfo, role_of: dict) -> None:
    prog = ctx.prog

    def inline(callee, recv, depth):
        return callee.cls is not None and callee.cls.qualname == C.qualname

    it = Interp(prog, C, inline=inline, max_depth=6)
    paths = [p for p in it.run(entry) if p.status == "return"]
    ctx.require(paths, f"{entry.qualname}: no returning path")
    want = {"omegas": "omega", "deltas": "delta", "phis": "phi", "interaction_matrix": "U",
            "pulser_lindblads": "lindblads"}
    n = 0
    for p in paths:
        for e in p.events:
            if e.kind == "call" and e.callee is not None and getattr(e.callee, "name", "") in \
                    ("RydbergHamiltonian", "RydbergLindbladian"):
                n += 1
                for pname, role in want.items():
                    if pname not in e.args:
                        continue
                    v = strip_typed(e.args[pname])
                    got = role_of.get(v[2], "?") if v[0] == "param" else show(v)
                    ok = got == role
                    ctx.ob("ROLE-sv", f"{C.name}→{e.callee.name}.{pname}", e.loc(), ok,
                           f"{e.callee.name}({pname}=) receives the stepper's {role} argument" if ok else
                           f"{e.callee.name}({pname}=) receives the stepper's {got} argument", entry=entry.qualname)
                is_l = e.callee.name == "RydbergLindbladian"
        # krylov_exp call: tolerance + hermitian flag + dt in the exponent
        for e in p.events:
            if e.kind == "call" and e.name == "emu_base.math.krylov_exp.krylov_exp":
                herm = e.args.get("is_hermitian")
                hv = strip_typed(herm)
                hv = hv[1] if hv[0] == "default" else hv
                want_h = C.name == "EvolveStateVector"
                okh = hv == ("const", want_h)
                ctx.ob("HERM", f"{C.name}.{e.func.name}", e.loc(), okh,
                       f"is_hermitian={want_h} for the {'Hamiltonian' if want_h else 'Lindbladian'} generator"
                       if okh else
                       f"krylov_exp is called with is_hermitian={show(herm)} for the "
                       f"{'Hermitian Hamiltonian (Arnoldi is wasteful but correct)' if want_h else 'non-normal Lindblad generator: the 3-term Lanczos recurrence silently drops Krylov components'}",
                       entry=entry.qualname)
                for tn in ("exp_tolerance", "norm_tolerance"):
                    tv = strip_typed(e.args.get(tn))
                    okt = tv[0] == "param" and role_of.get(tv[2]) == "tol"
                    ctx.ob("ROLE-sv", f"{C.name}.{tn}", e.loc(), okt,
                           f"{tn} is the stepper's tolerance argument" if okt else
                           f"{tn} = {show(tv)[:60]} is not the stepper's tolerance argument", entry=entry.qualname)
                st = strip_typed(e.args.get("v"))
                oks = st[0] == "param" and role_of.get(st[2]) == "state"
                ctx.ob("ROLE-sv", f"{C.name}.exponentiated vector", e.loc(), oks,
                       "the vector exponentiated is the stepper's state argument" if oks else
                       f"krylov_exp acts on {show(st)[:60]}", entry=entry.qualname)
    ctx.require(n >= 1, f"ROLE-sv: no Hamiltonian constructor reached from {entry.qualname}")
    # the generator handed back (and exponentiated) is the one built in this call, on every path
    stale = []
    for p in paths:
        rv = strip_typed(p.retval) if p.status == "return" else None
        if rv is None or rv[0] != "tuple" or len(rv[1]) != 2:
            continue
        h = strip_typed(rv[1][1])
        built = h[0] in ("call", "mcall", "new") and ("get_hamiltonian" in show(h)[:60] or h[1].endswith(("RydbergHamiltonian", "RydbergLindbladian")))
        if not built:
            stale.append(show(h)[:70])
    ctx.ob("ROLE-sv", f"{C.name} builds its generator in the call", entry.loc(), not stale,
           "the generator returned with the new state is the one constructed from this call's arguments" if not stale else
           f"{entry.qualname.split('.')[-2]}.{entry.name} returns/uses the generator {stale[0]}, which is not (always) the one "
           f"built from this step's drives and interaction matrix", entry=entry.qualname)
    # no path bypasses the exponentiation: the state component of every returned value is krylov_exp(...)'s result
    bypass = []
    for p in paths:
        rv = strip_typed(p.retval)
        first = strip_typed(rv[1][0]) if rv[0] == "tuple" and rv[1] else rv
        if not contains(first, lambda t: t[0] == "call" and t[1] == "emu_base.math.krylov_exp.krylov_exp"):
            conds = "; ".join(f"{show(c)[:50]}={t}" for c, t in p.cond_log)
            bypass.append(f"[{conds}] returns {show(first)[:60]}")
    ctx.ob("STEP-sv", f"{C.name} every path exponentiates", entry.loc(), not bypass,
           f"every path of {C.name}.{entry.name} returns exp(−i·dt·G)·state computed by krylov_exp" if not bypass else
           f"{C.name}.{entry.name} has a path that returns without exponentiating: {bypass[0]} — the interaction and "
           f"detuning terms act even when a drive is zero, so the state is not constant on such a step",
           entry=entry.qualname)
    # exponent: the callable handed to krylov_exp is x ↦ -1j * dt * (H x)
    gens = set()
    for p in paths:
        for e in p.events:
            if e.kind == "call" and e.name == "emu_base.math.krylov_exp.krylov_exp":
                g = strip_typed(e.args.get("op"))
                if g[0] == "localfunc":
                    gens.add(g[1])
    ctx.require(len(gens) == 1, f"UNITS-sv: generator passed to krylov_exp by {C.name} not identified: {sorted(gens)}")
    sub = prog.funcs.get(next(iter(gens)))
    ctx.require(sub is not None, "UNITS-sv: nested generator function not found")
    itx = Interp(prog, None, inline=lambda c, r, d: False)
    px = itx.run(sub)[0]
    mons = monomials(px.retval)
    ok = False
    detail = show(px.retval)[:100]
    if len(mons) == 1:
        (m, c), = mons.items()
        # the closure variable dt of the enclosing stepper method
        ndt = sum(1 for a in m if show(a) == "dt")
        rest = sorted(show(a).replace(" ", "") for a in m if show(a) != "dt")
        xname = sub.params[0] if sub.params else "x"
        # what is left is the generator applied to the argument: H·x (two atoms) or (H @ x) (one atom), nothing else
        applied = (len(rest) == 2 and xname in rest and all(r.isidentifier() for r in rest)) or \
                  (len(rest) == 1 and rest[0].startswith("(") and rest[0].endswith(f"@{xname})") and rest[0][1:].split("@")[0].isidentifier())
        ok = abs(c - (-1j)) < 1e-12 and ndt == 1 and applied
    ctx.ob("UNITS-sv", f"{C.name} exponent", sub.loc(), ok,
           "the generator is −i·dt·(H x) with the stepper's dt" if ok else
           f"the generator handed to krylov_exp is {detail}, not −i·dt·(H x)", entry=sub.parent.qualname)


# =========================================================================== emu-mps
def mps_classes(prog):
    return [prog.cls(MPS), prog.cls("emu_mps.mps_backend_impl.NoisyMPSBackendImpl"),
            prog.cls("emu_mps.mps_backend_impl.DMRGBackendImpl")]


def step_mps(ctx) -> None:
    prog = ctx.prog
    base = prog.cls(MPS)
    # ---- base case
    for name, want in (("_timestep_index", 0), ("current_time", 0.0)):
        found = prog.find_class_attr(base, name)
        v = util.const_value(prog, base.module, found[1][1]) if found and found[1][1] is not None else None
        ctx.ob("STEP-mps", f"base {name}", base.module.relpath + f":{base.node.lineno}", v == want,
               f"class default {name} = {want}" if v == want else f"class default {name} is {v!r}, expected {want}",
               nontrivial=False)
    fd = field_defs(prog, base)
    init = base.methods["__init__"]
    tt = [v for v, ev in fd.get("target_time", []) if ev is not None and ev.func.name == "__init__"]
    ok = len(tt) == 1 and _tt_index(tt[0]) == ("abs", 1)
    ctx.ob("STEP-mps", "base target_time", init.loc(), ok,
           "__init__ sets target_time = target_times[1]" if ok else
           f"__init__ sets target_time = {show(tt[0]) if tt else 'nothing'}")
    # writers of the step bookkeeping fields (ownership)
    owners = {"_timestep_index": {"timestep_complete"}, "current_time": {"sweep_complete"},
              "target_time": {"__init__", "timestep_complete", "sweep_complete"}}
    for K in mps_classes(prog):
        fdk = field_defs(prog, K)
        for fld, allowed in owners.items():
            writers = {ev.func.name for v, ev in fdk.get(fld, []) if ev is not None}
            extra = writers - allowed
            ctx.ob("JUMP-ownership", f"{K.name}.{fld}", K.module.relpath + f":{K.node.lineno}", not extra,
                   f"{fld} is written only by {sorted(writers)}" if not extra else
                   f"{fld} is also written by {sorted(extra)} — the step bookkeeping can drift from the drive rows")
    # ---- init(): Hamiltonian filled with row _timestep_index (=0), results at t=0, baths last
    for K in mps_classes(prog):
        it = Interp(prog, K, max_depth=8)
        f = prog.find_method(K, "init")
        paths = [p for p in it.run(f) if p.status == "return"]
        ctx.require(paths, f"{K.name}.init: no returning path")
        ctx.count("paths", len(paths))
        for p in paths:
            _check_init_path(ctx, K, f, p)
    # ---- inductive step
    for K in mps_classes(prog):
        it = Interp(prog, K, max_depth=8)
        f = prog.find_method(K, "sweep_complete")
        paths = [p for p in it.run(f) if p.status == "return"]
        ctx.count("paths", len(paths))
        completing = [p for p in paths if any(e.kind == "call" and e.name.endswith(".timestep_complete") for e in p.events)]
        ctx.require(completing, f"{K.name}.sweep_complete: no path completes a time step")
        for p in completing:
            _check_step_path(ctx, K, f, p)
    # ---- progress: delta_time = target_time - current_time
    for K in (prog.cls(MPS), prog.cls("emu_mps.mps_backend_impl.NoisyMPSBackendImpl")):
        it = Interp(prog, K, inline=lambda c, r, d: False)
        f = prog.find_method(K, "progress")
        n = 0
        for p in it.run(f):
            for e in p.events:
                if e.kind == "call" and e.callee is not None and "delta_time" in e.args:
                    n += 1
                    li = linear_in(e.args["delta_time"], [("attr", SELF, "target_time"), ("attr", SELF, "current_time")])
                    ok = li is not None and abs(li[0] - 1) < 1e-12 and abs(li[1] + 1) < 1e-12 and abs(li[2]) < 1e-12
                    ctx.ob("STEP-mps", f"progress delta_time→{e.callee.name}", e.loc(), ok,
                           "a sweep evolves by target_time − current_time" if ok else
                           f"a sweep evolves by {show(e.args['delta_time'])[:80]} instead of target_time − current_time",
                           entry=f.qualname)
        ctx.require(n >= 2, f"{K.name}.progress: sweep-move calls with delta_time not found")


def _tt_index(term):
    """('rel', o) for target_times[_timestep_index + o]; ('abs', n) for a constant index; None otherwise."""
    t = strip_typed(term)
    if not _is_T(t):
        return None
    idx = t[2]
    li = linear_in(idx, [("attr", SELF, "_timestep_index")])
    if li is None:
        return None
    if abs(li[0]) < 1e-12:
        return ("abs", int(round(li[1].real)))
    if abs(li[0] - 1) < 1e-12:
        return ("rel", int(round(li[1].real)))
    return None


def _update_H_rows(ctx, e: Event, base_idx, what: str, entry: str) -> None:
    """rows of omega/delta/phi handed to hamiltonian.update_H equal `base_idx` (a term)."""
    for name in ("omega", "delta", "phi"):
        v = strip_typed(e.args.get(name))
        ok = False
        got = show(v)[:80]
        if v[0] == "sub" and _drive_base_ok(v[1], name):
            idx = v[2]
            if idx[0] == "tuple" and len(idx[1]) == 2 and idx[1][1][0] == "slice":
                idx = idx[1][0]
            ok = same(idx, base_idx)
        ctx.ob("STEP-mps", f"{e.func.qualname} row {name} ({what})", e.loc(), ok,
               f"{what}: update_H({name}=) is row _timestep_index of self.{name}" if ok else
               f"{what}: update_H({name}={got}) is not row {show(base_idx)} of self.{name}", entry=entry)


def _check_init_path(ctx, K, f, p: Path) -> None:
    ev = p.events
    upd = [e for e in ev if e.kind == "call" and e.name == "emu_mps.hamiltonian.update_H"]
    fills = [e for e in ev if e.kind == "call" and e.name.endswith(".fill_results")]
    baths = [e for e in ev if e.kind == "call" and e.name.endswith(".init_baths")]
    idx_stores = [e for e in ev if e.kind == "setattr" and e.name == "_timestep_index" and e.target[0] == SELF]
    ctx.ob("STEP-mps", f"{K.name}.init no index store", f.loc(), not idx_stores,
           "init() leaves _timestep_index at its initial value" if not idx_stores else
           "init() changes _timestep_index", entry=f.qualname)
    ctx.require(upd, f"{K.name}.init: hamiltonian.update_H not reached")
    for e in upd:
        _update_H_rows(ctx, e, ("attr", SELF, "_timestep_index"), "init", f.qualname)
    ok = len(fills) == 1 and baths and ev.index(fills[0]) < ev.index(upd[-1]) < ev.index(baths[-1])
    last_noise = strip_typed(upd[-1].args.get("noise"))
    ctx.ob("ONCE-mps", f"{K.name}.init order", f.loc(), bool(ok),
           "init(): results at t=0 once, then the final update_H, then init_baths" if ok else
           f"init(): fill_results×{len(fills)}, update_H×{len(upd)}, init_baths×{len(baths)} not in the order "
           f"fill_results ≺ update_H ≺ init_baths", entry=f.qualname)
    oknoise = _noise_ok(p, upd[-1], last_noise)
    ctx.ob("ROLE-mps", f"{K.name}.init noise term", upd[-1].loc(), oknoise,
           "evolution Hamiltonian carries self.lindblad_noise" if oknoise else
           f"the Hamiltonian left by init() carries noise={show(last_noise)[:60]}", entry=f.qualname)


def _check_step_path(ctx, K, f, p: Path) -> None:
    ev = p.events
    tag = K.name
    pre_idx = ("attr", SELF, "_timestep_index")
    idx_stores = [e for e in ev if e.kind == "setattr" and e.name == "_timestep_index" and e.target[0] == SELF]
    ok = len(idx_stores) == 1 and linear_in(idx_stores[0].value, [pre_idx]) is not None and \
        same(idx_stores[0].value, ("bin", "Add", pre_idx, ("const", 1)))
    where = idx_stores[0].loc() if idx_stores else f.loc()
    ctx.ob("STEP-mps", f"{tag} index += 1", where, ok,
           "completing a step advances _timestep_index by exactly 1" if ok else
           f"completing a step stores _timestep_index {len(idx_stores)} time(s)"
           + (f": {show(idx_stores[0].value)[:60]}" if idx_stores else ""), entry=f.qualname)
    if not ok:
        return
    post_idx = idx_stores[0].value
    cur = [e for e in ev if e.kind == "setattr" and e.name == "current_time" and e.target[0] == SELF]
    okc = len(cur) == 1 and strip_typed(cur[0].value) == ("attr", SELF, "target_time") and \
        ev.index(cur[0]) < ev.index(idx_stores[0])
    ctx.ob("STEP-mps", f"{tag} current_time", (cur[0] if cur else idx_stores[0]).loc(), okc,
           "current_time ← target_time before the step is completed" if okc else
           "current_time is not set from the (old) target_time exactly once before the step completes",
           entry=f.qualname)
    fills = [e for e in ev if e.kind == "call" and e.name.endswith(".fill_results")]
    okf = len(fills) == 1 and ev.index(fills[0]) < ev.index(idx_stores[0]) and (not cur or ev.index(cur[0]) < ev.index(fills[0]))
    ctx.ob("ONCE-mps", f"{tag} fill_results once per step", (fills[0] if fills else idx_stores[0]).loc(), okf,
           "fill_results runs exactly once per completed step, after current_time is set and before the index advances"
           if okf else f"fill_results runs {len(fills)} time(s) per completed step or not between the time update and "
                       f"the index increment — observables are recorded at the wrong time or not once", entry=f.qualname)
    finished = None
    for c, t in p.cond_log:
        o = cmp_with_left(c, lambda x: not contains(x, lambda y: y[0] == "attr" and y[2] == "timestep_count"))
        if o is not None and o[0] == ">=" and contains(o[2], lambda x: x[0] == "attr" and x[2] == "timestep_count"):
            finished = t
    tgt = [e for e in ev if e.kind == "setattr" and e.name == "target_time" and e.target[0] == SELF]
    upd = [e for e in ev if e.kind == "call" and e.name == "emu_mps.hamiltonian.update_H"
           and ev.index(e) > ev.index(idx_stores[0])]
    baths = [e for e in ev if e.kind == "call" and e.name.endswith(".init_baths") and ev.index(e) > ev.index(idx_stores[0])]
    if finished is False:
        okt = len(tgt) == 1 and _is_T(tgt[0].value) and same(strip_typed(tgt[0].value)[2], ("bin", "Add", post_idx, ("const", 1)))
        ctx.ob("STEP-mps", f"{tag} next target_time", (tgt[0] if tgt else idx_stores[0]).loc(), okt,
               "target_time ← target_times[new index + 1]" if okt else
               f"after advancing to step i+1 target_time is {show(tgt[0].value)[:70] if tgt else 'not updated'}, "
               f"not target_times[i+2]", entry=f.qualname)
        oko = len(upd) >= 1 and len(baths) == 1 and tgt and ev.index(tgt[-1]) < ev.index(baths[0]) and \
            ev.index(upd[-1]) < ev.index(baths[0])
        ctx.ob("BATHS-fresh", f"{tag} step order", (baths[0] if baths else idx_stores[0]).loc(), bool(oko),
               "index+=1 ≺ update_H ≺ init_baths: baths are rebuilt from the refreshed Hamiltonian" if oko else
               f"after the index advances: update_H×{len(upd)}, init_baths×{len(baths)} not in the order "
               f"update_H ≺ init_baths — the next step would sweep with stale environments", entry=f.qualname)
        for e in upd:
            _update_H_rows(ctx, e, post_idx, f"{tag} next step", f.qualname)
        if upd:
            nz = strip_typed(upd[-1].args.get("noise"))
            okn = _noise_ok(p, upd[-1], nz)
            ctx.ob("ROLE-mps", f"{tag} step noise term", upd[-1].loc(), okn,
                   "the Hamiltonian of the next step carries self.lindblad_noise" if okn else
                   f"the next step evolves with noise={show(nz)[:60]}", entry=f.qualname)
    # Hamiltonian replaced ⇒ update_H + init_baths afterwards (only matters when not finished)
    hstores = [e for e in ev if e.kind == "setattr" and e.name == "hamiltonian" and e.target[0] == SELF]
    if hstores and finished is False:
        okh = upd and baths and ev.index(hstores[-1]) < ev.index(upd[-1]) < ev.index(baths[-1])
        ctx.ob("BATHS-fresh", f"{tag} new hamiltonian", hstores[-1].loc(), bool(okh),
               "a rebuilt Hamiltonian is filled (update_H) and its baths rebuilt before the next sweep" if okh else
               "self.hamiltonian is replaced without a following update_H and init_baths", entry=f.qualname)


# ===================================================================== initial states
def sv_initial_state(ctx) -> None:
    """SVBackendImpl.__init__: the evolved state is a *clone* of the user's initial state (or the all-ground state
    of the right size), and a size mismatch raises."""
    prog = ctx.prog
    K = prog.cls(SV)
    f = K.methods["__init__"]
    it = Interp(prog, K, inline=lambda c, r, d: False)
    paths = it.run(f)
    rets = [p for p in paths if p.status == "return"]
    ctx.require(rets, "SVBackendImpl.__init__: no returning path")
    user = default = 0
    okc = okd = True
    for p in rets:
        st = p.heap.get((SELF, "state"))
        if st is None:
            continue
        s = show(st)
        given = any("initial_state is None" in show(c) and t is False for c, t in p.cond_log)
        if given:
            user += 1
            okc = okc and "initial_state.data.clone()" in s
        else:
            default += 1
            okd = okd and ".make(" in s and ("self.nqubits" in s or "omega.shape[1]" in s)
    ctx.ob("ROLE-sv", "initial state cloned", f.loc(), okc and user >= 1,
           "a user initial state is cloned before it is evolved in place" if okc and user else
           "the user's initial state tensor is not cloned: the run overwrites the object the caller still holds")
    ctx.ob("ROLE-sv", "default initial state", f.loc(), okd and default >= 1,
           "without an initial state the run starts from make(nqubits)" if okd and default else
           "the default initial state is not state_type.make(number of atoms)")
    mism = any(p.status == "raise" and p.cond_log and "n_qudits" in show(p.cond_log[-1][0]) and "!=" in show(p.cond_log[-1][0]).replace("==", "!=")
               for p in paths)
    ctx.ob("ROLE-sv", "initial state size check", f.loc(), mism,
           "an initial state with another number of atoms raises" if mism else
           "an initial state whose size differs from the register is accepted")
    fd = field_defs(prog, K)
    okn = any("omega.shape[1]" in show(v) for v, _ in fd.get("nqubits", []))
    ctx.ob("ROLE-sv", "nqubits", f.loc(), okn, "nqubits = number of drive columns" if okn else
           f"nqubits = {[show(v) for v, _ in fd.get('nqubits', [])]}")


def mps_initial_state(ctx) -> None:
    """MPSBackendImpl.init_initial_state: a user state is deep-copied, truncated, normalised and gauged to site 0;
    the default state has the run's precision / bond cap / eigenstates."""
    prog = ctx.prog
    K = prog.cls(MPS)
    f = K.methods["init_initial_state"]
    it = Interp(prog, K, inline=lambda c, r, d: False)
    paths = [p for p in it.run(f) if p.status == "return"]
    n_user = n_default = 0
    for p in paths:
        ev = p.events
        st = [e for e in ev if e.kind == "setattr" and e.name == "state" and e.target[0] == SELF]
        if not st:
            continue
        given = any("initial_state is None" in show(c) and t is False for c, t in p.cond_log)
        if not given:
            n_default += 1
            mk = [e for e in ev if e.kind == "call" and e.name.endswith("MPS.make")]
            ok = len(mk) == 1 and show(mk[0].args.get("precision")).endswith("config.precision") and \
                show(mk[0].args.get("max_bond_dim")).endswith("config.max_bond_dim") and \
                show(mk[0].args.get("eigenstates")).endswith("self.eigenstates") and \
                show(mk[0].args.get("num_sites")).endswith("self.qubit_count")
            ctx.ob("ROLE-mps", "default initial state", (mk[0] if mk else f).loc() if mk else f.loc(), ok,
                   "default state: MPS.make(qubit_count, config.precision, config.max_bond_dim, eigenstates)" if ok else
                   "the default initial MPS is not built from qubit_count / config.precision / config.max_bond_dim / eigenstates",
                   entry=f.qualname)
            continue
        n_user += 1
        new = [e for e in ev if e.kind == "call" and e.name == "emu_mps.mps.MPS"]
        okcopy = False
        okcfg = False
        if new:
            e = new[-1]
            fac = strip_typed(e.args.get("factors"))
            okcopy = fac[0] == "comp" and ".clone()" in show(fac[2][0]) and "initial_state" in show(fac[3][0][0])
            okcfg = show(e.args.get("precision")).endswith("config.precision") and \
                show(e.args.get("max_bond_dim")).endswith("config.max_bond_dim")
        names = []
        for e in ev:
            if e.kind == "call" and e.name.endswith("MPS.truncate"):
                names.append("truncate")
            elif e.kind == "call" and e.name.endswith("orthogonalize"):
                names.append("orthogonalize")
            elif e.kind == "setattr" and e.name == "state":
                names.append("store")
        # the stored state is X·(1/‖X‖) for one and the same X: a single monomial X·‖X‖⁻¹ with coefficient 1
        normalised = normalised_by_own_norm(st[-1].value) is not None
        okseq = names[:1] == ["truncate"] and "store" in names and names[-1] == "orthogonalize" and normalised
        ctx.ob("ROLE-mps", "user initial state copied", (new[-1] if new else f).loc() if new else f.loc(), okcopy and okcfg,
               "the user's MPS factors are cloned into a new MPS with the run's precision and bond cap" if okcopy and okcfg
               else "the user's initial MPS is used without a deep copy / with its own precision: truncation and "
                    "normalisation would modify the caller's object", entry=f.qualname)
        ctx.ob("ROLE-mps", "user initial state prepared", f.loc(), okseq,
               "copy → truncate → normalise → store → orthogonalize(0)" if okseq else
               f"the user initial state is prepared as {names} (normalised: {normalised}); expected truncate, "
               f"normalise, store, orthogonalize(0)", entry=f.qualname)
    ctx.require(n_user >= 1 and n_default >= 1, "init_initial_state: user/default paths not found")


def hamiltonian_refresh(ctx) -> None:
    """timestep_complete: when the interaction matrix of the next step differs from the current one (SLM mask
    lifted), the Hamiltonian is rebuilt from the *new* matrix and the new matrix is remembered; otherwise it is kept."""
    prog = ctx.prog
    K = prog.cls(MPS)
    f = K.methods["timestep_complete"]

    def inline(callee, recv, depth):
        return recv == SELF and callee.name in ("_get_interaction_matrix", "is_finished")

    it = Interp(prog, K, inline=inline)
    changed = same_ = 0
    for p in it.run(f):
        if p.status != "return":
            continue
        ev = p.events
        cmpc = None
        for c, t in p.cond_log:
            c0 = strip_typed(c)
            if c0[0] == "call" and c0[1] in ("torch.allclose", "torch.equal") and \
                    any(strip_typed(a) == ("attr", SELF, "current_interaction_matrix") for a in c0[2]):
                cmpc = (c0, t)
        if cmpc is None:
            continue
        c0, same_matrix = cmpc
        new = [a for a in c0[2] if strip_typed(a) != ("attr", SELF, "current_interaction_matrix")]
        hs = [e for e in ev if e.kind == "setattr" and e.name == "hamiltonian" and e.target[0] == SELF]
        ms = [e for e in ev if e.kind == "setattr" and e.name == "current_interaction_matrix" and e.target[0] == SELF]
        idx = [e for e in ev if e.kind == "setattr" and e.name == "_timestep_index"]
        after_idx = bool(idx) and all(ev.index(idx[0]) < ev.index(e) for e in hs + ms)
        # the compared matrix is the one of the *next* step: queried after the index advanced
        q = [e for e in ev if e.kind == "call" and e.name == ".interaction_matrix"]
        new_is_next = bool(q) and bool(idx) and ev.index(idx[0]) < ev.index(q[0])
        if same_matrix:
            same_ += 1
            ok = not hs and not ms
            ctx.ob("INTERACT-refresh", "unchanged matrix keeps the Hamiltonian", f.loc(), ok,
                   "an unchanged interaction matrix keeps the MPO" if ok else
                   "the Hamiltonian is rebuilt although the interaction matrix did not change", entry=f.qualname)
        else:
            changed += 1
            ok = len(hs) == 1 and len(ms) == 1 and new and canon(ms[0].value) == canon(new[0]) and after_idx and new_is_next
            if ok:
                h = strip_typed(hs[0].value)
                ok = h[0] == "call" and h[1] == "emu_mps.hamiltonian.make_H" and \
                    canon(dict(h[3]).get("interaction_matrix")) == canon(new[0])
            ctx.ob("INTERACT-refresh", "changed matrix rebuilds the Hamiltonian", (hs[0] if hs else f).loc() if hs else f.loc(), bool(ok),
                   "when the next step's interaction matrix differs (e.g. the SLM mask ends) the MPO is rebuilt from it and "
                   "it becomes the current matrix" if ok else
                   "when the interaction matrix of the next step differs from the current one the Hamiltonian is not rebuilt "
                   "from the new matrix (or the new matrix is not remembered): the run keeps evolving with the SLM-masked "
                   "interactions after the mask has ended", entry=f.qualname)
    # the change detection compares what is stored with what is fresh: if fetching the matrix also stores it (or the same
    # value is passed twice) the comparison is vacuous and the Hamiltonian is never rebuilt
    selfcmp = None
    for p in it.run(f):
        for c, t in p.cond_log:
            c0 = strip_typed(c)
            if c0[0] == "call" and c0[1] in ("torch.allclose", "torch.equal") and len(c0[2]) >= 2 and \
                    canon(c0[2][0]) == canon(c0[2][1]):
                selfcmp = show(c0)[:90]
    getter = K.methods.get("_get_interaction_matrix")
    stores = [] if getter is None else [n for n in ast.walk(getter.node) if isinstance(n, (ast.Assign, ast.AugAssign, ast.AnnAssign))
                                        and any(isinstance(t_, ast.Attribute) and t_.attr == "current_interaction_matrix"
                                                for t_ in (n.targets if isinstance(n, ast.Assign) else [n.target]))]
    okv = selfcmp is None and not stores
    ctx.ob("INTERACT-refresh", "change detection compares stored with fresh", f.loc(), okv,
           "timestep_complete compares the remembered matrix with a freshly fetched one, and fetching does not store" if okv else
           ("_get_interaction_matrix stores self.current_interaction_matrix" if stores else f"timestep_complete evaluates {selfcmp}")
           + ": the comparison is between a matrix and itself, so the Hamiltonian is never rebuilt when the SLM mask ends",
           entry=f.qualname)
    if okv:
        ctx.require(changed >= 1 and same_ >= 1, "INTERACT-refresh: matrix comparison paths not found in timestep_complete")


def sv_initial_hamiltonian(ctx) -> None:
    """SVBackendImpl._apply_observables builds a Hamiltonian for the callbacks only while no step has produced one
    (`not self._current_H`): it is the Hamiltonian of the step about to start — drive rows of that step and the
    interaction matrix at a time inside it.  Rebuilding it when one exists would hand every energy observable the
    Hamiltonian of row 0."""
    prog = ctx.prog
    K = prog.cls("emu_sv.sv_backend_impl.SVBackendImpl")
    f = K.methods["_apply_observables"]
    it = Interp(prog, K, inline=lambda c, r, d: False, loop_iters=(1,))
    k = ("param", f.qualname, "step_idx")
    T = ("attr", SELF, "target_times")
    cur = ("attr", SELF, "_current_H")
    n = 0
    for p in it.run(f):
        gh = [e for e in p.events if e.kind == "call" and e.name.endswith("get_hamiltonian")]
        for e in gh:
            n += 1
            kw = dict(e.kw) if e.kw else dict(e.args)
            guarded = any(strip_typed(c) == cur and t is False for c, t in p.cond_log[: e.ncond])
            ctx.ob("STEP-sv", "initial Hamiltonian only when none exists", e.loc(), guarded,
                   "the callbacks' Hamiltonian is built only while no time step has produced one" if guarded else
                   "_apply_observables rebuilds self._current_H although a step has already stored the Hamiltonian of "
                   "the current time: energy observables are evaluated with the drives of row 0", entry=f.qualname)
            rows = {}
            for role, field in (("omegas", "omega"), ("deltas", "delta"), ("phis", "phi")):
                v = strip_typed(kw.get(role, ("const", None)))
                rows[role] = v[0] == "sub" and strip_typed(v[1]) == ("attr", SELF, field) and \
                    (is_const(v[2], 0) or strip_typed(v[2]) == k)
            okr = all(rows.values())
            ctx.ob("ROLE-sv", "initial Hamiltonian drive rows", e.loc(), okr,
                   "omegas/deltas/phis = row of the first step of self.omega/self.delta/self.phi" if okr else
                   f"initial Hamiltonian built from {({r: show(kw.get(r, ('const', None)))[:30] for r in rows})}",
                   entry=f.qualname)
            im = strip_typed(kw.get("interaction_matrix", ("const", None)))
            okt = False
            if im[0] in ("mcall", "vcall") and (im[3] if im[0] == "mcall" else im[2]):
                targ = (im[3] if im[0] == "mcall" else im[2])[0]
                li = linear_in(targ, [("sub", T, k), ("sub", T, ("bin", "Add", k, ("const", 1)))])
                if li is not None:
                    a, b, c0 = (complex(x) for x in li)
                    okt = abs(a + b - 1) < 1e-12 and abs(a.imag) + abs(b.imag) < 1e-12 and a.real > 1e-12 and b.real >= -1e-12 and abs(c0) < 1e-12
            ctx.ob("STEP-sv", "initial Hamiltonian interaction time", e.loc(), okt,
                   "the interaction matrix is taken at a time inside the step about to start" if okt else
                   f"the interaction matrix of the initial Hamiltonian is queried at {show(im)[:90]}, not at a convex "
                   f"combination of T[k] and T[k+1]", entry=f.qualname)
            st = [x for x in p.events if x.kind == "setattr" and x.name == "_current_H" and x.target[0] == SELF]
            oks = len(st) == 1 and strip_typed(st[0].value) == strip_typed(e.result)
            ctx.ob("STEP-sv", "initial Hamiltonian stored", e.loc(), oks,
                   "the Hamiltonian handed to the callbacks is the one just built" if oks else
                   "the freshly built Hamiltonian is not stored in self._current_H before the callbacks run", entry=f.qualname)
    ctx.require(n >= 1, "STEP-sv: get_hamiltonian call in _apply_observables not found")
