"""TRUNCARGS, CENTER and the DMRG protocol rules (C09, C10)."""
from __future__ import annotations

import ast

from ..algebra import canon, is_const, linear_in, same
from ..interp import decided, Interp, SELF, Event, Path, contains, show, strip_typed, walk
from ..model import AnalysisError
from . import tdvp, util

DMRG = "emu_mps.mps_backend_impl.DMRGBackendImpl"
MPSI = "emu_mps.mps_backend_impl.MPSBackendImpl"

# call site (caller qualname, callee qualname) -> {callee parameter: predicate description, accepted provenance}
TRUNC_SITES = [
    ("emu_mps.solver_utils.evolve_pair", "emu_mps.utils.split_matrix",
     {"max_error": "config.precision", "max_rank": "config.max_bond_dim"}),
    ("emu_mps.solver_utils.minimize_energy_pair", "emu_mps.utils.split_matrix",
     {"max_error": "config.precision", "max_rank": "config.max_bond_dim"}),
    ("emu_mps.utils.truncate_impl", "emu_mps.utils.split_matrix",
     {"max_error": "precision", "max_rank": "max_bond_dim"}),
    ("emu_mps.mps.MPS.truncate", "emu_mps.utils.truncate_impl",
     {"precision": "self.precision", "max_bond_dim": "self.max_bond_dim"}),
    ("emu_mps.algebra.zip_right", "emu_mps.utils.truncate_impl",
     {"precision": "precision", "max_bond_dim": "max_bond_dim"}),
    ("emu_mps.mpo.MPO.apply_to", "emu_mps.algebra.zip_right",
     {"precision": "other.precision", "max_bond_dim": "other.max_bond_dim"}),
]


def truncargs(ctx) -> None:
    prog = ctx.prog
    for caller_q, callee_q, want in TRUNC_SITES:
        f = prog.func(caller_q)
        it = Interp(prog, f.cls, inline=lambda c, r, d: False, loop_iters=(1,))
        found = 0
        done = set()
        for p in it.run(f):
            for e in p.events:
                if e.kind == "call" and e.name == callee_q and id(e.node) not in done:
                    done.add(id(e.node))
                    found += 1
                    for param, src in want.items():
                        v = e.args.get(param)
                        is_default = v is not None and strip_typed(v) != v and False
                        dflt = isinstance(v, tuple) and v and v[0] == "default"
                        got = show(strip_typed(v))[:50] if v is not None else "missing"
                        ok = (not dflt) and v is not None and show(strip_typed(v)) == src
                        ctx.ob("TRUNCARGS", f"{f.qualname}→{callee_q.split('.')[-1]}.{param}", e.loc(), ok,
                               f"{param} = {src}" if ok else
                               f"{callee_q.split('.')[-1]}({param}=" + ("<default>" if dflt else got) +
                               f") in {f.name}: the state is truncated with a tolerance / bond cap other than the "
                               f"configured {src}", entry=f.qualname)
        ctx.require(found >= 1, f"TRUNCARGS: {caller_q} no longer calls {callee_q}")
    # orth_center_right is forwarded to the splitter in both solvers
    for caller_q in ("emu_mps.solver_utils.evolve_pair", "emu_mps.solver_utils.minimize_energy_pair"):
        f = prog.func(caller_q)
        it = Interp(prog, None, inline=lambda c, r, d: False)
        for p in it.run(f):
            for e in p.events:
                if e.kind == "call" and e.name == "emu_mps.utils.split_matrix":
                    ok = strip_typed(e.args.get("orth_center_right")) == ("param", f.qualname, "orth_center_right")
                    ctx.ob("CENTER", f"{f.name}→split_matrix.orth_center_right", e.loc(), ok,
                           "the caller's centre flag selects which factor keeps the weights" if ok else
                           f"split_matrix(orth_center_right={show(e.args.get('orth_center_right'))[:30]}) ignores the "
                           f"flag the driver uses to record the orthogonality centre", entry=f.qualname)


def center_writes(ctx) -> None:
    """Writes to MPS factors outside the gauge routines happen at the centre (asserted / just orthogonalised) or are
    followed by a consistent orthogonality_center store."""
    prog = ctx.prog
    K = prog.cls(MPSI)
    f = K.methods["_evolve"]
    it = Interp(prog, K, inline=lambda c, r, d: False)
    n = 0
    for p in it.run(f):
        if p.status != "return":
            continue
        writes = [e for e in p.events if e.kind == "setitem" and strip_typed(e.target[0]) == ("attr", ("attr", SELF, "state"), "factors")]
        for w in writes:
            n += 1
            idx = strip_typed(w.target[1])
            # conditions established (assert or if/raise) before the write
            known = [strip_typed(c) for c, t in p.cond_log[: w.ncond] if t and "orthogonality_center" in show(c)]
            if idx[0] == "slice":
                # pair: centre in {l, r}; store r/l afterwards
                ok = any(c[0] == "cmp" and c[1] == "in" for c in known)
                st = [e for e in p.events[p.events.index(w):] if e.kind == "setattr" and e.name == "orthogonality_center"]
                ok = ok and len(st) == 1
                what = "pair"
            else:
                ok = any(c[0] == "cmp" and c[1] == "==" and canon(c[3]) == canon(idx) for c in known)
                what = "single"
            ctx.ob("CENTER", f"_evolve {what} write", w.loc(), ok,
                   f"{what}-site factors are replaced at the asserted orthogonality centre" +
                   (" and the centre is re-recorded" if what == "pair" else "") if ok else
                   f"_evolve replaces {what}-site factors without the dominating centre assertion"
                   + (" / following centre store" if what == "pair" else ""), entry=f.qualname)
            # index linkage of the solver arguments
            calls = [e for e in p.events if e.kind == "call" and e.name.startswith("emu_mps.solver_utils.evolve_")]
            for c in calls:
                sf = c.args.get("state_factor") or c.args.get("state_factors")
                hf = c.args.get("ham_factor") or c.args.get("ham_factors")
                si, hi = strip_typed(sf), strip_typed(hf)
                okl = si[0] == "sub" and hi[0] == "sub" and canon(si[2]) == canon(hi[2]) == canon(idx) and \
                    "state.factors" in show(si[1]) and "hamiltonian.factors" in show(hi[1])
                ctx.ob("CENTER", f"_evolve {what} operands", c.loc(), okl,
                       "state and Hamiltonian factors of the same site(s) are evolved and written back there" if okl else
                       f"{c.name.split('.')[-1]} receives state {show(si)[:50]} and Hamiltonian {show(hi)[:50]} but the "
                       f"result is stored at {show(idx)[:30]}", entry=f.qualname)
    ctx.require(n >= 2, "CENTER: factor writes in _evolve not found")
    # MPS.apply and MPS.truncate
    M = prog.cls("emu_mps.mps.MPS")
    itm = Interp(prog, M, inline=lambda c, r, d: False, loop_iters=(1,))
    ap = M.methods["apply"]
    for p in itm.run(ap):
        ev = p.events
        orth = [e for e in ev if e.kind == "call" and e.name.endswith("MPS.orthogonalize")]
        wr = [e for e in ev if e.kind == "setitem" and "self.factors" in show(e.target[0])]
        ok = len(orth) == 1 and len(wr) == 1 and ev.index(orth[0]) < ev.index(wr[0]) and \
            canon(orth[0].args.get("desired_orthogonality_center")) == canon(wr[0].target[1])
        ctx.ob("CENTER", "MPS.apply", ap.loc(), ok,
               "apply orthogonalises on the target site before multiplying its factor" if ok else
               "MPS.apply writes a factor that is not the freshly orthogonalised centre")
    tr = M.methods["truncate"]
    for p in itm.run(tr):
        ev = p.events
        orth = [e for e in ev if e.kind == "call" and e.name.endswith("MPS.orthogonalize")]
        ti = [e for e in ev if e.kind == "call" and e.name == "emu_mps.utils.truncate_impl"]
        st = [e for e in ev if e.kind == "setattr" and e.name == "orthogonality_center"]
        ok = len(orth) == 1 and len(ti) == 1 and len(st) == 1 and ev.index(orth[0]) < ev.index(ti[0]) < ev.index(st[0]) \
            and same(orth[0].args.get("desired_orthogonality_center"), ("bin", "Sub", ("attr", SELF, "num_sites"), ("const", 1))) \
            and is_const(st[0].value, 0) and strip_typed(ti[0].args.get("factors")) == ("attr", SELF, "factors")
        ctx.ob("CENTER", "MPS.truncate", tr.loc(), ok,
               "truncate: orthogonalize(last) ≺ truncate_impl(self.factors) ≺ centre := 0" if ok else
               "MPS.truncate no longer orthogonalises on the last site before the right-to-left truncation sweep / "
               "does not record centre 0 afterwards")
    og = M.methods["orthogonalize"]
    for p in itm.run(og):
        if p.status != "return":
            continue
        st = [e for e in p.events if e.kind == "setattr" and e.name == "orthogonality_center"]
        ok = len(st) == 1 and strip_typed(st[0].value) == ("param", og.qualname, "desired_orthogonality_center")
        ctx.ob("CENTER", "MPS.orthogonalize records the centre", og.loc(), ok,
               "orthogonalize stores the requested centre" if ok else "orthogonalize does not record the centre it moved to")
        break
    nm = M.methods["norm"]
    for p in itm.run(nm):
        if p.status != "return":
            continue
        s = show(p.retval)
        ok = "self.factors[" in s and ".norm()" in s and ("orthogonality_center" in s or "orthogonalize(0)" in s)
        ctx.ob("CENTER", "MPS.norm uses the centre", nm.loc(), ok,
               "the norm is the norm of the centre tensor" if ok else f"MPS.norm returns {s[:80]}")
        break


def dmrg_protocol(ctx) -> None:
    prog = ctx.prog
    K = prog.cls(DMRG)
    tdvp.bath_pairing(ctx, DMRG, ["progress"])
    f = K.methods["progress"]

    def inline(callee, recv, depth):
        return recv == SELF and callee.name in ("_left_to_right_update", "_right_to_left_update", "is_finished")

    it = Interp(prog, K, inline=inline)
    n = 0
    for p in it.run(f):
        if p.status != "return":
            continue
        ev = p.events
        m = [e for e in ev if e.kind == "call" and e.name.endswith("minimize_energy_pair")]
        if not m:
            continue
        n += 1
        e = m[0]
        flag = e.args.get("orth_center_right")
        st = [x for x in ev if x.kind == "setattr" and x.name == "orthogonality_center"]
        okc = False
        if st:
            v = strip_typed(st[0].value)
            d = decided(p, flag, st[0].ncond)
            if v[0] == "ifexp":
                a = tdvp._off(v[2])
                b = tdvp._off(v[3])
                okc = canon(v[1]) == canon(flag) and a == 1 and b == 0
            elif d is not None:
                okc = tdvp._off(v) == (1 if d else 0)   # `idx + 1 if flag else idx` as two paths
        ctx.ob("CENTER", "DMRG centre flag", (st[0] if st else e).loc(), okc,
               "orthogonality_center ← idx+1 if flag else idx with the flag given to minimize_energy_pair" if okc else
               "the centre recorded after the two-site minimisation does not follow the orth_center_right flag",
               entry=f.qualname)
        okf = strip_typed(flag)[0] == "cmp" and "LEFT_TO_RIGHT" in show(flag)
        ctx.ob("CENTER", "DMRG flag from direction", e.loc(), okf,
               "orth_center_right ⇔ sweeping left to right" if okf else f"orth_center_right = {show(flag)[:60]}",
               entry=f.qualname)
        sf, hf = strip_typed(e.args.get("state_factors")), strip_typed(e.args.get("ham_factors"))
        okl = sf[0] == "sub" and hf[0] == "sub" and canon(sf[2]) == canon(hf[2]) and sf[2][0] == "slice" and \
            tdvp._off(sf[2][1]) == 0 and tdvp._off(sf[2][2]) == 2
        wr = [x for x in ev if x.kind == "setitem" and "state.factors" in show(x.target[0])]
        okw = sorted(tdvp._off(x.target[1]) for x in wr) == [0, 1]
        ctx.ob("CENTER", "DMRG operands", e.loc(), okl and okw,
               "sites idx, idx+1 are minimised and written back" if okl and okw else
               f"minimize_energy_pair gets {show(sf)[:40]} / {show(hf)[:40]}, results stored at "
               f"{[show(x.target[1]) for x in wr]}", entry=f.qualname)
        okr = strip_typed(e.args.get("residual_tolerance")) == ("attr", ("attr", SELF, "config"), "precision") and \
            strip_typed(e.args.get("config")) == ("attr", SELF, "config")
        ctx.ob("ROLE-mps", "DMRG residual tolerance", e.loc(), okr,
               "residual_tolerance = config.precision" if okr else
               f"residual_tolerance = {show(e.args.get('residual_tolerance'))[:40]}", entry=f.qualname)
        b = strip_typed(e.args.get("baths"))
        okb = b[0] == "tuple" and "left_baths[-1]" in show(b[1][0]) and "right_baths[-1]" in show(b[1][1])
        ctx.ob("ROLE-mps", "DMRG baths", e.loc(), okb, "baths = (last left, last right)" if okb else f"baths={show(b)[:60]}",
               entry=f.qualname)
    ctx.require(n >= 2, "DMRG.progress: minimisation paths not found")
    # direction switching and sweep completion
    for p in it.run(f):
        if p.status != "return":
            continue
        toks = tdvp.tokens(p)
        kinds = [t[0] for t in toks]
        if "SC" in kinds:
            i = kinds.index("SC")
            before = kinds[:i]
            ok = "ORTH" in before and any(t[0] == "D" and t[1] == "LEFT_TO_RIGHT" for t in toks[:i])
            cnt = [e for e in p.events if e.kind == "setattr" and e.name == "sweep_count"]
            ok = ok and len(cnt) == 1
            ctx.ob("JUMP-path", "DMRG sweep end", toks[i][-1].loc(), ok,
                   "at the left end: orthogonalize(0), direction := left-to-right, sweep_count += 1, then sweep_complete"
                   if ok else "at the left end DMRG does not (orthogonalize(0), flip direction, count the sweep) before "
                              "sweep_complete", entry=f.qualname)
    # the convergence gate
    g = K.methods["sweep_complete"]
    itg = Interp(prog, K, inline=lambda c, r, d: False)
    paths = itg.run(g)
    done = [p for p in paths if any(e.kind == "call" and e.name.endswith(".timestep_complete") for e in p.events)]
    ok = bool(done) and all(any(strip_typed(c)[0] == "mcall" and strip_typed(c)[2].endswith("convergence_check") and t
                                for c, t in p.cond_log) for p in done)
    ctx.ob("CONV-gate", "DMRG step completes only when converged", g.loc(), ok,
           "timestep_complete is reached only on the path where convergence_check(energy_tolerance) holds" if ok else
           "DMRG completes a time step without a passed convergence_check")
    rs = [p for p in paths if p.status == "raise"]
    okr = any(any("max_sweeps" in show(c) and t for c, t in p.cond_log) for p in rs)
    ctx.ob("CONV-gate", "DMRG raises after max_sweeps", g.loc(), okr,
           "non-convergence after max_sweeps raises" if okr else "no path raises when max_sweeps is exceeded")
    cur = [p for p in done if any(e.kind == "setattr" and e.name == "current_time" and strip_typed(e.value) == ("attr", SELF, "target_time")
                                  for e in p.events)]
    ctx.ob("CONV-gate", "DMRG advances time on completion", g.loc(), len(cur) == len(done) and bool(done),
           "current_time ← target_time when the step completes" if len(cur) == len(done) and done else
           "DMRG completes a step without advancing current_time")
    cc = K.methods["convergence_check"]
    rets = [p for p in itg.run(cc) if p.status == "return"]
    okc = False
    for p in rets:
        r = strip_typed(p.retval)
        if r[0] == "cmp" and r[1] in ("<", "<=") and strip_typed(r[3]) == ("param", cc.qualname, "energy_tolerance"):
            a = strip_typed(r[2])
            if a[0] == "call" and a[1] in ("abs", "torch.abs") and len(a[2]) == 1:
                from ..algebra import monomials
                mons = {tuple(show(x) for x in m): c for m, c in monomials(a[2][0]).items()}
                # |E_now − E_before|, either orientation
                okc = len(mons) == 2 and set(mons) == {("self.current_energy",), ("self.previous_energy",)} and \
                    abs(sum(mons.values())) < 1e-12 and all(abs(abs(c) - 1) < 1e-12 for c in mons.values())
    none_false = any(strip_typed(p.retval) == ("const", False) for p in rets)
    ctx.ob("CONV-gate", "convergence_check predicate", cc.loc(), okc and none_false,
           "converged ⇔ |E_current − E_previous| < energy_tolerance (False while an energy is missing)" if okc and none_false
           else "convergence_check is not |current − previous| < tolerance with a False default")
    # DMRG leaves the result normalised/canonical: minimize_energy_pair returns the Krylov ground state (unit norm)
    ctx.floor("BATHS-pairing", 2)


def dmrg_gate_everywhere(ctx) -> None:
    """However DMRGBackendImpl.progress gets there, a time step is completed only on a path where
    convergence_check(...) was taken true; timestep_complete is called from sweep_complete only."""
    prog = ctx.prog
    K = prog.cls(DMRG)
    f = K.methods["progress"]

    def inline(callee, recv, depth):
        return recv == SELF and callee.name not in ("save_simulation", "fill_results", "update_H", "init_baths",
                                                    "_get_interaction_matrix", "convergence_check")

    it = Interp(prog, K, inline=inline, max_depth=8)
    paths = [p for p in it.run(f) if p.status == "return"]
    ctx.count("paths", len(paths))
    bad = []
    n = 0
    for p in paths:
        idx = [e for e in p.events if e.kind == "setattr" and e.name == "_timestep_index" and e.target[0] == SELF]
        if not idx:
            continue
        n += 1
        ok = any(strip_typed(c)[0] == "mcall" and strip_typed(c)[2].endswith("convergence_check") and t
                 for c, t in p.cond_log[: idx[0].ncond])
        minimised = any(e.kind == "call" and e.name.endswith("minimize_energy_pair") for e in p.events)
        if not ok or not minimised:
            conds = "; ".join(f"{show(c)[:40]}={t}" for c, t in p.cond_log[: idx[0].ncond])
            bad.append(f"[{conds}] (energy minimisation on the path: {minimised})")
    ctx.require(n >= 1, "DMRG.progress: no path completes a step")
    ctx.ob("CONV-gate", "DMRG progress completes steps only when converged", f.loc(), not bad,
           "every path of progress() that advances the time step has minimised the energy and passed convergence_check"
           if not bad else
           f"DMRGBackendImpl.progress advances the time step on a path without a passed convergence_check: {bad[0]} — "
           f"the state reported for that step is not the ground state of its Hamiltonian")
    from .once import _self_call_sites
    sites = {s for s in _self_call_sites(prog, [K], "timestep_complete")}
    ok = sites <= {"DMRGBackendImpl.sweep_complete", "DMRGBackendImpl.timestep_complete"}  # an override may chain to super()
    ctx.ob("CONV-gate", "DMRG timestep_complete call sites", K.module.relpath + f":{K.node.lineno}", ok,
           "within DMRGBackendImpl, timestep_complete is called from sweep_complete only" if ok else
           f"within DMRGBackendImpl, timestep_complete is called from {sorted(sites)}")


def scaling(ctx) -> None:
    """Scaling an MPS keeps the canonical form it claims: scale_factors multiplies exactly the factor `which`, and
    MPS.__rmul__ scales the factor at the orthogonality centre it passes on (norm() and expect_batch() read the state
    off the centre factor, so scaling another factor while keeping the claim makes both return unscaled values)."""
    prog = ctx.prog
    sf = prog.func("emu_mps.algebra.scale_factors")
    it0 = Interp(prog, None, inline=lambda c, r, d: False)
    rets = [p for p in it0.run(sf) if p.status == "return"]
    ok = False
    got = "?"
    if len(rets) == 1:
        r = strip_typed(rets[0].retval)
        got = show(r)[:80]
        if r[0] == "comp" and r[1] == "list" and len(r[2]) == 1 and len(r[3]) == 1:
            el = strip_typed(r[2][0])
            gen = r[3][0]
            src = strip_typed(gen[0])
            over_all = src[0] == "call" and src[1] == "enumerate" and len(src[2]) == 1 and \
                strip_typed(src[2][0]) == ("param", sf.qualname, "factors") and not gen[1]
            if over_all and el[0] == "ifexp":
                c, a, b = (strip_typed(x) for x in el[1:4])
                idx = lambda t: t[0] == "unpack" and t[2] == 0   # noqa: E731
                val = lambda t: t[0] == "unpack" and t[2] == 1   # noqa: E731
                which = ("param", sf.qualname, "which")
                sel = c[0] == "cmp" and c[1] == "==" and ((idx(strip_typed(c[2])) and strip_typed(c[3]) == which) or
                                                          (idx(strip_typed(c[3])) and strip_typed(c[2]) == which))
                scal = ("param", sf.qualname, "scalar")
                mul = a[0] == "bin" and a[1] == "Mult" and ((strip_typed(a[2]) == scal and val(strip_typed(a[3]))) or
                                                            (strip_typed(a[3]) == scal and val(strip_typed(a[2]))))
                ok = sel and mul and val(b)
    ctx.ob("CENTER-scale", "scale_factors scales one factor", sf.loc(), ok,
           "scale_factors returns every factor unchanged except factors[which], which is multiplied by the scalar" if ok else
           f"scale_factors no longer returns [scalar·f if i == which else f for every factor]: {got}")
    M = prog.cls("emu_mps.mps.MPS")
    f = M.methods["__rmul__"]
    it = Interp(prog, M, inline=lambda c, r, d: False)
    n = 0
    bad = []
    for p in it.run(f):
        if p.status != "return":
            continue
        news = [e for e in p.events if e.kind == "call" and e.name == "emu_mps.mps.MPS"]
        for e in news:
            n += 1
            c = strip_typed(e.args.get("orthogonality_center", ("const", None)))
            fac = strip_typed(e.args.get("factors", ("const", None)))
            if c == ("const", None):
                continue  # no claim
            if not (fac[0] == "call" and fac[1] == "emu_mps.algebra.scale_factors"):
                bad.append(f"factors {show(fac)[:50]} are not produced by scale_factors")
                continue
            sc = [x for x in p.events if x.kind == "call" and x.name == "emu_mps.algebra.scale_factors"]
            w = strip_typed(sc[-1].args.get("which")) if sc else None
            base = strip_typed(sc[-1].args.get("factors")) if sc else None
            if base != ("attr", SELF, "factors") or c != ("attr", SELF, "orthogonality_center"):
                bad.append(f"result claims centre {show(c)[:40]} over factors scaled from {show(base)[:40] if base else '?'}")
                continue
            none_here = any(_is_none_test(cc, c) is not None and _is_none_test(cc, c) == bool(t) for cc, t in p.cond_log[: sc[-1].ncond])
            good = w == c or none_here or (w[0] == "ifexp" and _is_none_test(strip_typed(w[1]), c) is False and strip_typed(w[2]) == c) \
                or (w[0] == "ifexp" and _is_none_test(strip_typed(w[1]), c) is True and strip_typed(w[3]) == c)
            if not good:
                bad.append(f"scales factor {show(w)[:50]} but passes on the orthogonality centre {show(c)[:40]}")
    ctx.require(n >= 1, "CENTER-scale: MPS.__rmul__ builds no MPS")
    ctx.ob("CENTER-scale", "MPS.__rmul__ scales the centre", f.loc(), not bad,
           "the scalar multiplies the factor at the orthogonality centre that the result keeps (any factor when there is none)"
           if not bad else
           f"MPS.__rmul__ {bad[0]}: the other factors stay isometric only around the claimed centre, so norm() and "
           f"expect_batch() of the result ignore the scalar whenever the centre is not that site")


def _is_none_test(c, subject):
    """True for `subject is None`, False for `subject is not None`, None otherwise."""
    c = strip_typed(c)
    if c[0] == "cmp" and c[1] in ("is", "isnot", "==", "!=") and strip_typed(c[2]) == subject and strip_typed(c[3]) == ("const", None):
        return c[1] in ("is", "==")
    return None


def _peel(t, names=("to", "contiguous")):
    """Strip device/layout no-ops: x.to(...), x.contiguous()."""
    t = strip_typed(t)
    while t[0] == "mcall" and t[2] in names:
        t = strip_typed(t[1])
    return t


def gauge_moves(ctx) -> None:
    """The QR steps that move the orthogonality centre (MPS.orthogonalize, and the walks of MPS.expect_batch):
      right move:  F (l·p, r) = Q R        → next ← R · next          (tensordot(r, next, dims=1))
      left move:   F (l, p·r)ᵀ = Q R       → prev ← prev · Rᵀ         (tensordot(prev, r, ([2], [1])));   Q stored as Qᵀ
    The transposition applied before the QR, the one applied to Q, and the index of R that is contracted must agree;
    with a conjugate transpose (`.mH`) the contracted factor has to be conj(R).  For complex states a mismatch leaves
    the bond basis conjugated: expectation values left of the centre are wrong although norms stay plausible."""
    prog = ctx.prog
    M = prog.cls("emu_mps.mps.MPS")
    it = Interp(prog, M, inline=lambda c, r, d: False, loop_iters=(1,))
    n_sites = 0
    for fname in ("orthogonalize", "expect_batch"):
        f = M.methods[fname]
        seen = {}
        for p in it.run(f):
            if p.status != "return":
                continue
            for e in p.events:
                if not (e.kind == "call" and e.name == "torch.linalg.qr" and e.pos):
                    continue
                key = (e.node.lineno, e.node.col_offset)
                x = _peel(e.pos[0])
                trans = None
                if x[0] == "attr" and x[2] in ("mT", "mH", "T", "H"):
                    trans, x = x[2], _peel(x[1])
                kind = None
                if x[0] == "mcall" and x[2] == "view" and len(x[3]) == 2:
                    a, b = strip_typed(x[3][0]), strip_typed(x[3][1])
                    shp = lambda t, k: t[0] == "sub" and strip_typed(t[1])[0] == "attr" and strip_typed(t[1])[2] == "shape" and is_const(t[2], k)  # noqa: E731
                    if is_const(a, -1) and shp(b, 2) and trans is None:
                        kind = "right"
                    elif shp(a, 0) and is_const(b, -1) and trans in ("mT", "mH"):
                        kind = "left"
                if kind is None:
                    raise AnalysisError(f"GAUGE: unrecognised QR idiom at {e.loc()}: {show(e.pos[0])[:100]}")
                r_term = ("unpack", strip_typed(e.result), 1, 2)
                q_term = ("unpack", strip_typed(e.result), 0, 2)
                uses = []
                for d in p.events[p.events.index(e) + 1:]:
                    if d.kind == "call" and d.name == "torch.tensordot" and len(d.pos) >= 2:
                        for i in (0, 1):
                            a = _peel(d.pos[i])
                            conj = False
                            if a[0] == "mcall" and a[2] in ("conj", "conj_physical"):
                                conj, a = True, _peel(a[1])
                            if a == r_term:
                                dims = strip_typed(d.pos[2]) if len(d.pos) > 2 else strip_typed(dict(d.kw).get("dims", ("const", None)))
                                uses.append((i, conj, show(dims).replace(" ", ""), d))
                ok = len(uses) == 1
                why = f"R of the QR at line {e.node.lineno} is contracted {len(uses)} time(s)"
                if ok:
                    i, conj, dims, d = uses[0]
                    if kind == "right":
                        ok = i == 0 and not conj and dims in ("1", "([1],[0])")
                        why = f"right move: next ← tensordot(R, next, {dims}) with R as argument {i + 1}" + (" conjugated" if conj else "")
                    else:
                        ok = i == 1 and dims == "([2],[1])" and conj == (trans == "mH")
                        why = (f"left move through .{trans}: prev ← tensordot(prev, {'conj(R)' if conj else 'R'}, {dims})"
                               + ("" if ok else f" — with .{trans} the contracted factor must be {'conj(R)' if trans == 'mH' else 'R'} on index 1"))
                # the Q that is written back (orthogonalize only)
                okq = True
                for s in p.events[p.events.index(e) + 1:]:
                    if s.kind == "setitem" and contains(s.value, lambda t: t == q_term):
                        v = _peel(s.value)
                        if v[0] == "mcall" and v[2] == "view":
                            qq = _peel(v[1])
                            qt = qq[2] if qq[0] == "attr" and qq[2] in ("mT", "mH", "T", "H") else None
                            okq = (qt == trans) if kind == "left" else (qt is None)
                        break
                prev = seen.get(key)
                seen[key] = (ok and okq and (prev[0] if prev else True), why + ("" if okq else "; the stored Q uses another transposition"), e)
        ctx.require(len(seen) == 2, f"GAUGE: {len(seen)} QR sites in MPS.{fname}, 2 confirmed by hand")
        for key, (ok, why, e) in sorted(seen.items()):
            n_sites += 1
            ctx.ob("GAUGE", f"MPS.{fname}|QR #{sorted(seen).index(key) + 1}", e.loc(), ok,
                   why if ok else f"MPS.{fname}: {why}: the centre move does not reproduce the state (for complex amplitudes the "
                                  f"bond basis comes out conjugated), so quantities read off the moved centre are wrong")
    ctx.require(n_sites == 4, f"GAUGE: {n_sites} QR sites checked")
