"""PCHIP (C20): the code's formulas are, as rational functions of the data, the standard PCHIP formulas.

Every rule here compares the *expression the source computes* (provenance term of the return value / stored value) with
the reference formula by a formal rational-function identity (sa.ratfun), for all values of the symbols at once.  The
consequences the property names follow from these identities:

* P_i(0) = y_i, P_i(h_i) = y_{i+1}: exact at knots and continuous;
* P_i'(0) = d_i, P_i'(h_i) = d_{i+1} with one derivative array shared by neighbouring intervals: C¹;
* d = Fritsch–Carlson weighted harmonic mean, 0 where the neighbouring secants do not have the same strict sign, three-
  point end slopes with the shape-preserving limiter: then the Fritsch–Carlson theorem gives monotonicity on each
  interval (trusted mathematics about these formulas, not re-proved here);
* evaluation of the end cubic outside the knots (kernels.pchip_evaluation): the standard extrapolation.
"""
from __future__ import annotations

from ..interp import Interp, SELF, show, strip_typed, walk
from ..ratfun import add, div, mul, num, rat_equal, sub

M = "emu_base.math.pchip_torch."


def _sl(base, lo, hi):
    return ("sub", base, ("slice", ("const", lo), ("const", hi), ("const", None)))


def _ix(base, i):
    return ("sub", base, ("const", i))


def _returns(prog, f, cls=None, **kw):
    return [p for p in Interp(prog, cls, inline=lambda c, r, d: False, **kw).run(f) if p.status == "return"]


def _callargs(t, callee) -> dict | None:
    """{param: term} of a canonicalised call term of a resolved callee (positional prefix + keywords)."""
    t = strip_typed(t)
    if t[0] != "call" or t[1] != callee.qualname:
        return None
    out = {}
    for name, a in zip(callee.params, t[2]):
        out[name] = strip_typed(a)
    for k, v in t[3]:
        out[k] = strip_typed(v)
    return out


# ------------------------------------------------------------------------------------------------ Hermite conditions
def hermite(ctx) -> None:
    prog = ctx.prog
    f = prog.func(M + "_polynomial_coeffs")
    rets = _returns(prog, f)
    ctx.require(len(rets) == 1, f"PCHIP-hermite: {len(rets)} returning paths in _polynomial_coeffs")
    r = strip_typed(rets[0].retval)
    ps = None
    dim = None
    if r[0] == "call" and r[1] == "torch.stack" and r[2]:
        lst = strip_typed(r[2][0])
        if lst[0] in ("list", "tuple") and len(lst[1]) == 4:
            ps = [strip_typed(x) for x in lst[1]]
        dim = dict(r[3]).get("dim") or (r[2][1] if len(r[2]) > 1 else None)
    ctx.require(ps is not None, f"PCHIP-hermite: _polynomial_coeffs returns {show(r)[:80]}, not a stack of four coefficients")
    ctx.require(len(f.params) >= 4, "PCHIP-hermite: _polynomial_coeffs(y, h, delta, d) expected")
    y, h, delta, d = (("param", f.qualname, n) for n in f.params[:4])
    y0, d0, d1 = _sl(y, None, -1), _sl(d, None, -1), _sl(d, 1, None)
    p0, p1, p2, p3 = ps
    checks = [
        ("P(0) = y[i]", p0, y0),
        ("P'(0) = d[i]", p1, d0),
        ("P(h) = y[i] + delta·h  (= y[i+1])", add(p0, mul(p1, h), mul(p2, h, h), mul(p3, h, h, h)), add(y0, mul(delta, h))),
        ("P'(h) = d[i+1]", add(p1, mul(num(2.0), p2, h), mul(num(3.0), p3, h, h)), d1),
    ]
    for what, got, want in checks:
        ok = rat_equal(got, want)
        ctx.ob("PCHIP-hermite", what, f.loc(), ok,
               f"the interval cubic satisfies {what} identically in y, d, delta, h" if ok else
               f"the coefficients of _polynomial_coeffs do not satisfy {what}: the interpolant "
               f"{'misses the data at the knots' if what.startswith('P(') else 'has a kink at the knots (not C1)'}")
    okd = dim is not None and strip_typed(dim) in (("const", -1), ("const", 1))
    ctx.ob("PCHIP-hermite", "coefficients stacked along the last axis", f.loc(), okd,
           "coefficients are stacked as (interval, 4)" if okd else
           "the coefficient stack is not (interval, 4): unbind(-1) of a row no longer yields (p0, p1, p2, p3)")


# ---------------------------------------------------------------------------------------------------- interior slopes
def interior(ctx) -> None:
    prog = ctx.prog
    w = prog.func(M + "_weighted_harmonic_mean")
    rets = _returns(prog, w)
    ctx.require(len(rets) == 1 and len(w.params) >= 4, "PCHIP-interior: _weighted_harmonic_mean(delta_l, delta_r, h_l, h_r) expected")
    dl, dr, hl, hr = (("param", w.qualname, n) for n in w.params[:4])
    w1 = add(mul(num(2.0), hr), hl)          # weight of the left secant: 2 h_k + h_{k-1}
    w2 = add(hr, mul(num(2.0), hl))          # weight of the right secant: h_k + 2 h_{k-1}
    ref = div(add(w1, w2), add(div(w1, dl), div(w2, dr)))
    ok = rat_equal(rets[0].retval, ref)
    ctx.ob("PCHIP-interior", "weighted harmonic mean", w.loc(), ok,
           "(w1+w2)/d = w1/δ_l + w2/δ_r with w1 = 2h_r + h_l, w2 = h_r + 2h_l (Fritsch–Carlson)" if ok else
           f"_weighted_harmonic_mean returns {show(rets[0].retval)[:90]}, which is not the Fritsch–Carlson weighted harmonic "
           f"mean (w1 = 2h_r + h_l on the left secant, w2 = h_r + 2h_l on the right one): on a non-uniform grid the "
           f"interpolant is not the standard PCHIP and can overshoot")
    g = prog.func(M + "_pchip_derivatives")
    hP, dP = (("param", g.qualname, n) for n in g.params[:2])
    paths = _returns(prog, g)
    general = [p for p in paths if any(e.kind == "setitem" for e in p.events)]
    ctx.require(general, "PCHIP-interior: no path of _pchip_derivatives stores into the derivative array")
    for p in general:
        ret = strip_typed(p.retval)
        st = [e for e in p.events if e.kind == "setitem" and strip_typed(e.target[0]) == ret and
              strip_typed(e.target[1]) == ("slice", ("const", 1), ("const", -1), ("const", None))]
        ok = len(st) == 1
        why = f"{len(st)} stores into d[1:-1]"
        if ok:
            v = strip_typed(st[0].value)
            ok = False
            why = f"d[1:-1] = {show(v)[:80]}"
            if v[0] == "call" and v[1] == "torch.where" and len(v[2]) == 3:
                m, a, b = (strip_typed(x) for x in v[2])
                prod = mul(_sl(dP, None, -1), _sl(dP, 1, None))
                mask_ok = m[0] == "cmp" and m[1] == ">" and rat_equal(m[2], prod) and rat_equal(m[3], num(0))
                zero_ok = (b[0] == "call" and b[1] in ("torch.zeros_like", "torch.zeros")) or b in (("const", 0), ("const", 0.0))
                args = _callargs(a, w)
                arg_ok = False
                if args is not None:
                    def src(t, want):
                        t = strip_typed(t)
                        if t == want:
                            return True
                        # sanitised divisor: where(same mask, want, anything)
                        return t[0] == "call" and t[1] == "torch.where" and len(t[2]) == 3 and \
                            strip_typed(t[2][0]) == m and strip_typed(t[2][1]) == want
                    arg_ok = src(args.get(w.params[0]), _sl(dP, None, -1)) and src(args.get(w.params[1]), _sl(dP, 1, None)) and \
                        args.get(w.params[2]) == _sl(hP, None, -1) and args.get(w.params[3]) == _sl(hP, 1, None)
                ok = mask_ok and zero_ok and arg_ok
                why = ("the mask is not δ[k-1]·δ[k] > 0" if not mask_ok else
                       "the value outside the mask is not 0" if not zero_ok else
                       f"the harmonic mean is not taken of (δ[:-1], δ[1:], h[:-1], h[1:]): {show(a)[:70]}")
        ctx.ob("PCHIP-interior", "d[k] = harmonic mean where the secants have the same strict sign, else 0", st[0].loc() if st else g.loc(), ok,
               "d[1:-1] = where(δ[:-1]·δ[1:] > 0, whm(δ[:-1], δ[1:], h[:-1], h[1:]), 0)" if ok else
               f"interior derivatives: {why} — at a local extremum or next to a flat interval the slope must be 0, elsewhere "
               f"the weighted harmonic mean of the two neighbouring secants (shape preservation)")


# ------------------------------------------------------------------------------------------------------- end slopes
def endpoint_formula(ctx) -> None:
    prog = ctx.prog
    e_ = prog.func(M + "_endpoint_slope")
    lim = prog.func(M + "_limit_endpoint")
    rets = _returns(prog, e_)
    ctx.require(len(rets) == 1 and len(e_.params) >= 4, "PCHIP-endpoint: _endpoint_slope(delta_l, delta_r, h_l, h_r) expected")
    dl, dr, hl, hr = (("param", e_.qualname, n) for n in e_.params[:4])
    ref = div(sub(mul(add(mul(num(2.0), hl), hr), dl), mul(hl, dr)), add(hl, hr))
    ok = rat_equal(rets[0].retval, ref)
    ctx.ob("PCHIP-endpoint", "three-point formula", e_.loc(), ok,
           "d_end = ((2h_0 + h_1)·δ_0 − h_0·δ_1) / (h_0 + h_1)" if ok else
           f"_endpoint_slope returns {show(rets[0].retval)[:90]}, not the one-sided three-point estimate "
           f"((2h_0+h_1)δ_0 − h_0δ_1)/(h_0+h_1)")
    g = prog.func(M + "_pchip_derivatives")
    hP, dP = (("param", g.qualname, n) for n in g.params[:2])
    paths = [p for p in _returns(prog, g) if any(e.kind == "setitem" for e in p.events)]
    ctx.require(paths, "PCHIP-endpoint: general path of _pchip_derivatives not found")
    for p in paths:
        ret = strip_typed(p.retval)
        for end, i0, i1 in (("first", 0, 1), ("last", -1, -2)):
            st = [e for e in p.events if e.kind == "setitem" and strip_typed(e.target[0]) == ret and
                  strip_typed(e.target[1]) == ("const", i0)]
            ok = len(st) == 1
            why = f"{len(st)} stores into d[{i0}]"
            if ok:
                la = _callargs(st[0].value, lim)
                ok = False
                why = f"d[{i0}] = {show(st[0].value)[:70]} is not the limited end slope"
                if la is not None:
                    ea = _callargs(la.get(lim.params[0]), e_)
                    want = {e_.params[0]: _ix(dP, i0), e_.params[1]: _ix(dP, i1), e_.params[2]: _ix(hP, i0), e_.params[3]: _ix(hP, i1)}
                    ok = ea is not None and all(ea.get(k) == v for k, v in want.items())
                    why = f"the {end} end slope is estimated from {show(la.get(lim.params[0]))[:80]}"
            ctx.ob("PCHIP-endpoint", f"{end} knot", st[0].loc() if st else g.loc(), ok,
                   f"d[{i0}] = limit(endpoint_slope(δ[{i0}], δ[{i1}], h[{i0}], h[{i1}]), …)" if ok else
                   f"{why}: expected the three-point estimate from the boundary interval ({i0}) and its neighbour ({i1}), "
                   f"passed through the limiter")


def two_points(ctx) -> None:
    """With two knots the interpolant is the straight line: both derivatives equal the only secant."""
    prog = ctx.prog
    g = prog.func(M + "_pchip_derivatives")
    hP, dP = (("param", g.qualname, n) for n in g.params[:2])
    n_term = add(("mcall", hP, "numel", (), ()), num(1))
    seen = False
    for p in _returns(prog, g):
        two = None
        for c, t in p.cond_log:
            c0 = strip_typed(c)
            if c0[0] == "cmp" and c0[1] in ("==", "!=") and rat_equal(c0[3], num(2)) and rat_equal(c0[2], n_term):
                two = t if c0[1] == "==" else not t
            if c0[0] == "cmp" and c0[1] in ("==", "!=") and rat_equal(c0[3], num(1)) and rat_equal(c0[2], ("mcall", hP, "numel", (), ())):
                two = t if c0[1] == "==" else not t
        if two is not True:
            continue
        seen = True
        ret = strip_typed(p.retval)
        fills = [e for e in p.events if e.kind == "call" and e.name == ".fill_" and strip_typed(e.recv) == ret]
        ok = len(fills) == 1 and len(fills[0].pos) == 1 and strip_typed(fills[0].pos[0]) == _ix(dP, 0)
        if not ok:
            # d[:] = delta[0] / full_like spellings
            st = [e for e in p.events if e.kind == "setitem" and strip_typed(e.target[0]) == ret]
            ok = len(st) == 1 and strip_typed(st[0].value) == _ix(dP, 0) and strip_typed(st[0].target[1])[0] in ("slice", "const") and \
                strip_typed(st[0].target[1]) in (("slice", ("const", None), ("const", None), ("const", None)), ("const", Ellipsis))
        ctx.ob("PCHIP-two-points", "straight line", g.loc(), ok,
               "with two knots both derivatives are the secant δ[0]" if ok else
               "with two knots the derivatives are not both δ[0]: two samples are no longer joined by a straight line")
    ctx.require(seen, "PCHIP-two-points: the n == 2 path of _pchip_derivatives was not found")


# ------------------------------------------------------------------------------------------------------------ set-up
def setup(ctx) -> None:
    prog = ctx.prog
    K = prog.cls(M + "PCHIP1D")
    f = K.methods["__init__"]
    val = K.methods["_validate_xy"]
    der = prog.func(M + "_pchip_derivatives")
    pol = prog.func(M + "_polynomial_coeffs")
    paths = _returns(prog, f, K)
    ctx.require(paths, "PCHIP-setup: PCHIP1D.__init__ has no returning path")
    for p in paths:
        sets = {e.name: strip_typed(e.value) for e in p.events if e.kind == "setattr"}
        X, Y = sets.get("x"), sets.get("y")
        okv = X is not None and Y is not None and X[0] == "unpack" and Y[0] == "unpack" and X[2] == 0 and Y[2] == 1 and \
            strip_typed(X[1]) == strip_typed(Y[1]) and strip_typed(X[1])[0] == "call" and strip_typed(X[1])[1] == val.qualname
        ctx.ob("PCHIP-setup", "knots and values are the validated inputs", f.loc(), okv,
               "self.x, self.y = _validate_xy(x, y)" if okv else "self.x / self.y are not the pair returned by _validate_xy")
        if not okv:
            continue
        h_ref = sub(_sl(X, 1, None), _sl(X, None, -1))
        d_ref = div(sub(_sl(Y, 1, None), _sl(Y, None, -1)), h_ref)
        co = sets.get("_coeffs")
        ca = _callargs(co, pol) if co is not None else None
        ok = False
        why = "self._coeffs is not _polynomial_coeffs(...)"
        if ca is not None:
            yA, hA, dA, sA = (ca.get(n) for n in pol.params[:4])
            da = _callargs(sA, der) if sA is not None else None
            okh = hA is not None and rat_equal(hA, h_ref)
            okd = dA is not None and rat_equal(dA, d_ref)
            oky = yA == Y
            oks = da is not None and rat_equal(da.get(der.params[0]), h_ref) and rat_equal(da.get(der.params[1]), d_ref)
            ok = okh and okd and oky and oks
            why = ("h is not x[1:] − x[:-1]" if not okh else "delta is not (y[1:] − y[:-1]) / h" if not okd else
                   "the values handed to _polynomial_coeffs are not self.y" if not oky else
                   "the derivatives are not _pchip_derivatives(h, delta) of the same h and delta")
        ctx.ob("PCHIP-setup", "h, delta, d feed the coefficients", f.loc(), ok,
               "h = x[1:]−x[:-1], δ = (y[1:]−y[:-1])/h, d = _pchip_derivatives(h, δ), coefficients from (y, h, δ, d)" if ok else
               f"PCHIP1D.__init__: {why}")
    # strictly increasing knots are enforced (h > 0 is what every formula above divides by)
    inc = False
    for q in Interp(prog, K, inline=lambda c, r, d: False).run(val):
        if q.status != "raise" or not q.cond_log:
            continue
        c, t = q.cond_log[-1]
        s = strip_typed(c)
        xs = [w_ for w_ in walk(s) if w_[0] == "cmp" and w_[1] in (">", "<")]
        for cmpt in xs:
            a, b = strip_typed(cmpt[2]), strip_typed(cmpt[3])
            if a[0] == "sub" and b[0] == "sub" and strip_typed(a[1]) == strip_typed(b[1]):
                hi_lo = (strip_typed(a[2]), strip_typed(b[2]))
                up = (("slice", ("const", 1), ("const", None), ("const", None)), ("slice", ("const", None), ("const", -1), ("const", None)))
                if (cmpt[1] == ">" and hi_lo == up) or (cmpt[1] == "<" and hi_lo == up[::-1]):
                    inc = inc or (t is False and "all" in show(s))
    ctx.ob("PCHIP-setup", "strictly increasing knots required", val.loc(), inc,
           "_validate_xy raises unless all(x[1:] > x[:-1])" if inc else
           "_validate_xy no longer rejects knots that are not strictly increasing (h = 0 divides by zero, h < 0 flips every slope)")


def end_cap(ctx) -> None:
    """_limit_endpoint's second stage: where the two end secants differ in sign and |d| > 3|s_l|, d := 3·s_l."""
    prog = ctx.prog
    f = prog.func(M + "_limit_endpoint")
    rets = _returns(prog, f)
    ctx.require(len(rets) == 1 and len(f.params) >= 3, "PCHIP-end: _limit_endpoint(d_end, s_l, s_r) straight-line code expected")
    d, sl, sr = (("param", f.qualname, n) for n in f.params[:3])
    r = strip_typed(rets[0].retval)
    ok = False
    why = f"_limit_endpoint returns {show(r)[:80]}"
    if r[0] == "call" and r[1] == "torch.where" and len(r[2]) == 3:
        m, a, b = (strip_typed(x) for x in r[2])
        inner_ok = b[0] == "call" and b[1] == "torch.where" and len(b[2]) == 3 and strip_typed(b[2][2]) == d
        val_ok = rat_equal(a, mul(num(3.0), sl))
        parts = []
        if m[0] == "bin" and m[1] == "BitAnd":
            parts = [strip_typed(m[2]), strip_typed(m[3])]
        elif m[0] == "call" and m[1] in ("torch.logical_and",) and len(m[2]) == 2:
            parts = [strip_typed(x) for x in m[2]]
        sign_ok = mag_ok = False
        for c in parts:
            if c[0] != "cmp":
                continue
            lhs, rhs, op = strip_typed(c[2]), strip_typed(c[3]), c[1]
            if op == "<" and rat_equal(rhs, num(0)) and rat_equal(lhs, mul(sl, sr)):
                sign_ok = True
            if op in ("<", ">"):
                big, small = (lhs, rhs) if op == ">" else (rhs, lhs)
                abs_d = ("call", "torch.abs", (b,), ())
                abs_s = ("call", "torch.abs", (sl,), ())
                if rat_equal(big, abs_d) and rat_equal(small, mul(num(3.0), abs_s)):
                    mag_ok = True
        ok = inner_ok and val_ok and sign_ok and mag_ok
        why = ("the capped value is not 3·s_l" if not val_ok else
               "the un-capped branch is not the (sign-limited) end slope" if not inner_ok else
               "the cap does not require the two end secants to differ in sign" if not sign_ok else
               "the cap does not test |d_end| > 3·|s_l|")
    ctx.ob("PCHIP-end", "cap at three times the boundary secant", f.loc(), ok,
           "where the end secants differ in sign and |d_end| > 3|s_l| the slope becomes 3·s_l" if ok else
           f"_limit_endpoint: {why} — the shape-preserving limiter of the three-point end slope is not the standard one "
           f"(SciPy _edge_case), so the end interval can overshoot")
