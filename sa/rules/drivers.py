"""Rules on the thin driver layer that no test reaches in this sandbox: the backend run loops and the table that binds
Pulser's observable classes to the backends' own implementations."""
from __future__ import annotations

import ast
import re

from ..interp import Interp, SELF, show, strip_typed
from ..model import AnalysisError
from . import util

# Pulser observable class -> stem of the implementation functions that compute it
OBS_IMPL = {
    "Occupation": "qubit_occupation",
    "CorrelationMatrix": "correlation_matrix",
    "EnergyVariance": "energy_variance",
    "EnergySecondMoment": "energy_second_moment",
    "Energy": "energy",
}


def _stem(funcq: str) -> str:
    """qubit_occupation_mps_impl / energy_second_moment_den_mat_impl / energy_variance_sv_den_mat_impl -> stem"""
    n = funcq.split(".")[-1]
    n = re.sub(r"_impl$", "", n)
    n = re.sub(r"_(mps|sv_den_mat|den_mat|sv)$", "", n)
    return n


def observable_dispatch(ctx) -> None:
    """monkeypatch_observables binds, for each Pulser observable class, the backend implementation of *that* quantity
    to the copy that is kept (a wrong row makes e.g. `energy_variance` report the second moment under its own tag), every
    implementation the backend ships is bound to some class, and every observable (patched or not) is kept."""
    prog = ctx.prog
    for cq, implmod, variants in (("emu_mps.mps_config.MPSConfig", "emu_mps.custom_callback_implementations", ("mps",)),
                                  ("emu_sv.sv_config.SVConfig", "emu_sv.custom_callback_implementations", ("sv", "den_mat"))):
        K = prog.cls(cq)
        f = K.methods["monkeypatch_observables"]
        it = Interp(prog, K, inline=lambda c, r, d: False, loop_iters=(1,), max_paths=20000)
        rows = {}   # class name -> set of implementation qualnames bound on a path where isinstance(obs, class) holds
        bound_ok = True
        kept_ok = True
        npaths = 0
        for p in it.run(f):
            if p.status != "return":
                continue
            npaths += 1
            copies = [e for e in p.events if e.kind == "call" and e.name == "copy.deepcopy"]
            appended = [e for e in p.events if e.kind == "call" and e.name == ".append" and e.pos]
            if copies:
                kept_ok = kept_ok and any(strip_typed(a.pos[0]) == strip_typed(copies[0].result) for a in appended)
            for e in p.events:
                if not (e.kind == "setattr" and e.name == "apply"):
                    continue
                v = strip_typed(e.value)
                if not (v[0] == "call" and v[1].endswith("MethodType") and len(v[2]) == 2):
                    raise AnalysisError(f"OBSDEF-dispatch: apply is not bound with MethodType at {e.loc()}: {show(v)[:80]}")
                fn, obj = strip_typed(v[2][0]), strip_typed(v[2][1])
                bound_ok = bound_ok and copies and obj == strip_typed(copies[0].result) and strip_typed(e.target[0]) == obj
                impls = []
                if fn[0] == "ref":
                    impls = [fn[1]]
                elif fn[0] == "call" and fn[1].endswith(".choose") and len(fn[2]) == 2:
                    impls = [strip_typed(x)[1] for x in fn[2] if strip_typed(x)[0] == "ref"]
                    if len(impls) == 2:
                        sv_first = "den_mat" not in impls[0].split(".")[-1] and "den_mat" in impls[1].split(".")[-1]
                        ctx.ob("OBSDEF-dispatch", f"{K.name}|choose order|{_stem(impls[0])}", e.loc(), sv_first,
                               "choose(state-vector version, density-matrix version)" if sv_first else
                               f"choose({impls[0].split('.')[-1]}, {impls[1].split('.')[-1]}): the state-vector and the "
                               f"density-matrix implementations are handed over in the wrong order")
                if not impls:
                    raise AnalysisError(f"OBSDEF-dispatch: unrecognised implementation at {e.loc()}: {show(fn)[:80]}")
                cls_name = None
                for c, t in e.conds:
                    c0 = strip_typed(c)
                    if t and c0[0] == "call" and c0[1] == "isinstance" and len(c0[2]) == 2:
                        k = strip_typed(c0[2][1])
                        cls_name = (k[1] if k[0] in ("ref", "ext", "global") else show(k)).split(".")[-1]
                if cls_name is None:
                    raise AnalysisError(f"OBSDEF-dispatch: binding at {e.loc()} is not under an isinstance test")
                rows.setdefault(cls_name, set()).update(impls)
        ctx.require(npaths >= 1 and rows, f"OBSDEF-dispatch: no bindings found in {cq}.monkeypatch_observables")
        for cls_name, impls in sorted(rows.items()):
            want = OBS_IMPL.get(cls_name)
            ok = want is not None and all(_stem(q) == want and q.startswith(implmod + ".") for q in impls)
            ctx.ob("OBSDEF-dispatch", f"{K.name}|{cls_name}", f.loc(), ok,
                   f"{cls_name} → {', '.join(sorted(q.split('.')[-1] for q in impls))}" if ok else
                   f"{K.name}.monkeypatch_observables binds {', '.join(sorted(q.split('.')[-1] for q in impls))} to "
                   f"{cls_name}: the values reported under that observable's tag are those of another quantity")
        shipped = {q for q, fi in prog.funcs.items() if q.startswith(implmod + ".") and q.endswith("_impl") and fi.cls is None}
        used = {q for impls in rows.values() for q in impls}
        missing = sorted(q.split(".")[-1] for q in shipped - used)
        ctx.ob("OBSDEF-dispatch", f"{K.name}|every implementation is bound", f.loc(), not missing,
               f"all {len(shipped)} implementations of {implmod.split('.')[0]} are bound to an observable class" if not missing else
               f"{', '.join(missing)} is shipped but bound to no observable class: that observable silently runs Pulser's "
               f"generic implementation (or none) on the backend's state")
        ctx.ob("OBSDEF-dispatch", f"{K.name}|binding target", f.loc(), bool(bound_ok),
               "the implementation is bound to the copy of the observable" if bound_ok else
               "MethodType binds the implementation to another object than the copy whose apply is replaced")
        ctx.ob("OBSDEF-dispatch", f"{K.name}|every observable is kept", f.loc(), kept_ok,
               "each (possibly patched) copy is appended to the new observable list" if kept_ok else
               "some path drops the observable instead of appending its copy")


def run_loops(ctx) -> None:
    """MPSBackend._run returns the results only after impl.is_finished() turned true, calling impl.progress() while it is
    false; _run_from_sequence_data initialises the driver before running it."""
    prog = ctx.prog
    B = prog.cls("emu_mps.mps_backend.MPSBackend")
    f = B.methods["_run"]
    it = Interp(prog, B, inline=lambda c, r, d: False, loop_iters=(0, 1))
    rets = [p for p in it.run(f) if p.status == "return"]
    ctx.require(rets, "DRIVER: MPSBackend._run has no returning path")
    bad = []
    progressed = False
    for p in rets:
        fin = [(t, i) for i, (c, t) in enumerate(p.cond_log)
               if strip_typed(c)[0] in ("mcall", "call") and show(c).endswith("is_finished()")]
        if not fin or fin[-1][0] is not True:
            bad.append("returns without a final is_finished() == True")
        prog_calls = [e for e in p.events if e.kind == "call" and e.name.endswith("progress")]
        for e in prog_calls:
            progressed = True
            before = [t for (c, t) in p.cond_log[: e.ncond] if show(c).endswith("is_finished()")]
            if not before or before[-1] is not False:
                bad.append("progress() is called although is_finished() was not tested false")
        r = strip_typed(p.retval)
        if not (r[0] == "attr" and r[2] == "results"):
            bad.append(f"returns {show(r)[:40]}")
    ctx.ob("DRIVER", "MPSBackend._run", f.loc(), not bad and progressed,
           "_run calls impl.progress() while not impl.is_finished() and returns impl.results once it is" if not bad and progressed else
           f"MPSBackend._run {(bad or ['never calls impl.progress()'])[0]}: results of an unfinished (or never started) "
           f"evolution are returned without any error")
    g = B.methods["_run_from_sequence_data"]
    it2 = Interp(prog, B, inline=lambda c, r, d: False)
    ok = True
    n = 0
    for p in it2.run(g):
        if p.status != "return":
            continue
        n += 1
        names = [e.name.split(".")[-1] for e in p.events if e.kind == "call"]
        order = [x for x in names if x in ("create_impl", "init", "_run", "permute_results")]
        ok = ok and order == ["create_impl", "init", "_run", "permute_results"]
    ctx.ob("DRIVER", "MPSBackend._run_from_sequence_data", g.loc(), ok and n >= 1,
           "create_impl → impl.init() → _run(impl) → permute_results" if ok and n >= 1 else
           "_run_from_sequence_data no longer does create_impl → init → _run → permute_results in that order")
