"""Rules on the thin driver layer that no test reaches in this sandbox: the backend run loops and the table that binds
Pulser's observable classes to the backends' own implementations."""
from __future__ import annotations

import ast
import re

from ..interp import Interp, SELF, show, strip_typed
from ..model import AnalysisError
from . import util

# Pulser observable class -> stem of the implementation functions that compute it
OBS_IMPL = {
    "Occupation": "qubit_occupation",
    "CorrelationMatrix": "correlation_matrix",
    "EnergyVariance": "energy_variance",
    "EnergySecondMoment": "energy_second_moment",
    "Energy": "energy",
}


def _stem(funcq: str) -> str:
    """qubit_occupation_mps_impl / energy_second_moment_den_mat_impl / energy_variance_sv_den_mat_impl -> stem"""
    n = funcq.split(".")[-1]
    n = re.sub(r"_impl$", "", n)
    n = re.sub(r"_(mps|sv_den_mat|den_mat|sv)$", "", n)
    return n


def observable_dispatch(ctx) -> None:
    """monkeypatch_observables binds, for each Pulser observable class, the backend implementation of *that* quantity
    to the copy that is kept (a wrong row makes e.g. `energy_variance` report the second moment under its own tag), every
    implementation the backend ships is bound to some class, and every observable (patched or not) is kept."""
    prog = ctx.prog
    for cq, implmod, variants in (("emu_mps.mps_config.MPSConfig", "emu_mps.custom_callback_implementations", ("mps",)),
                                  ("emu_sv.sv_config.SVConfig", "emu_sv.custom_callback_implementations", ("sv", "den_mat"))):
        K = prog.cls(cq)
        f = K.methods["monkeypatch_observables"]
        it = Interp(prog, K, inline=lambda c, r, d: False, loop_iters=(1,), max_paths=20000)
        rows = {}   # class name -> set of implementation qualnames bound on a path where isinstance(obs, class) holds
        bound_ok = True
        kept_ok = True
        npaths = 0
        for p in it.run(f):
            if p.status != "return":
                continue
            npaths += 1
            copies = [e for e in p.events if e.kind == "call" and e.name == "copy.deepcopy"]
            appended = [e for e in p.events if e.kind == "call" and e.name == ".append" and e.pos]
            if copies:
                kept_ok = kept_ok and any(strip_typed(a.pos[0]) == strip_typed(copies[0].result) for a in appended)
            for e in p.events:
                if not (e.kind == "setattr" and e.name == "apply"):
                    continue
                v = strip_typed(e.value)
                if not (v[0] == "call" and v[1].endswith("MethodType") and len(v[2]) == 2):
                    raise AnalysisError(f"OBSDEF-dispatch: apply is not bound with MethodType at {e.loc()}: {show(v)[:80]}")
                fn, obj = strip_typed(v[2][0]), strip_typed(v[2][1])
                bound_ok = bound_ok and copies and obj == strip_typed(copies[0].result) and strip_typed(e.target[0]) == obj
                impls = []
                if fn[0] == "ref":
                    impls = [fn[1]]
                elif fn[0] == "call" and fn[1].endswith(".choose") and len(fn[2]) == 2:
                    impls = [strip_typed(x)[1] for x in fn[2] if strip_typed(x)[0] == "ref"]
                    if len(impls) == 2:
                        sv_first = "den_mat" not in impls[0].split(".")[-1] and "den_mat" in impls[1].split(".")[-1]
                        ctx.ob("OBSDEF-dispatch", f"{K.name}|choose order|{_stem(impls[0])}", e.loc(), sv_first,
                               "choose(state-vector version, density-matrix version)" if sv_first else
                               f"choose({impls[0].split('.')[-1]}, {impls[1].split('.')[-1]}): the state-vector and the "
                               f"density-matrix implementations are handed over in the wrong order")
                if not impls:
                    raise AnalysisError(f"OBSDEF-dispatch: unrecognised implementation at {e.loc()}: {show(fn)[:80]}")
                cls_name = None
                for c, t in e.conds:
                    c0 = strip_typed(c)
                    if t and c0[0] == "call" and c0[1] == "isinstance" and len(c0[2]) == 2:
                        k = strip_typed(c0[2][1])
                        cls_name = (k[1] if k[0] in ("ref", "ext", "global") else show(k)).split(".")[-1]
                if cls_name is None:
                    raise AnalysisError(f"OBSDEF-dispatch: binding at {e.loc()} is not under an isinstance test")
                rows.setdefault(cls_name, set()).update(impls)
        ctx.require(npaths >= 1 and rows, f"OBSDEF-dispatch: no bindings found in {cq}.monkeypatch_observables")
        for cls_name, impls in sorted(rows.items()):
            want = OBS_IMPL.get(cls_name)
            ok = want is not None and all(_stem(q) == want and q.startswith(implmod + ".") for q in impls)
            ctx.ob("OBSDEF-dispatch", f"{K.name}|{cls_name}", f.loc(), ok,
                   f"{cls_name} → {', '.join(sorted(q.split('.')[-1] for q in impls))}" if ok else
                   f"{K.name}.monkeypatch_observables binds {', '.join(sorted(q.split('.')[-1] for q in impls))} to "
                   f"{cls_name}: the values reported under that observable's tag are those of another quantity")
        shipped = {q for q, fi in prog.funcs.items() if q.startswith(implmod + ".") and q.endswith("_impl") and fi.cls is None}
        used = {q for impls in rows.values() for q in impls}
        missing = sorted(q.split(".")[-1] for q in shipped - used)
        ctx.ob("OBSDEF-dispatch", f"{K.name}|every implementation is bound", f.loc(), not missing,
               f"all {len(shipped)} implementations of {implmod.split('.')[0]} are bound to an observable class" if not missing else
               f"{', '.join(missing)} is shipped but bound to no observable class: that observable silently runs Pulser's "
               f"generic implementation (or none) on the backend's state")
        ctx.ob("OBSDEF-dispatch", f"{K.name}|binding target", f.loc(), bool(bound_ok),
               "the implementation is bound to the copy of the observable" if bound_ok else
               "MethodType binds the implementation to another object than the copy whose apply is replaced")
        ctx.ob("OBSDEF-dispatch", f"{K.name}|every observable is kept", f.loc(), kept_ok,
               "each (possibly patched) copy is appended to the new observable list" if kept_ok else
               "some path drops the observable instead of appending its copy")


def run_loops(ctx) -> None:
    """MPSBackend._run returns the results only after impl.is_finished() turned true, calling impl.progress() while it is
    false; _run_from_sequence_data initialises the driver before running it."""
    prog = ctx.prog
    B = prog.cls("emu_mps.mps_backend.MPSBackend")
    f = B.methods["_run"]
    it = Interp(prog, B, inline=lambda c, r, d: False, loop_iters=(0, 1))
    rets = [p for p in it.run(f) if p.status == "return"]
    ctx.require(rets, "DRIVER: MPSBackend._run has no returning path")
    bad = []
    progressed = False
    for p in rets:
        fin = [(t, i) for i, (c, t) in enumerate(p.cond_log)
               if strip_typed(c)[0] in ("mcall", "call") and show(c).endswith("is_finished()")]
        if not fin or fin[-1][0] is not True:
            bad.append("returns without a final is_finished() == True")
        prog_calls = [e for e in p.events if e.kind == "call" and e.name.endswith("progress")]
        for e in prog_calls:
            progressed = True
            before = [t for (c, t) in p.cond_log[: e.ncond] if show(c).endswith("is_finished()")]
            if not before or before[-1] is not False:
                bad.append("progress() is called although is_finished() was not tested false")
        r = strip_typed(p.retval)
        if not (r[0] == "attr" and r[2] == "results"):
            bad.append(f"returns {show(r)[:40]}")
    ctx.ob("DRIVER", "MPSBackend._run", f.loc(), not bad and progressed,
           "_run calls impl.progress() while not impl.is_finished() and returns impl.results once it is" if not bad and progressed else
           f"MPSBackend._run {(bad or ['never calls impl.progress()'])[0]}: results of an unfinished (or never started) "
           f"evolution are returned without any error")
    g = B.methods["_run_from_sequence_data"]
    it2 = Interp(prog, B, inline=lambda c, r, d: False)
    ok = True
    n = 0
    for p in it2.run(g):
        if p.status != "return":
            continue
        n += 1
        names = [e.name.split(".")[-1] for e in p.events if e.kind == "call"]
        order = [x for x in names if x in ("create_impl", "init", "_run", "permute_results")]
        ok = ok and order == ["create_impl", "init", "_run", "permute_results"]
    ctx.ob("DRIVER", "MPSBackend._run_from_sequence_data", g.loc(), ok and n >= 1,
           "create_impl → impl.init() → _run(impl) → permute_results" if ok and n >= 1 else
           "_run_from_sequence_data no longer does create_impl → init → _run → permute_results in that order")


IMPL = "emu_mps.mps_backend_impl"


def create_impl_table(ctx) -> None:
    """create_impl: DMRG solver → DMRGBackendImpl; otherwise Lindblad operators present → NoisyMPSBackendImpl, absent →
    MPSBackendImpl (a noisy sequence on the noiseless driver silently drops every jump operator)."""
    prog = ctx.prog
    f = prog.func(IMPL + ".create_impl")
    it = Interp(prog, None, inline=lambda c, r, d: False)
    rows = {}
    for p in it.run(f):
        if p.status != "return":
            continue
        v = strip_typed(p.retval)
        if v[0] != "new":
            raise AnalysisError(f"DISPATCH-impl: create_impl returns {show(v)[:60]}")
        noisy = None
        dmrg = None
        for c, t in p.cond_log:
            c0 = strip_typed(c)
            if c0[0] == "attr" and c0[2] == "lindblad_ops":
                noisy = t
            if c0[0] == "cmp" and "solver" in show(c0) and "DMRG" in show(c0):
                dmrg = t if c0[1] == "==" else (not t)
        rows.setdefault((dmrg, noisy), set()).add(v[1].split(".")[-1])
    want = {(True, None): {"DMRGBackendImpl"}, (False, True): {"NoisyMPSBackendImpl"}, (False, False): {"MPSBackendImpl"}}
    ok = rows == want
    ctx.ob("DISPATCH-impl", "create_impl table", f.loc(), ok,
           "solver DMRG → DMRGBackendImpl; TDVP with Lindblad operators → NoisyMPSBackendImpl, without → MPSBackendImpl" if ok else
           f"create_impl maps (solver is DMRG, Lindblad operators present) to {({k: sorted(v) for k, v in rows.items()})}; "
           f"expected {({k: sorted(v) for k, v in want.items()})} — noisy sequences run on the wrong driver")


def results_helpers(ctx) -> None:
    """The helpers of permute_results: permute_atom_order stores the gathered order back; _tags_with_base_tag selects
    exactly the tags `base` and `base_<suffix>`."""
    prog = ctx.prog
    f = prog.func(IMPL + ".permute_atom_order")
    it = Interp(prog, None, inline=lambda c, r, d: False)
    ok = False
    for p in it.run(f):
        st = [e for e in p.events if e.kind == "setattr" and e.name == "atom_order"]
        if p.status == "return" and len(st) == 1:
            v = strip_typed(st[0].value)
            inner = strip_typed(v[2][0]) if v[0] == "call" and v[1] == "tuple" and v[2] else v
            ok = strip_typed(st[0].target[0]) == ("param", f.qualname, "results") and inner[0] == "call" and \
                inner[1].endswith("permute_list") and ("param", f.qualname, "perm") in [strip_typed(x) for x in inner[2]] and \
                "results.atom_order" in show(inner[2][0])
    ctx.ob("PERM-results", "permute_atom_order stores the gathered order", f.loc(), ok,
           "results.atom_order ← tuple(permute_list(list(results.atom_order), perm))" if ok else
           "permute_atom_order no longer stores permute_list(results.atom_order, perm) back into results.atom_order: the "
           "atom order of the returned results stays in MPS site order")
    g = prog.func(IMPL + "._tags_with_base_tag")
    src = util.text(g.node, 2000).replace(" ", "")
    okt = False
    for p in it.run(g):
        if p.status != "return":
            continue
        r = strip_typed(p.retval)
        if r[0] == "comp" and len(r[3]) == 1 and len(r[3][0][1]) == 1:
            cond = strip_typed(r[3][0][1][0])
            item = strip_typed(r[2][0])
            base = ("param", g.qualname, "base_tag")
            if cond[0] == "bool" and cond[1] == "or" and len(cond[2]) == 2:
                a, b = (strip_typed(x) for x in cond[2])
                eq = lambda t: t[0] == "cmp" and t[1] == "==" and {strip_typed(t[2]), strip_typed(t[3])} == {item, base}  # noqa: E731
                pre = lambda t: t[0] == "mcall" and t[2] == "startswith" and strip_typed(t[1]) == item and len(t[3]) == 1 and \
                    strip_typed(t[3][0]) == ("bin", "Add", base, ("const", "_"))  # noqa: E731
                okt = (eq(a) and pre(b)) or (eq(b) and pre(a))
    ctx.ob("TAGKEY", "_tags_with_base_tag predicate", g.loc(), okt,
           "a tag belongs to an observable iff it equals the base tag or starts with base_tag + '_'" if okt else
           "_tags_with_base_tag no longer selects {tag == base_tag or tag.startswith(base_tag + '_')}: suffixed or plain "
           "per-atom results are skipped when the results are put back into register order")


def normalised_copies(ctx) -> None:
    """The state handed to the observables, and a user's initial state, are divided by their norm: (1/‖ψ‖)·ψ."""
    from ..algebra import monomials
    prog = ctx.prog
    K = prog.cls(IMPL + ".MPSBackendImpl")
    it = Interp(prog, K, inline=lambda c, r, d: False)
    f = K.methods["fill_results"]
    found = False
    ok = True
    for p in it.run(f):
        cb = [e for e in p.events if e.kind == "call" and e.name == "<value>" and len(e.pos) == 5]
        for e in cb:
            st = strip_typed(e.pos[2])
            # the normalised copy `(1 / ‖ψ‖) * ψ` (possibly inside the dark-atom padding): one monomial ψ·‖ψ‖⁻¹
            good = False
            cands = [t for t in _walk(st) if t[0] == "bin" and t[1] in ("Mult", "Div") and
                     any(strip_typed(x) == ("attr", SELF, "state") for x in t[2:4])]
            for t in cands:
                mons = monomials(t)
                if len(mons) == 1:
                    (m, c), = mons.items()
                    atoms = sorted(show(x).replace(" ", "") for x in m)
                    good = good or (abs(c - 1) < 1e-12 and len(atoms) == 2 and "self.state" in atoms and
                                    any(a.startswith("1/") and "self.state.norm()" in a for a in atoms))
            if not cands:
                good = False
            found = True
            ok = ok and good
    ctx.require(found, "OBSDEF-norm: callbacks of fill_results not found")
    ctx.ob("OBSDEF-norm", "fill_results normalises the state", f.loc(), ok,
           "observables are evaluated on (1/‖ψ‖)·ψ" if ok else
           "the state handed to the observables is not self.state divided by its norm: between jumps of a noisy run the "
           "norm decays, so every reported value is scaled by a power of it")


def _walk(t):
    from ..interp import walk
    return walk(t)


def progress_dispatch(ctx) -> None:
    """MPSBackendImpl.progress / DMRGBackendImpl.progress: the left-to-right update runs exactly when the sweep direction
    is LEFT_TO_RIGHT, the right-to-left one otherwise, and every path that did work ends by offering an autosave."""
    prog = ctx.prog
    for cq, lr, rl in ((IMPL + ".MPSBackendImpl", "_left_to_right_update_tdvp", "_right_to_left_update_tdvp"),
                       (IMPL + ".DMRGBackendImpl", "_left_to_right_update", "_right_to_left_update")):
        K = prog.cls(cq)
        f = K.methods["progress"]
        it = Interp(prog, K, inline=lambda c, r, d: False, fork_asserts=False)
        bad = []
        n = 0
        nosave = 0
        for p in it.run(f):
            if p.status != "return":
                continue
            calls = [e.name.split(".")[-1] for e in p.events if e.kind == "call"]
            did_lr, did_rl = lr in calls, rl in calls
            worked = did_lr or did_rl or "_evolve" in calls
            if worked and (not calls or calls[-1] != "save_simulation"):
                nosave += 1
            if not (did_lr or did_rl):
                continue
            n += 1
            direction = None
            for c, t in p.cond_log:
                c0 = strip_typed(c)
                if c0[0] == "cmp" and c0[1] in ("is", "==") and "_swipe_direction" in show(c0):
                    if "LEFT_TO_RIGHT" in show(c0):
                        direction = "LR" if t else (direction if direction == "RL" else "not-LR")
                    elif "RIGHT_TO_LEFT" in show(c0):
                        direction = "RL" if t else (direction if direction == "LR" else "not-RL")
            if did_lr and direction != "LR":
                bad.append(f"{lr} runs on a path where the direction is {direction}")
            if did_rl and direction not in ("RL", "not-LR"):
                bad.append(f"{rl} runs on a path where the direction is {direction}")
        ctx.require(n >= 2, f"TDVP-dispatch: sweep updates of {K.name}.progress not found")
        ctx.ob("TDVP-dispatch", f"{K.name}.progress direction", f.loc(), not bad,
               f"{lr} ⇔ LEFT_TO_RIGHT, {rl} ⇔ RIGHT_TO_LEFT" if not bad else
               f"{K.name}.progress: {bad[0]} — the sweep moves against the direction its bookkeeping records")
        ctx.ob("SAVE-offered", f"{K.name}.progress ends with save_simulation", f.loc(), nosave == 0,
               "every progress() that evolved the state ends by calling save_simulation()" if nosave == 0 else
               f"{nosave} path(s) of {K.name}.progress evolve the state without calling save_simulation(): no autosave is "
               f"written and a crashed run cannot be resumed")


def init_sequence(ctx) -> None:
    """MPSBackendImpl.init: dark qubits are removed before the initial state and the Hamiltonian are built."""
    prog = ctx.prog
    K = prog.cls(IMPL + ".MPSBackendImpl")
    f = K.methods["init"]
    it = Interp(prog, K, inline=lambda c, r, d: False)
    ok = True
    n = 0
    for p in it.run(f):
        if p.status != "return":
            continue
        n += 1
        calls = [e.name.split(".")[-1] for e in p.events if e.kind == "call" and strip_typed(e.recv) == SELF]
        need = ["init_dark_qubits", "init_initial_state", "init_noiseless_hamiltonian", "init_baths"]
        pos = [calls.index(x) if x in calls else -1 for x in need]
        ok = ok and all(x >= 0 for x in pos) and pos == sorted(pos)
    ctx.ob("DARK-mps", "init order", f.loc(), ok and n >= 1,
           "init(): init_dark_qubits → init_initial_state → init_noiseless_hamiltonian → … → init_baths" if ok and n >= 1 else
           "MPSBackendImpl.init no longer removes the badly prepared atoms before building state and Hamiltonian "
           "(or builds the baths before them)")


def jump_gap(ctx) -> None:
    """NoisyMPSBackendImpl: norm_gap_before_jump is always ‖ψ‖² − jump_threshold (the quantity whose sign change locates
    the jump), and the threshold is drawn uniformly below the current squared norm."""
    from ..algebra import monomials
    from ..interp import field_defs
    prog = ctx.prog
    K = prog.cls(IMPL + ".NoisyMPSBackendImpl")
    fd = field_defs(prog, K)
    defs = [(v, ev) for v, ev in fd.get("norm_gap_before_jump", []) if ev is not None]
    ctx.require(len(defs) >= 3, f"JUMP-gap: {len(defs)} stores to norm_gap_before_jump, 3 confirmed by hand")
    thr_defs = [strip_typed(v) for v, ev in fd.get("jump_threshold", []) if ev is not None]
    for v, ev in defs:
        mons = monomials(v)
        sq = [c for m, c in mons.items() if len(m) == 2 and all("state.norm()" in show(x) for x in m) and show(m[0]) == show(m[1])]
        th = [c for m, c in mons.items() if len(m) == 1 and (strip_typed(m[0]) == ("attr", SELF, "jump_threshold") or strip_typed(m[0]) in thr_defs)]
        ok = len(mons) == 2 and sq == [1] and th == [-1]
        ctx.ob("JUMP-gap", f"{ev.func.name}|norm gap", ev.loc(), ok,
               "norm_gap_before_jump = ‖ψ‖² − jump_threshold" if ok else
               f"{ev.func.name} stores norm_gap_before_jump = {show(v)[:80]}, not ‖ψ‖² − jump_threshold: the root finder "
               f"then locates the jump at a time where the squared norm did not cross the threshold", entry=ev.func.qualname)
    okt = len(thr_defs) >= 1 and all(t[0] == "call" and t[1].endswith("uniform") and len(t[2]) == 2 and
                                     strip_typed(t[2][0]) in (("const", 0.0), ("const", 0)) and strip_typed(t[2][1])[0] == "param"
                                     for t in thr_defs)
    ctx.ob("JUMP-gap", "threshold distribution", K.methods["set_jump_threshold"].loc(), okt,
           "jump_threshold ~ uniform(0, bound)" if okt else f"jump_threshold is drawn as {[show(t)[:40] for t in thr_defs]}")


def autosave_content(ctx) -> None:
    """save_simulation: throttled by autosave_dt (returns early only when the last save is more recent than that), and
    what is written to the temporary file is pickle.dump(self, <that file>)."""
    prog = ctx.prog
    K = prog.cls(IMPL + ".MPSBackendImpl")
    f = K.methods["save_simulation"]
    it = Interp(prog, K, inline=lambda c, r, d: False)
    dumped = True
    nsave = 0
    early = []
    for p in it.run(f):
        if p.status != "return":
            continue
        opens = [e for e in p.events if e.kind == "call" and e.name == "open"]
        if not opens:
            early.append(p)
            continue
        nsave += 1
        handle = None
        for e in p.events:
            if e.kind == "with_enter" and opens and strip_typed(e.value) == strip_typed(opens[0].result):
                handle = ("ctx", e.value)
        dumps = [e for e in p.events if e.kind == "call" and e.name == "pickle.dump" and len(e.pos) >= 2]
        good = len(dumps) == 1 and strip_typed(dumps[0].pos[0]) == SELF and \
            (strip_typed(dumps[0].pos[1]) == strip_typed(handle) if handle else False) and \
            p.events.index(opens[0]) < p.events.index(dumps[0])
        repl = [e for e in p.events if e.kind == "call" and e.name in ("os.replace", "os.rename", "shutil.move")]
        good = good and bool(repl) and p.events.index(dumps[0]) < p.events.index(repl[0])
        dumped = dumped and good
    ctx.require(nsave >= 1, "SAVE-content: no saving path in save_simulation")
    ctx.ob("SAVE-content", "the snapshot is pickled into the new file", f.loc(), dumped,
           "pickle.dump(self, handle of the .new file) happens before the file is swapped in" if dumped else
           "save_simulation swaps in a file into which the driver was not pickled: the autosave cannot be resumed")
    # throttle: the early return is taken exactly when last_save_time > now − autosave_dt
    okth = len(early) >= 1
    for p in early:
        cond = [(strip_typed(c), t) for c, t in p.cond_log]
        hit = False
        for c, t in cond:
            o = None
            from ..interp import cmp_with_left
            o = cmp_with_left(c, lambda x: x == ("attr", SELF, "last_save_time"))
            if o is not None and o[0] in (">", ">=") and t is True and "autosave_dt" in show(o[2]) and "time()" in show(o[2]):
                from ..algebra import monomials
                mons = monomials(o[2])
                hit = any(len(m) == 1 and "autosave_dt" in show(m[0]) and abs(c_ + 1) < 1e-12 for m, c_ in mons.items()) and \
                    any(len(m) == 1 and "time()" in show(m[0]) and abs(c_ - 1) < 1e-12 for m, c_ in mons.items())
        okth = okth and hit
    ctx.ob("SAVE-content", "autosave throttle", f.loc(), okth,
           "no snapshot is written only while the last one is younger than autosave_dt" if okth else
           "the early return of save_simulation is not `last_save_time > time.time() − config.autosave_dt`: autosaves are "
           "skipped when they are due")


def evaluation_time_filter(ctx) -> None:
    """_is_evaluation_time(observable, t): an observable with its own evaluation times is due exactly at those; only an
    observable without own times is due at the config's default times (Pulser's Observable.__call__ has the same rule but
    a half-nanosecond tolerance: if the backend's filter lets a default time through for an observable with own times,
    Pulser records it there whenever one of its own times is that close — twice for one request).  Both backends."""
    prog = ctx.prog
    for cq in (IMPL + ".MPSBackendImpl", "emu_sv.sv_backend_impl.SVBackendImpl"):
        K = prog.cls(cq)
        f = K.methods["_is_evaluation_time"]
        it = Interp(prog, K, inline=lambda c, r, d: False)
        # truth table over (own times given?) of what the returned value consults
        table = {}
        got = "?"
        for p in it.run(f):
            if p.status != "return":
                continue
            r = strip_typed(p.retval)
            got = show(r)[:110]
            own_given = None
            for c, t in p.cond_log:
                c0 = strip_typed(c)
                if c0[0] == "cmp" and c0[1] in ("is", "isnot", "==", "!=") and "evaluation_times" in show(c0[2]) and strip_typed(c0[3]) == ("const", None):
                    own_given = (not t) if c0[1] in ("is", "==") else t
            table.setdefault(own_given, []).append(r)

        def value(t, own_given, OWN, DEF):
            """truth value of the returned formula for one assignment of its atoms (None = not understood)"""
            t = strip_typed(t)
            if t[0] == "mcall" and t[2].endswith("is_time_in_evaluation_times"):
                return OWN
            if t[0] == "mcall" and t[2].endswith("is_evaluation_time"):
                return DEF
            if t[0] == "const":
                return bool(t[1])
            if t[0] == "cmp" and "evaluation_times" in show(t[2]) and strip_typed(t[3]) == ("const", None):
                return (t[1] in ("isnot", "!=")) == own_given
            if t[0] == "un" and t[1] == "not":
                v = value(t[2], own_given, OWN, DEF)
                return None if v is None else (not v)
            if t[0] == "bool":
                vals = [value(x, own_given, OWN, DEF) for x in t[2]]
                if any(v is None for v in vals):
                    return None
                return all(vals) if t[1] == "and" else any(vals)
            if t[0] == "cmp" and t[1] == ">" and "len(" in show(t[2]) and "evaluation_times" in show(t[2]) and strip_typed(t[3]) == ("const", 0):
                return True if own_given else None       # a non-emptiness guard: immaterial for the table
            if "evaluation_times" in show(t) and "default_evaluation_times" not in show(t):
                # a hand-written membership test in the observable's own times: it must range over *all* of them
                txt = show(t)
                universal = ("any(" in txt or ".any()" in txt or " in " in txt or "isclose" in txt) and "bisect" not in txt
                if not universal:
                    partial.append(txt[:90])
                return OWN
            return None

        # the two membership tests are asked about *this* time and *this* observable's times, of the run's config
        tpar = ("param", f.qualname, f.params[2]) if len(f.params) > 2 else None
        opar = ("param", f.qualname, f.params[1]) if len(f.params) > 1 else None
        arg_bad = None
        for rs in table.values():
            for r in rs:
                for t_ in _walk(r):
                    t_ = strip_typed(t_)
                    if t_[0] != "mcall":
                        continue
                    recv_ok = strip_typed(t_[1]) in (("attr", SELF, "config"), ("attr", SELF, "_config"))
                    pos = [strip_typed(a) for a in t_[3]]
                    kws = {k: strip_typed(v) for k, v in t_[4]} if len(t_) > 4 else {}
                    if t_[2].endswith("is_time_in_evaluation_times"):
                        a0 = pos[0] if pos else kws.get("t")
                        a1 = pos[1] if len(pos) > 1 else kws.get("evaluation_times")
                        if not (recv_ok and a0 == tpar and a1 == ("attr", opar, "evaluation_times")):
                            arg_bad = f"is_time_in_evaluation_times({show(a0)[:20] if a0 else '?'}, {show(a1)[:30] if a1 else '?'}) on {show(t_[1])[:20]}"
                    elif t_[2].endswith("is_evaluation_time"):
                        a0 = pos[0] if pos else kws.get("t")
                        if not (recv_ok and a0 == tpar):
                            arg_bad = f"is_evaluation_time({show(a0)[:20] if a0 else '?'}) on {show(t_[1])[:20]}"
        ctx.ob("ONCE-filter", f"{K.name}._is_evaluation_time arguments", f.loc(), arg_bad is None,
               "membership is tested for the time argument in the observable's own evaluation_times / the config's defaults"
               if arg_bad is None else
               f"{K.name}._is_evaluation_time asks {arg_bad}: not (the time, the observable's own evaluation_times) of the run's config")
        partial: list = []
        ok = bool(table)
        wrong = []
        for og_path, rs in table.items():
            for og in ((True, False) if og_path is None else (og_path,)):
                for OWN in (True, False):
                    for DEF in (True, False):
                        for r in rs:
                            v = value(r, og, OWN, DEF)
                            want = OWN if og else DEF
                            if v is None:
                                raise AnalysisError(f"ONCE-filter: cannot evaluate the value returned by {K.name}._is_evaluation_time: {show(r)[:100]}")
                            if v != want:
                                ok = False
                                wrong.append(f"own times {'given' if og else 'absent'}, t {'in' if OWN else 'not in'} own times, "
                                             f"{'a' if DEF else 'not a'} default time → {v}")
        rows = {True: wrong[:1], False: []}
        ctx.ob("ONCE-filter", f"{K.name}._is_evaluation_time own-times membership", f.loc(), not partial,
               "membership in the observable's own times is decided over all of them (Pulser's is_time_in_evaluation_times)"
               if not partial else
               f"{K.name}._is_evaluation_time decides membership in the observable's own times by `{partial[0]}`, which does not "
               f"range over every requested time (a single neighbour found by bisection is missed when t·T/T rounds up by one ulp): "
               f"the observable is silently skipped at such times")
        ctx.ob("ONCE-filter", f"{K.name}._is_evaluation_time", f.loc(), ok,
               "own evaluation times given → due exactly at those; none given → due at the default evaluation times" if ok else
               f"{K.name}._is_evaluation_time returns {got}, which is not (t in own times) when own times are given and "
               f"(t a default time) otherwise — e.g. {wrong[0] if wrong else '?'}: observables are skipped at their times, or "
               f"let through at a default evaluation time where Pulser's half-nanosecond tolerance records them a second time")


def sweep_boundaries(ctx) -> None:
    """The sweep updates move on while the pair (i, i+1) is not the last one in the direction of travel and turn round
    exactly at the end of the chain: left-to-right moves ⇔ i < N−2, right-to-left moves ⇔ i > 0; the turn stores the new
    direction.  (A move taken at the boundary indexes factor −1 or N, which Python accepts for −1.)"""
    from ..algebra import monomials
    from ..interp import cmp_with_left
    prog = ctx.prog
    table = [(IMPL + ".MPSBackendImpl", "_left_to_right_update_tdvp", "LR", ("attr", SELF, "_sweep_index")),
             (IMPL + ".MPSBackendImpl", "_right_to_left_update_tdvp", "RL", ("attr", SELF, "_sweep_index")),
             (IMPL + ".DMRGBackendImpl", "_left_to_right_update", "LR", None),
             (IMPL + ".DMRGBackendImpl", "_right_to_left_update", "RL", None)]
    for cq, mname, direction, idx in table:
        K = prog.cls(cq)
        f = K.methods[mname]
        index = idx if idx is not None else ("param", f.qualname, f.params[1])
        it = Interp(prog, K, inline=lambda c, r, d: False)
        bad = []
        n = 0
        end = {("self.qubit_count",): 1, (): -2} if direction == "LR" else {}
        for p in it.run(f):
            if p.status != "return":
                continue
            n += 1
            moved = [e for e in p.events if e.kind == "setattr" and e.name == "_sweep_index" and e.target[0] == SELF]
            turned = any(e.kind == "setattr" and e.name == "_swipe_direction" for e in p.events)
            may_move = None
            at_end = None
            for c, t in p.cond_log:
                o = cmp_with_left(c, lambda x: strip_typed(x) == index)
                if o is not None:
                    op, _, rhs = o
                    mons = {tuple(show(x) for x in m): cc for m, cc in monomials(rhs).items() if abs(cc) > 1e-12}
                    if (direction == "LR" and op == "<" and mons == end) or (direction == "RL" and op == ">" and mons == end):
                        may_move = t
                o2 = cmp_with_left(c, lambda x: "_sweep_index" in show(x))
                if o2 is not None and o2[0] == "==":
                    mons = {tuple(show(x) for x in m): cc for m, cc in monomials(o2[2]).items() if abs(cc) > 1e-12}
                    if mons == end:
                        at_end = t
            if moved and may_move is not True:
                bad.append(f"the index is changed on a path where `{'i < N − 2' if direction == 'LR' else 'i > 0'}` is {may_move}")
            if may_move is True and not moved:
                bad.append("a path that may move on leaves the sweep index unchanged")
            if moved:
                step = monomials(("bin", "Sub", moved[-1].value, ("attr", SELF, "_sweep_index")))
                want = 1 if direction == "LR" else -1
                if {k: v for k, v in step.items() if abs(v) > 1e-12} != {(): want}:
                    bad.append(f"the sweep index is set to {show(moved[-1].value)[:40]}")
            if turned and at_end is not True and not (at_end is None and may_move is False):
                bad.append(f"the direction is reversed on a path where the index was not established to be {'N − 2' if direction == 'LR' else '0'}")
            if at_end is True and not turned:
                bad.append("the end of the chain is reached without reversing the direction")
        ctx.require(n >= 2, f"TDVP-boundary: paths of {K.name}.{mname} not found")
        bound = "i < N − 2" if direction == "LR" else "i > 0"
        ctx.ob("TDVP-boundary", f"{K.name}.{mname}", f.loc(), not bad,
               f"moves on (index {'+' if direction == 'LR' else '−'} 1) ⇔ {bound}; reverses the direction ⇔ the index is at the end" if not bad else
               f"{K.name}.{mname}: {bad[0]}: the sweep turns round at the wrong site or walks off the chain")


def dmrg_restart(ctx) -> None:
    """DMRG sweep_complete, not converged and sweeps left: the energy of this sweep becomes the reference of the next."""
    prog = ctx.prog
    K = prog.cls(IMPL + ".DMRGBackendImpl")
    f = K.methods["sweep_complete"]
    it = Interp(prog, K, inline=lambda c, r, d: False)
    n = 0
    ok = True
    for p in it.run(f):
        if p.status != "return":
            continue
        conv = [t for c, t in p.cond_log if strip_typed(c)[0] == "mcall" and strip_typed(c)[2].endswith("convergence_check")]
        if not conv or conv[-1] is not False:
            continue
        n += 1
        st = [e for e in p.events if e.kind == "setattr" and e.name == "previous_energy" and e.target[0] == SELF]
        ok = ok and len(st) == 1 and strip_typed(st[0].value) == ("attr", SELF, "current_energy")
    ctx.ob("CONV-gate", "DMRG restart keeps the reference energy", f.loc(), ok and n >= 1,
           "an unconverged sweep stores previous_energy ← current_energy before the next sweep" if ok and n >= 1 else
           "an unconverged DMRG sweep does not store its energy as previous_energy: convergence is judged against a stale "
           "(or missing) reference")


def autosave_callers(ctx) -> None:
    """A snapshot is consistent only between two progress() calls: save_simulation is called from the end of progress()
    and from nowhere else (an exception handler or a signal hook that saves mid-step pickles factors, baths, centre and
    sweep index that do not belong together, and atomically replaces the last good autosave with it), and the throttle
    clock last_save_time is written by the driver's constructor and by save_simulation only."""
    prog = ctx.prog
    sites = []
    clock = []
    n = 0
    for f in prog.funcs.values():
        if not f.module.name.startswith(("emu_mps", "emu_base")):
            continue
        n += 1
        for node in util.walk_own(f.node):
            if isinstance(node, ast.Call) and isinstance(node.func, ast.Attribute) and node.func.attr == "save_simulation":
                sites.append((f, node))
            if isinstance(node, (ast.Assign, ast.AugAssign, ast.AnnAssign)):
                for t in (node.targets if isinstance(node, ast.Assign) else [node.target]):
                    if isinstance(t, ast.Attribute) and t.attr == "last_save_time":
                        clock.append((f, node))
    ctx.require(len(sites) >= 2, f"SAVE-callers: {len(sites)} calls of save_simulation found, 3 confirmed by hand")
    bad = [f"{f.qualname.split('.', 2)[-1]} (line {node.lineno})" for f, node in sites if f.name != "progress" or f.cls is None]
    ctx.ob("SAVE-callers", "save_simulation is called from progress() only", sites[0][0].loc(), not bad,
           f"{len(sites)} call sites, all at the end of a progress() of the driver classes" if not bad else
           f"save_simulation is also called from {bad[0]}: a snapshot taken anywhere but between two progress() calls can "
           f"capture a half-finished sweep step and replaces the last consistent autosave")
    # the clock is only ever set to "now" (the constructor, save_simulation, and resume() restarting it): a value in the
    # past would force a snapshot at the next call, whatever the state of the sweep
    badc = [f"{f.qualname.split('.', 2)[-1]} (line {node.lineno}): {util.text(node, 60)}" for f, node in clock
            if not (isinstance(node, ast.Assign) and util.text(node.value).replace(" ", "") == "time.time()")]
    ctx.ob("SAVE-callers", "last_save_time is only set to now", (clock[0][0] if clock else sites[0][0]).loc(), not badc and bool(clock),
           f"all {len(clock)} stores to last_save_time assign time.time()" if not badc and clock else
           f"last_save_time is set in {badc[0] if badc else 'no place'}: the autosave throttle is bypassed and a snapshot is "
           f"forced at a point the driver did not choose")


def phase_shortcut(ctx) -> None:
    """The emu-sv generators have a fast path that ignores the drive phases (Ω/2·σˣ instead of Ω/2·(cosφ σˣ + sinφ σʸ)).
    It is the same operator only when every phase is exactly zero, so the flag that selects it must be `phis.any()` (some
    phase non-zero ⇒ complex path) and the phase-free code must sit on the flag-false side."""
    from ..interp import field_defs
    prog = ctx.prog
    for cq, method, real_call, complex_call in (
            ("emu_sv.hamiltonian.RydbergHamiltonian", "__mul__", "_apply_sigma_operators_real", "_apply_sigma_operators_complex"),
            ("emu_sv.lindblad_operator.RydbergLindbladian", "_local_terms_hamiltonian", None, None)):
        K = prog.cls(cq)
        fd = field_defs(prog, K)
        defs = [strip_typed(v) for v, ev in fd.get("complex", []) if ev is not None]
        phis = ("attr", SELF, "phis")
        phis_terms = (phis,) + tuple(strip_typed(v) for v, _ in fd.get("phis", []))

        def nonzero_test(t):
            if t[0] == "mcall" and t[2] == "any" and not t[3] and strip_typed(t[1]) in phis_terms:
                return True
            if t[0] == "call" and t[1] in ("torch.any", "any") and len(t[2]) == 1:
                a = strip_typed(t[2][0])
                return a in phis_terms or (a[0] == "cmp" and a[1] == "!=" and strip_typed(a[2]) in phis_terms and
                                           strip_typed(a[3]) in (("const", 0), ("const", 0.0)))
            if t[0] == "call" and t[1] == "bool" and len(t[2]) == 1:
                return nonzero_test(strip_typed(t[2][0]))
            return False
        okf = len(defs) == 1 and nonzero_test(defs[0])
        ctx.ob("PHASE-shortcut", f"{K.name}.complex", K.methods["__init__"].loc(), okf,
               "complex ⇔ some drive phase is non-zero (phis.any())" if okf else
               f"{K.name}.complex = {[show(d)[:60] for d in defs]} is not `phis.any()`: phases for which it is false although "
               f"they are not zero (e.g. φ = π) are emulated with the phase-free generator Ω/2·σˣ")
        f = K.methods[method]
        it = Interp(prog, K, inline=lambda c, r, d: False)
        seen = {}
        for p in it.run(f):
            if p.status != "return":
                continue
            flag = None
            for c, t in p.cond_log:
                if strip_typed(c) == ("attr", SELF, "complex"):
                    flag = t
            if real_call is not None:
                calls = [e.name.split(".")[-1] for e in p.events if e.kind == "call"]
                uses_phase = complex_call in calls
                phase_free = real_call in calls
            else:
                s = show(p.retval)
                uses_phase = "cos(" in s and "sin(" in s and "phis" in s
                phase_free = not uses_phase and "omegas" in s
            seen[flag] = (uses_phase, phase_free)
        ok = seen.get(True) == (True, False) and seen.get(False) == (False, True)
        ctx.ob("PHASE-shortcut", f"{K.name}.{method}", f.loc(), ok,
               "complex → generator with cosφ/sinφ; not complex → phase-free generator" if ok else
               f"{K.name}.{method} maps the flag to (uses phases, phase-free) as {seen}: the phase-free generator runs for "
               f"non-zero phases or the other way round")


def noise_forwarding(ctx) -> None:
    """The jump operators are built for the run's own basis: PulserData.__init__ hands _get_all_lindblad_noise_operators
    the dim and interaction_type of the HamiltonianData's basis_data, and that function forwards both (and the noise
    model and the type being iterated) to every get_lindblad_operators call.  A dropped keyword falls back to the
    callee's default ("ising", dim 2): XY runs get relabelled eff_noise operators, three-level runs 2x2 operators."""
    from .adapter import _run, PA
    GLO = "emu_base.jump_lindblad_operators.get_lindblad_operators"
    ALL = PA + "_get_all_lindblad_noise_operators"
    f, fp = _run(ctx, ALL)
    n = 0
    bad = []
    for p in fp:
        for e in p.events:
            if e.kind != "call" or e.name != GLO:
                continue
            n += 1
            got = dict(e.kw)
            got.update(e.args if isinstance(e.args, dict) else {})
            for name in ("noise_model", "dim", "interact_type"):
                v = strip_typed(got[name]) if got.get(name) is not None else None
                if v != ("param", f.qualname, name):
                    bad.append(f"get_lindblad_operators({name}={show(v)[:40] if v is not None else '<callee default>'})")
            v = strip_typed(got["noise_type"]) if got.get("noise_type") is not None else None
            if not (v is not None and v[0] == "elem" and strip_typed(v[1]) == ("attr", ("param", f.qualname, "noise_model"), "noise_types")):
                bad.append(f"get_lindblad_operators(noise_type={show(v)[:40] if v is not None else '<missing>'})")
    ctx.require(n >= 1, "NOISE-forward: no get_lindblad_operators call in _get_all_lindblad_noise_operators")
    ctx.ob("NOISE-forward", "_get_all_lindblad_noise_operators", f.loc(), not bad,
           "every get_lindblad_operators call receives the caller's noise_model, dim and interact_type and the noise "
           "type being iterated" if not bad else
           f"{bad[0]} instead of the caller's own value: the operators are built for another basis than the run's")
    g, gp = _run(ctx, PA + "PulserData.__init__", cls=PA + "PulserData", loop_iters=(1,))
    m = 0
    bad = []
    for p in gp:
        if p.status != "return":
            continue
        for e in p.events:
            if e.kind != "call" or e.name != ALL:
                continue
            m += 1
            got = dict(e.kw)
            got.update(e.args if isinstance(e.args, dict) else {})
            for name, attr in (("dim", "dim"), ("interact_type", "interaction_type")):
                v = strip_typed(got[name]) if got.get(name) is not None else None
                ok = v is not None and v[0] == "attr" and v[2] == attr and strip_typed(v[1])[0] == "attr" and \
                    strip_typed(v[1])[2] == "basis_data" and strip_typed(strip_typed(v[1])[1])[0] == "call" and \
                    strip_typed(strip_typed(v[1])[1])[1].endswith("HamiltonianData.from_sequence")
                if not ok:
                    bad.append(f"{name}={show(v)[:50] if v is not None else '<callee default>'}")
    ctx.require(m >= 2, f"NOISE-forward: {m} _get_all_lindblad_noise_operators events in PulserData.__init__")
    ctx.ob("NOISE-forward", "PulserData.__init__", g.loc(), not bad,
           "the jump operators are requested with the dim and interaction_type of the HamiltonianData's basis_data"
           if not bad else f"_get_all_lindblad_noise_operators({bad[0]}) is not the basis of the sequence's HamiltonianData")


def sv_current_hamiltonian(ctx) -> None:
    """The generator handed to the emu-sv observables is the one of the step just taken: on *every* returning path of
    `_evolve_step`, `self._current_H` is the second and `self.state.data` the first component of this step's
    `stepper.apply(...)` — never None, never the previous step's.  (`_apply_observables` rebuilds a missing generator from
    row 0 of the drives: correct only before the first step, which is the only time `_current_H` may be unset.)"""
    prog = ctx.prog
    K = prog.cls("emu_sv.sv_backend_impl.SVBackendImpl")
    f = K.methods["_evolve_step"]
    paths = [p for p in Interp(prog, K, inline=lambda c, r, d: False).run(f) if p.status == "return"]
    ctx.require(paths, "ROLE-sv: _evolve_step has no returning path")
    bad = None
    for p in paths:
        applies = [e for e in p.events if e.kind == "call" and e.name.endswith(".apply")]
        h = strip_typed(p.heap.get((SELF, "_current_H"), ("attr", SELF, "_current_H")))
        st = None
        for (obj, name), v in p.heap.items():
            if name == "data" and strip_typed(obj) == ("attr", SELF, "state"):
                st = strip_typed(v)
        conds = " ∧ ".join(("" if t else "¬") + show(c)[:50] for c, t in p.cond_log) or "always"
        if len(applies) != 1:
            bad = f"{len(applies)} stepper.apply calls on the path [{conds}]"
            continue
        def comp(t):
            """(tuple-valued term, index) for `x, y = T` and for `T[k]`"""
            if t is not None and t[0] == "unpack":
                return strip_typed(t[1]), t[2]
            if t is not None and t[0] == "sub" and strip_typed(t[2])[0] == "const" and isinstance(strip_typed(t[2])[1], int):
                return strip_typed(t[1]), strip_typed(t[2])[1]
            return None, None

        hc, hi = comp(h)
        sc, si = comp(st)
        okh = hc is not None and hi == 1 and hc[0] == "mcall" and hc[2].endswith("apply") and strip_typed(hc[1]) == ("attr", SELF, "stepper")
        oks = okh and sc == hc and si == 0
        if not okh:
            bad = f"after the step self._current_H = {show(h)[:50]} on the path [{conds}]"
        elif not oks:
            bad = f"after the step self.state.data = {show(st)[:50] if st else 'unchanged'} on the path [{conds}]"
    ctx.ob("ROLE-sv", "observables see the generator of the step just taken", f.loc(), bad is None,
           "on every path of _evolve_step: (state.data, _current_H) = this step's stepper.apply(...)" if bad is None else
           f"_evolve_step: {bad} — observables evaluated after this step (energy, its moments, expectation of H) are computed "
           f"with a generator that is missing (then rebuilt from the first row of the drives) or stale")
    # the rebuild branch of _apply_observables is guarded by "no generator yet" and uses the interval of this index
    g = K.methods["_apply_observables"]
    gp = [p for p in Interp(prog, K, inline=lambda c, r, d: False, loop_iters=(0, 1)).run(g) if p.status == "return"]
    rebuilt_unguarded = None
    for p in gp:
        for e in p.events:
            if e.kind == "call" and e.name.endswith("get_hamiltonian"):
                unset = any(strip_typed(c) == ("attr", SELF, "_current_H") and t is False for c, t in p.cond_log[: e.ncond]) or \
                    any("_current_H" in show(c) and "None" in show(c) and t for c, t in p.cond_log[: e.ncond])
                if not unset:
                    rebuilt_unguarded = "the generator is rebuilt although one is stored"
    ctx.ob("ROLE-sv", "rebuild only when no generator is stored", g.loc(), rebuilt_unguarded is None,
           "_apply_observables builds a generator only under `not self._current_H`" if rebuilt_unguarded is None else
           f"_apply_observables: {rebuilt_unguarded}")


def sv_solver_table(ctx) -> None:
    """emu-sv picks its solver from the presence of Lindblad operators: jump operators present ⇒ density matrix evolved by
    EvolveDensityMatrix; none ⇒ state vector evolved by EvolveStateVector — on every constructing path, stepper and state
    of the same kind.  (With the pair exchanged, noise is silently ignored or a noiseless run pays 4ⁿ.)  The requested
    `gpu=None` resolves to True (use a GPU when there is one)."""
    prog = ctx.prog
    K = prog.cls("emu_sv.sv_backend_impl.SVBackendImpl")
    f = K.methods["__init__"]
    data = ("param", f.qualname, "data")
    paths = [p for p in Interp(prog, K, inline=lambda c, r, d: False, loop_iters=(1,)).run(f) if p.status == "return"]
    ctx.require(paths, "DISPATCH-sv: SVBackendImpl.__init__ has no returning path")
    table = {}
    bad = None
    for p in paths:
        noisy = None
        for c, t in p.cond_log:
            c0 = strip_typed(c)
            if c0 in (("attr", data, "lindblad_ops"), ("attr", SELF, "pulser_lindblads")):
                noisy = t
            if c0[0] == "cmp" and c0[1] in (">", "!=") and strip_typed(c0[3]) == ("const", 0) and "lindblad_ops" in show(c0[2]):
                noisy = t
        st = strip_typed(p.heap.get((SELF, "stepper"), ("const", None)))
        sv = strip_typed(p.heap.get((SELF, "state"), ("const", None)))
        stepper = st[1].split(".")[-1] if st[0] == "ref" else show(st)[:30]
        state = sv[1].split(".")[-1] if sv[0] == "new" else (strip_typed(sv[1])[1].split(".")[-1] if sv[0] == "mcall" and strip_typed(sv[1])[0] == "ref" else show(sv)[:30])
        if noisy is None:
            bad = f"a constructing path never consults the Lindblad operators (stepper {stepper}, state {state})"
            continue
        table.setdefault(noisy, set()).add((stepper, state))
    want = {True: {("EvolveDensityMatrix", "DensityMatrix")}, False: {("EvolveStateVector", "StateVector")}}
    if bad is None and table != want:
        bad = f"(jump operators present → stepper, state) is { {k: sorted(v) for k, v in table.items()} }"
    ctx.ob("DISPATCH-sv", "solver table", f.loc(), bad is None,
           "jump operators ⇒ (EvolveDensityMatrix, DensityMatrix); none ⇒ (EvolveStateVector, StateVector)" if bad is None else
           f"SVBackendImpl.__init__: {bad}; expected noise ⇒ (EvolveDensityMatrix, DensityMatrix), none ⇒ "
           f"(EvolveStateVector, StateVector): Lindblad noise is ignored or applied to the wrong object")


def adapter_column_order(ctx) -> None:
    """Column k of the per-step drive arrays belongs to the k-th atom *of the register*: the ids the columns are laid out
    for are the `qubit_ids` argument filtered in place (a comprehension over it, order preserved) — never a set, a sort or
    the sampler's own dictionary order — and each column is written at its enumerate position from the samples of the id
    at that position.  (qubit_ids, bad_atoms, the interaction matrix and atom_order are all in register order.)"""
    prog = ctx.prog
    f = prog.func("emu_base.pulser_adapter._extract_omega_delta_phi")
    ctx.require("qubit_ids" in f.params, "STEP-adapter: _extract_omega_delta_phi has no qubit_ids parameter")
    assigns = util.single_assignments(f)
    loops = [n for n in ast.walk(f.node) if isinstance(n, ast.For) and isinstance(n.iter, ast.Call) and
             util.text(n.iter.func) == "enumerate" and len(n.iter.args) == 1]
    ctx.require(len(loops) >= 1, "STEP-adapter: no enumerate loop over the atoms in _extract_omega_delta_phi")
    bad = None
    for lp in loops:
        src = lp.iter.args[0]
        hops = 0
        while isinstance(src, ast.Name) and src.id in assigns and src.id != "qubit_ids" and hops < 4:
            src = assigns[src.id]
            hops += 1
        if isinstance(src, ast.Call) and util.text(src.func) in ("list", "tuple") and len(src.args) == 1:
            src = src.args[0]
        ok_src = isinstance(src, ast.Name) and src.id == "qubit_ids"
        if isinstance(src, ast.ListComp) and len(src.generators) == 1:
            g = src.generators[0]
            it = g.iter
            if isinstance(it, ast.Call) and util.text(it.func) in ("list", "tuple") and len(it.args) == 1:
                it = it.args[0]
            ok_src = isinstance(it, ast.Name) and it.id == "qubit_ids" and isinstance(g.target, ast.Name) and \
                isinstance(src.elt, ast.Name) and src.elt.id == g.target.id and \
                all(isinstance(c, ast.Compare) and len(c.ops) == 1 and isinstance(c.ops[0], (ast.In, ast.NotIn)) and
                    isinstance(c.left, ast.Name) and c.left.id == g.target.id for c in g.ifs)
        if not ok_src:
            bad = f"the atoms are enumerated from `{util.text(src, 60)}` (line {lp.lineno}), not from the qubit_ids argument filtered in order"
            continue
        if not (isinstance(lp.target, ast.Tuple) and len(lp.target.elts) == 2 and all(isinstance(e, ast.Name) for e in lp.target.elts)):
            bad = "the enumerate loop does not unpack (position, id)"
            continue
        pos, qid = (e.id for e in lp.target.elts)
        stores = [n for n in ast.walk(lp) if isinstance(n, ast.Assign) and isinstance(n.targets[0], ast.Subscript)]
        col_ok = bool(stores) and all(
            isinstance(s.targets[0].slice, ast.Tuple) and len(s.targets[0].slice.elts) == 2 and
            isinstance(s.targets[0].slice.elts[1], ast.Name) and s.targets[0].slice.elts[1].id == pos for s in stores)
        reads = [n for n in ast.walk(lp) if isinstance(n, ast.Subscript) and isinstance(n.ctx, ast.Load) and
                 isinstance(n.slice, ast.Name) and n.slice.id == qid]
        if not col_ok:
            bad = "a column is not written at the enumerate position of its atom"
        elif not reads:
            bad = "the samples are not looked up by the id at the enumerate position"
    ctx.ob("STEP-adapter", "columns follow the register order", f.loc(), bad is None,
           "columns are laid out for [q for q in qubit_ids if …] and written at their enumerate position from that id's samples"
           if bad is None else
           f"_extract_omega_delta_phi: {bad}: omega/delta/phi columns are then in another order than qubit_ids, bad_atoms, the "
           f"interaction matrix and atom_order (per-atom drives land on the wrong atoms for ids that are not sorted, e.g. q10 < q2)")


def adapter_column_ids(ctx) -> None:
    """…and the ids handed to _extract_omega_delta_phi are the register's, in the register's order."""
    from .adapter import _run, PA
    from ..interp import field_defs
    prog = ctx.prog
    K = prog.cls(PA + "PulserData")
    g, gp = _run(ctx, PA + "PulserData.get_sequences", cls=PA + "PulserData", loop_iters=(1,))
    n = 0
    bad = None
    for p in gp:
        for e in p.events:
            if e.kind == "call" and e.name == PA + "_extract_omega_delta_phi":
                n += 1
                v = strip_typed(e.args.get("qubit_ids"))
                if v != ("attr", SELF, "qubit_ids"):
                    bad = f"_extract_omega_delta_phi(qubit_ids={show(v)[:40]})"
    ctx.require(n >= 1, "STEP-adapter: get_sequences never calls _extract_omega_delta_phi")
    defs = [strip_typed(v) for v, ev in field_defs(prog, K).get("qubit_ids", []) if ev.func.name == "__init__"]
    seq = ("param", PA + "PulserData.__init__", "sequence")
    if bad is None and defs != [("attr", ("attr", seq, "register"), "qubit_ids")]:
        bad = f"PulserData.qubit_ids = {[show(d)[:40] for d in defs]}"
    ctx.ob("STEP-adapter", "ids are the register's", g.loc(), bad is None,
           "the drive columns are laid out for sequence.register.qubit_ids" if bad is None else
           f"{bad}: not sequence.register.qubit_ids — the drive columns follow another order than the register")


def custom_interaction_matrix(ctx) -> None:
    """PulserData.__init__ stores the user's interaction matrix exactly when one is configured (and has checked its size
    against the register); otherwise None, which get_sequences reads as "use the trajectory's register matrix"."""
    from .adapter import _run, PA
    g, gp = _run(ctx, PA + "PulserData.__init__", cls=PA + "PulserData", loop_iters=(1,))
    cfg = ("param", g.qualname, "config")
    cim = ("attr", cfg, "interaction_matrix")
    seen = set()
    bad = None
    for p in gp:
        if p.status != "return":
            continue
        given = None
        sized = False
        for c, t in p.cond_log:
            c0 = strip_typed(c)
            if c0[0] == "cmp" and c0[1] in ("is", "isnot") and strip_typed(c0[2]) == cim and strip_typed(c0[3]) == ("const", None):
                given = (not t) if c0[1] == "is" else t
            if c0[0] == "cmp" and c0[1] == "==" and t:
                sides = [strip_typed(c0[2]), strip_typed(c0[3])]
                lens = [x for x in sides if x[0] == "call" and x[1] == "len" and len(x[2]) == 1 and strip_typed(x[2][0]) == cim]
                other = [x for x in sides if x not in lens]
                if lens and other and ("qubit_ids" in show(other[0]) or "qubit_count" in show(other[0])):
                    sized = True
        v = strip_typed(p.heap.get((SELF, "full_interaction_matrix"), ("const", "<unset>")))
        seen.add(given)
        if given is True:
            ok = v[0] == "mcall" and strip_typed(v[1]) == cim and v[2] == "as_tensor"
            if not ok:
                bad = f"with a configured interaction matrix, full_interaction_matrix = {show(v)[:40]}"
            elif not sized:
                bad = "the configured matrix is stored without the size test against the register"
        elif given is False:
            if v != ("const", None):
                bad = f"without a configured interaction matrix, full_interaction_matrix = {show(v)[:40]}"
        else:
            bad = "a constructing path never consults config.interaction_matrix"
    ctx.require(seen >= {True, False} or bad, "INTERACT: PulserData.__init__ paths with and without a configured matrix not found")
    ctx.ob("INTERACT", "configured matrix stored", g.loc(), bad is None,
           "full_interaction_matrix = config.interaction_matrix.as_tensor() (size checked) when configured, None otherwise"
           if bad is None else f"PulserData.__init__: {bad}: the user's interaction matrix is ignored or invented")


def make_h_binding(ctx) -> None:
    """Every (re)build of the MPO Hamiltonian in the emu-mps drivers is for the run's own interaction kind and level count:
    each `make_H` call binds hamiltonian_type to `self.hamiltonian_type` and dim to `self.dim` (both copied from the
    sequence data by the constructor) and the interaction matrix to the one just fetched — never a callee default."""
    from ..interp import field_defs
    prog = ctx.prog
    root = prog.cls(IMPL + ".MPSBackendImpl")
    MH = "emu_mps.hamiltonian.make_H"
    n = 0
    bad = None
    for K in [k for k in prog.classes.values() if k is root or root in prog.mro(k)]:
        for m in K.methods.values():
            if not any(isinstance(x, ast.Call) and util.text(x.func).endswith("make_H") for x in util.walk_own(m.node)):
                continue
            for p in Interp(prog, K, inline=lambda c, r, d: False, loop_iters=(1,)).run(m):
                for e in p.events:
                    if e.kind != "call" or e.name != MH:
                        continue
                    n += 1
                    got = dict(e.kw)
                    got.update(e.args if isinstance(e.args, dict) else {})
                    for name, fld in (("hamiltonian_type", "hamiltonian_type"), ("dim", "dim")):
                        v = strip_typed(got[name]) if got.get(name) is not None else None
                        if v != ("attr", SELF, fld):
                            bad = f"{m.qualname.split('.')[-1]}: make_H({name}={show(v)[:40] if v is not None else '<callee default>'})"
                    im = strip_typed(got["interaction_matrix"]) if got.get("interaction_matrix") is not None else None
                    cur = strip_typed(p.heap.get((SELF, "current_interaction_matrix"), ("attr", SELF, "current_interaction_matrix")))
                    if im is None or (im != ("attr", SELF, "current_interaction_matrix") and im != cur):
                        bad = f"{m.qualname.split('.')[-1]}: make_H(interaction_matrix={show(im)[:40] if im else '?'}) is not the matrix just stored as current"
    ctx.require(n >= 2, f"HAM-mps: {n} make_H call events in the emu-mps drivers (2 confirmed by hand: init_hamiltonian, timestep_complete)")
    fd = field_defs(prog, root)
    pd = ("param", root.methods["__init__"].qualname, "pulser_data")
    for fld in ("hamiltonian_type", "dim"):
        defs = [strip_typed(v) for v, ev in fd.get(fld, []) if ev.func.name == "__init__"]
        if bad is None and defs != [("attr", pd, fld)]:
            bad = f"self.{fld} = {[show(d)[:40] for d in defs]}, not pulser_data.{fld}"
    ctx.ob("HAM-mps", "every make_H is for the run's interaction kind and level count", f"{root.module.relpath}:{root.node.lineno}", bad is None,
           f"{n} make_H call(s): hamiltonian_type=self.hamiltonian_type, dim=self.dim (from the sequence data), matrix = the current one"
           if bad is None else
           f"{bad}: after this rebuild (e.g. when the SLM mask ends) the run continues with another Hamiltonian than the sequence's")
