"""PURE — frame condition: public operations not documented as in-place do not mutate what their operands
reach (DESIGN.md §5 C11/C12).  Flow-insensitive alias sets per function + interprocedural mutation summaries."""
from __future__ import annotations

import ast

from ..model import AnalysisError, ClassInfo, FuncInfo, Program, dotted
from . import util

# methods returning a view / possibly the receiver itself
VIEW_METHODS = {"view", "reshape", "permute", "transpose", "conj", "select", "unsqueeze", "squeeze", "diagonal",
                "flatten", "contiguous", "to", "detach", "conj_physical", "narrow", "expand", "unbind", "cpu", "cuda",
                "view_as", "movedim", "swapaxes", "t", "resolve_conj", "values", "items", "keys"}
VIEW_ATTRS = {"T", "mT", "mH", "H", "real", "imag", "data", "factors"}
ITER_WRAPPERS = {"zip", "enumerate", "reversed", "iter", "list", "tuple", "sorted"}
GAUGE = "emu_mps.mps.MPS.orthogonalize"


class Effects:
    def __init__(self, prog: Program, tensor_only: bool = False):
        self.prog = prog
        self.summ: dict = {}      # qualname -> {param: set(reasons)}
        self.in_progress: set = set()
        # tensor_only: count writes into tensor storage only (augmented assignment, subscript store, trailing-underscore
        # methods); attribute stores and container methods (append, pop, ...) change an object or a list, not a tensor
        self.tensor_only = tensor_only

    # ------------------------------------------------------------- aliases
    def _aliases(self, f: FuncInfo) -> dict:
        roots = {p: {p} for p in f.params}
        a = f.node.args
        if a.vararg:
            roots[a.vararg.arg] = {a.vararg.arg}

        def al(e) -> set:
            if isinstance(e, ast.Name):
                return set(roots.get(e.id, set()))
            if isinstance(e, ast.Attribute):
                return al(e.value)
            if isinstance(e, ast.Subscript):
                return al(e.value)
            if isinstance(e, ast.Starred):
                return al(e.value)
            if isinstance(e, (ast.Tuple, ast.List)):
                s = set()
                for x in e.elts:
                    s |= al(x)
                return s
            if isinstance(e, ast.IfExp):
                return al(e.body) | al(e.orelse)
            if isinstance(e, ast.Call):
                if isinstance(e.func, ast.Attribute) and e.func.attr in VIEW_METHODS:
                    return al(e.func.value)
                d = dotted(e.func)
                if d in ITER_WRAPPERS:
                    s = set()
                    for x in e.args:
                        s |= al(x)
                    return s
                return set()
            return set()

        def bind(target, src: set):
            changed = False
            if isinstance(target, ast.Name):
                cur = roots.setdefault(target.id, set())
                if not src <= cur:
                    cur |= src
                    changed = True
            elif isinstance(target, (ast.Tuple, ast.List)):
                for t in target.elts:
                    changed |= bind(t, src)
            elif isinstance(target, ast.Starred):
                changed |= bind(target.value, src)
            return changed

        for _ in range(6):
            changed = False
            for n in util.walk_all(f.node):
                if isinstance(n, ast.Assign):
                    # `x = x.to(...)`-style rebinding of a parameter keeps the alias (may be the same object)
                    for t in n.targets:
                        changed |= bind(t, al(n.value))
                elif isinstance(n, ast.AnnAssign) and n.value is not None:
                    changed |= bind(n.target, al(n.value))
                elif isinstance(n, (ast.For, ast.comprehension)):
                    changed |= bind(n.target, al(n.iter))
                elif isinstance(n, ast.NamedExpr):
                    changed |= bind(n.target, al(n.value))
                elif isinstance(n, ast.withitem) and n.optional_vars is not None:
                    changed |= bind(n.optional_vars, al(n.context_expr))
            if not changed:
                break
        self._al = al
        return roots

    # ----------------------------------------------------------- summaries
    def summary(self, f: FuncInfo) -> dict:
        q = f.qualname
        if q in self.summ:
            return self.summ[q]
        if q in self.in_progress:
            return {}
        self.in_progress.add(q)
        roots = self._aliases(f)
        al = self._al
        out: dict = {}

        def hit(params: set, reason: str):
            for p in params:
                out.setdefault(p, set()).add(reason)

        for n in util.walk_all(f.node):
            if isinstance(n, (ast.FunctionDef, ast.Lambda)) and n is not f.node:
                continue
            if isinstance(n, ast.AugAssign):
                t = n.target
                if isinstance(t, ast.Name):
                    hit(al(t), f"direct:{util.text(n, 50)}")
                else:
                    hit(al(t), f"direct:{util.text(n, 50)}")
            elif isinstance(n, ast.Assign):
                for t in n.targets:
                    for tt in (t.elts if isinstance(t, (ast.Tuple, ast.List)) else [t]):
                        if isinstance(tt, ast.Subscript) or (isinstance(tt, ast.Attribute) and not self.tensor_only):
                            hit(al(tt.value), f"direct:{util.text(n, 50)}")
            elif isinstance(n, ast.Delete):
                for t in n.targets:
                    if isinstance(t, (ast.Subscript, ast.Attribute)):
                        hit(al(t.value), f"direct:{util.text(n, 50)}")
            elif isinstance(n, ast.Call):
                fn = n.func
                if isinstance(fn, ast.Attribute) and fn.attr.endswith("_") and not fn.attr.startswith("__"):
                    hit(al(fn.value), f"direct:{util.text(n, 50)}")
                if not self.tensor_only and isinstance(fn, ast.Attribute) and fn.attr in ("append", "extend", "insert", "pop", "clear", "update",
                                                                  "sort", "reverse", "remove", "setdefault"):
                    hit(al(fn.value), f"direct:{util.text(n, 50)}")
                callee, skip = self._resolve(f, n)
                if callee is not None:
                    cs = self.summary(callee)
                    params = callee.params
                    pos = params[1:] if skip else params
                    if skip and params and params[0] in cs and isinstance(fn, ast.Attribute):
                        hit(al(fn.value), f"call:{callee.qualname}")
                    for i, a in enumerate(n.args):
                        if i < len(pos) and pos[i] in cs:
                            hit(al(a), f"call:{callee.qualname}")
                    for k in n.keywords:
                        if k.arg in cs:
                            hit(al(k.value), f"call:{callee.qualname}")
        # only parameters count
        out = {p: r for p, r in out.items() if p in f.params}
        self.in_progress.discard(q)
        self.summ[q] = out
        return out

    def _resolve(self, f: FuncInfo, call: ast.Call):
        prog = self.prog
        fn = call.func
        d = dotted(fn)
        if d is not None and d.split(".")[0] not in util.local_names(f):
            obj = prog.lookup(prog.qualify(f.module, d))
            if isinstance(obj, FuncInfo):
                return obj, False
            if isinstance(obj, ClassInfo):
                return None, False
        if isinstance(fn, ast.Attribute):
            base = fn.value
            if isinstance(base, ast.Name) and f.cls is not None and f.params and base.id == f.params[0] and not f.is_static:
                m = prog.find_method(f.cls, fn.attr)
                if m is not None:
                    return m, True
            # typed receivers: annotated parameters / isinstance-asserted names / known result classes
            if isinstance(base, ast.Name):
                c = self._name_class(f, base.id)
                if c is not None:
                    m = prog.find_method(c, fn.attr)
                    if m is not None:
                        return m, True
        return None, False

    def _name_class(self, f: FuncInfo, name: str):
        prog = self.prog
        a = f.node.args
        for x in a.posonlyargs + a.args + a.kwonlyargs:
            if x.arg == name and x.annotation is not None:
                d = dotted(x.annotation) if not isinstance(x.annotation, ast.Constant) else x.annotation.value
                if d:
                    c = prog.classes.get(prog.canon(prog.qualify(f.module, d)))
                    if c is not None:
                        return c
        for n in ast.walk(f.node):
            if isinstance(n, ast.Call) and dotted(n.func) == "isinstance" and len(n.args) == 2 and \
                    isinstance(n.args[0], ast.Name) and n.args[0].id == name:
                d = dotted(n.args[1])
                if d:
                    c = prog.classes.get(prog.canon(prog.qualify(f.module, d)))
                    if c is not None:
                        return c
            if isinstance(n, ast.Assign) and len(n.targets) == 1 and isinstance(n.targets[0], ast.Name) and \
                    n.targets[0].id == name and isinstance(n.value, ast.Call):
                d = dotted(n.value.func)
                if d:
                    c = prog.classes.get(prog.canon(prog.qualify(f.module, d)))
                    if c is not None:
                        return c
        return None

    def gauge_only(self, f: FuncInfo, param: str, seen=None) -> bool:
        """Every mutation of `param` by f goes through MPS.orthogonalize."""
        seen = seen or set()
        if f.qualname in seen:
            return True
        seen.add(f.qualname)
        for r in self.summary(f).get(param, set()):
            if r.startswith("direct:"):
                return False
            q = r[5:]
            if q == GAUGE:
                continue
            g = self.prog.funcs.get(q)
            if g is None:
                return False
            # which params of g are mutated: all of them must be gauge-only
            for p in self.summary(g):
                if not self.gauge_only(g, p, seen):
                    return False
        return True


# documented in-place operations (allowed to mutate the listed parameters)
IN_PLACE = {
    "emu_mps.mps.MPS.orthogonalize": {"self"},      # gauge change, documented
    "emu_mps.mps.MPS.truncate": {"self"},           # "An in-place operation."
    "emu_mps.mps.MPS.apply": {"self"},              # "leaving the MPS orthogonalized on that qubit"
    "emu_mps.mps.MPS.__init__": {"self", "factors"},  # documented: the list is not deep-copied, devices assigned
    "emu_mps.mpo.MPO.__init__": {"self", "factors"},
    "emu_sv.state_vector.StateVector.__init__": {"self"},
    "emu_sv.density_matrix_state.DensityMatrix.__init__": {"self"},
    "emu_sv.dense_operator.DenseOperator.__init__": {"self"},
    "emu_sv.sparse_operator.SparseOperator.__init__": {"self"},
    "emu_sv.state_vector.StateVector._normalize": {"self"},          # private helper used on fresh objects
    "emu_sv.density_matrix_state.DensityMatrix._normalize": {"self"},
    "emu_mps.utils.truncate_impl": {"factors"},     # "An in-place operation."
    "emu_mps.utils.assign_devices": {"tensors"},    # documented: reassigns each tensor of the list
    "emu_sv.sparse_operator.SparseOperator.__deepcopy__": {"memo"},  # the deepcopy protocol records the copy in memo
}


def check(ctx, classes: list[str], modules: list[str]) -> None:
    prog = ctx.prog
    E = Effects(prog)
    n = 0
    targets: list[FuncInfo] = []
    for cq in classes:
        C = prog.cls(cq)
        targets += [m for m in C.methods.values()]
    for mq in modules:
        M = prog.module(mq)
        targets += list(M.funcs.values())
    for f in targets:
        if f.name.startswith("__") and f.name not in ("__add__", "__rmul__", "__mul__", "__imul__", "__matmul__", "__init__",
                                                       "__repr__", "__deepcopy__"):
            continue
        n += 1
        s = E.summary(f)
        allowed = IN_PLACE.get(f.qualname, set())
        bad = {}
        gauge = []
        for p, reasons in s.items():
            if p in allowed:
                continue
            if E.gauge_only(f, p):
                gauge.append(p)
                continue
            bad[p] = sorted(reasons)
        ok = not bad
        ctx.ob("PURE", f"{f.qualname}", f.loc(), ok,
               ("mutates nothing reachable from its operands" if not s else
                f"mutates only {sorted(set(s) & allowed) or ''}"
                + (f" gauge-only (via orthogonalize): {gauge}" if gauge else "")) if ok else
               f"{f.qualname} is not documented as in-place but mutates what its operand(s) {sorted(bad)} reach: "
               + "; ".join(f"{p}: {r[0]}" for p, r in bad.items())
               + " — the caller's state/operator changes behind its back")
    ctx.count("functions", n)
    ctx.extra["effect_summaries"] = len(E.summ)
