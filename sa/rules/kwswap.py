"""KWSWAP (repo-wide argument-selection rule): a caller that passes its own variable `x` to a callee that has a
parameter named `x` must bind it to `x` — binding it to another parameter while the namesake parameter receives
something else is the classic swapped-argument defect.  Exceptions are a frozen table with reasons (none today)."""
from __future__ import annotations

import ast

from ..model import ClassInfo, FuncInfo, dotted
from . import util

EXCEPTIONS: dict = {
    # (caller qualname, callee qualname, argument name): reason
}


def _resolve(prog, f: FuncInfo, call: ast.Call):
    fn = call.func
    d = dotted(fn)
    if d is not None and d.split(".")[0] not in util.local_names(f):
        obj = prog.lookup(prog.qualify(f.module, d))
        if isinstance(obj, FuncInfo):
            skip = obj.cls is not None and not obj.is_static and obj.is_classmethod
            return obj, skip
        if isinstance(obj, ClassInfo):
            init = prog.find_method(obj, "__init__")
            if init is not None:
                return init, True
            return None, False
    if isinstance(fn, ast.Attribute) and isinstance(fn.value, ast.Name) and f.cls is not None and f.params \
            and fn.value.id == f.params[0] and not f.is_static:
        m = prog.find_method(f.cls, fn.attr)
        if m is not None:
            return m, not m.is_static
    if isinstance(fn, ast.Attribute) and isinstance(fn.value, ast.Call) and dotted(fn.value.func) == "super" and f.cls is not None:
        m = prog.find_method(f.cls, fn.attr, after=f.cls)
        if m is not None:
            return m, True
    return None, False


def repo_wide(ctx, module_prefixes: tuple = ("emu_base", "emu_mps", "emu_sv"), floor: int = 150) -> None:
    prog = ctx.prog
    n_sites = n_bind = 0
    for f in prog.funcs.values():
        if not f.module.name.startswith(module_prefixes):
            continue
        for call in util.walk_own(f.node):
            if not isinstance(call, ast.Call):
                continue
            callee, skip = _resolve(prog, f, call)
            if callee is None:
                continue
            a = callee.node.args
            pos = [x.arg for x in a.posonlyargs + a.args]
            if skip and pos:
                pos = pos[1:]
            allp = set(pos) | {x.arg for x in a.kwonlyargs}
            if any(isinstance(x, ast.Starred) for x in call.args):
                continue
            bound = {}
            for i, arg in enumerate(call.args):
                if i < len(pos):
                    bound[pos[i]] = arg
            for k in call.keywords:
                if k.arg:
                    bound[k.arg] = k.value
            n_sites += 1
            for pname, arg in bound.items():
                if not isinstance(arg, ast.Name):
                    continue
                n_bind += 1
                x = arg.id
                if x == pname or x not in allp:
                    continue
                # x goes to parameter pname although the callee has a parameter called x
                other = bound.get(x)
                if other is not None and isinstance(other, ast.Name) and other.id == x:
                    continue
                if (f.qualname, callee.qualname, x) in EXCEPTIONS:
                    continue
                ctx.ob("KWSWAP-repo", f"{f.qualname}→{callee.qualname}|{x}→{pname}", f.loc(call), False,
                       f"{f.name} passes its `{x}` as parameter `{pname}` of {callee.qualname.split('.')[-1]}, which has a "
                       f"parameter `{x}` (bound to {util.text(other, 30) if other is not None else 'its default'}): "
                       f"arguments are swapped or shifted")
    ctx.ob("KWSWAP-repo", "summary", "emu_base", True,
           f"{n_sites} resolved call sites, {n_bind} name-to-parameter bindings: every caller variable that shares its "
           f"name with a callee parameter is bound to that parameter", nontrivial=True)
    ctx.count("kwswap_sites", n_sites)
    ctx.count("kwswap_bindings", n_bind)
    ctx.require(n_sites >= floor, f"KWSWAP-repo: only {n_sites} resolved call sites (≥{floor} confirmed by hand)")
