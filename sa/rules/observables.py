"""Definition-shape checks of the built-in observable implementations and of the Lindblad generator (C13, C16)."""
from __future__ import annotations

import ast

from ..algebra import canon, is_const, linear_in, monomials, same
from ..interp import Interp, SELF, Event, Path, contains, show, strip_typed, walk
from ..model import AnalysisError
from . import util

MCB = "emu_mps.custom_callback_implementations."
SCB = "emu_sv.custom_callback_implementations."


def _ret(ctx, q, cls=None):
    prog = ctx.prog
    f = prog.func(q)
    it = Interp(prog, prog.cls(cls) if cls else f.cls, inline=lambda c, r, d: False, loop_iters=(1,))
    paths = [p for p in it.run(f) if p.status == "return"]
    ctx.require(paths, f"{q}: no returning path")
    return f, paths


def mps_definitions(ctx) -> None:
    prog = ctx.prog
    # occupation: expect_batch of the projector on level 1
    f, ps = _ret(ctx, MCB + "qubit_occupation_mps_impl")
    p = ps[0]
    sets = [e for e in p.events if e.kind == "setitem" and is_const(e.value, 1.0)]
    okn = len(sets) == 1 and show(sets[0].target[1]) == "(0, 1, 1)"
    okr = "expect_batch(" in show(p.retval) and ".real" in show(p.retval)
    okd = any(e.kind == "call" and e.name == "torch.zeros" and "state.dim" in show(e.pos[1]) for e in p.events if e.pos and len(e.pos) > 1)
    ctx.ob("OBSDEF", "mps occupation", f.loc(), okn and okr and okd,
           "occupation = Re expect_batch(|1><1|) with a dim×dim projector" if okn and okr and okd else
           f"occupation operator entry {[show(e.target[1]) for e in sets]}, result {show(p.retval)[:60]}, dim from state={okd}")
    # n operator of the MPS
    init = prog.func("emu_mps.mps.MPS.__init__")
    it = Interp(prog, init.cls, inline=lambda c, r, d: False)
    okop = False
    for q in it.run(init):
        allocs = [canon(strip_typed(e.value)) for e in q.events if e.kind == "setattr" and e.name == "n_operator"]
        writes = [e for e in q.events if e.kind == "setitem" and canon(strip_typed(e.target[0])) in allocs]
        if allocs and len(writes) == 1 and show(writes[0].target[1]) == "(1, 1)" and is_const(writes[0].value, 1.0) \
                and "zeros(self.dim, self.dim" in show(allocs[0]).replace("(self.dim", "(self.dim"):
            okop = True
        elif allocs and len(writes) == 1 and show(writes[0].target[1]) == "(1, 1)" and is_const(writes[0].value, 1.0):
            okop = "zeros(" in show(allocs[0])
    ctx.ob("OBSDEF", "mps n operator", init.loc(), okop,
           "MPS.n_operator = |1><1|" if okop else "MPS.n_operator is not the projector on level 1")
    f, ps = _ret(ctx, MCB + "correlation_matrix_mps_impl")
    okc = "state.get_correlation_matrix()" in show(ps[0].retval)
    ctx.ob("OBSDEF", "mps correlation", f.loc(), okc,
           "correlation matrix = state.get_correlation_matrix() with the default n operator" if okc else
           f"correlation matrix returns {show(ps[0].retval)[:60]}")
    f, ps = _ret(ctx, MCB + "energy_mps_impl")
    oke = show(ps[0].retval).replace(" ", "") in ("hamiltonian.expect(state).real",)
    ctx.ob("OBSDEF", "mps energy", f.loc(), oke, "energy = Re <ψ|H|ψ>" if oke else f"energy returns {show(ps[0].retval)[:60]}")
    f, ps = _ret(ctx, MCB + "energy_second_moment_mps_impl")
    r = show(ps[0].retval)
    ok2 = "(hamiltonian @ hamiltonian).expect(state)" in r and r.endswith(".real")
    ctx.ob("OBSDEF", "mps energy second moment", f.loc(), ok2,
           "second moment = Re <ψ|H·H|ψ>" if ok2 else f"second moment returns {r[:80]}")
    f, ps = _ret(ctx, MCB + "energy_variance_mps_impl")
    r0 = strip_typed(ps[0].retval)
    okv = False
    inner = r0[1] if r0[0] == "attr" and r0[2] == "real" else r0
    mons = monomials(inner)
    # <H·H> − <H>·<H>, whatever the spelling (h**2, h*h, temporaries, .cpu() placement)
    lin = [(m, c) for m, c in mons.items() if len(m) == 1]
    quad = [(m, c) for m, c in mons.items() if len(m) == 2]
    if len(mons) == 2 and len(lin) == 1 and len(quad) == 1:
        (m1, c1), (m2, c2) = lin[0], quad[0]
        s1, s2a, s2b = show(m1[0]), show(m2[0]), show(m2[1])
        okv = abs(c1 - 1) < 1e-12 and abs(c2 + 1) < 1e-12 and "(hamiltonian @ hamiltonian).expect(state)" in s1 \
            and s2a == s2b and "hamiltonian.expect(state)" in s2a and "@" not in s2a
    ctx.ob("OBSDEF", "mps energy variance", f.loc(), okv,
           "variance = Re(<H²> − <H>²)" if okv else f"variance returns {show(r0)[:100]}")


def sv_definitions(ctx) -> None:
    prog = ctx.prog
    f, ps = _ret(ctx, SCB + "energy_variance_sv_impl")
    s = show(ps[0].retval)
    okv = "vdot(hstate, hstate)" in s.replace("(hamiltonian * state.data)", "hstate") and "** 2" in s and " - " in s
    ctx.ob("OBSDEF", "sv energy variance", f.loc(), okv,
           "variance = <Hψ|Hψ> − <ψ|H|ψ>²" if okv else f"variance returns {s[:100]}")
    f, ps = _ret(ctx, SCB + "energy_second_moment_sv_impl")
    s = show(ps[0].retval)
    ok2 = s.count("(hamiltonian * state.data)") == 2 and "vdot" in s
    ctx.ob("OBSDEF", "sv energy second moment", f.loc(), ok2,
           "second moment = <Hψ|Hψ>" if ok2 else f"second moment returns {s[:100]}")
    # occupation / correlation: decided by rules/axes.py (OBSDEF-axis), which replaced a textual test here
    # Hamiltonian energy
    f, ps = _ret(ctx, "emu_sv.hamiltonian.RydbergHamiltonian.expect")
    s = show(ps[0].retval)
    oke = s == "vdot(state.data, (self * state.data)).real"
    ctx.ob("OBSDEF", "sv energy", f.loc(), oke, "energy = Re <ψ|H|ψ>" if oke else f"energy returns {s[:80]}")


def lindblad_form(ctx) -> None:
    """i·L(ρ) = H_eff ρ − (H_eff ρ)† + i Σ_k L_k ρ L_k†, H_eff = H − (i/2) Σ L†L."""
    prog = ctx.prog
    f, ps = _ret(ctx, "emu_sv.lindblad_operator.RydbergLindbladian.__matmul__")
    p = ps[0]
    r = p.retval
    mons = monomials(r)
    heff = [e for e in p.events if e.kind == "call" and e.name.endswith(".h_eff")]
    ok = False
    detail = show(r)[:120]
    if len(heff) == 1 and len(mons) == 3:
        H = heff[0].result
        coef = {}
        for m, c in mons.items():
            s = show(m[0]) if len(m) == 1 else "*".join(show(x) for x in m)
            if len(m) == 1 and canon(m[0]) == canon(H):
                coef["H"] = c
            elif len(m) == 1 and "conj().T" in s and "h_eff" in s:
                coef["Hdag"] = c
            elif len(m) == 1 and strip_typed(m[0])[0] == "call" and strip_typed(m[0])[1] == "sum" and \
                    "apply_density_matrix_to_local_op_T" in s and "apply_local_op_to_density_matrix" in s:
                coef["jump"] = c
        ok = coef.get("H") == 1 and coef.get("Hdag") == -1 and coef.get("jump") == 1j
        detail = str({k: v for k, v in coef.items()})
    ctx.ob("LINDBLAD-form", "generator", f.loc(), ok,
           "i·L(ρ) = H_eff ρ − (H_eff ρ)† + i·Σ L ρ L†" if ok else
           f"the Lindblad superoperator combines its parts with coefficients {detail}; expected H_eff ρ: 1, "
           f"(H_eff ρ)†: −1, Σ LρL†: i")
    okn = bool(heff) and "compute_noise_from_lindbladians(self.pulser_lindblads)" in show(heff[0].args.get("lindblad_ops"))
    ctx.ob("LINDBLAD-form", "effective Hamiltonian noise term", f.loc(), okn,
           "H_eff carries compute_noise_from_lindbladians(self.pulser_lindblads)" if okn else
           f"h_eff receives {show(heff[0].args.get('lindblad_ops'))[:60] if heff else '?'}")
    # the jump term: both sides use the same operator and qubit
    js = [t for t in walk(r) if t[0] == "mcall" and t[2].endswith("apply_density_matrix_to_local_op_T")]
    okj = False
    if js:
        outer = js[0]
        inner = strip_typed(outer[3][0])
        okj = inner[0] == "mcall" and inner[2].endswith("apply_local_op_to_density_matrix") and \
            canon(inner[3][1]) == canon(outer[3][1]) and canon(inner[3][2]) == canon(outer[3][2])
    ctx.ob("LINDBLAD-form", "jump term", f.loc(), okj,
           "Σ over qubits and operators of L ρ L† with the same L and qubit on both sides" if okj else
           "the jump term does not apply the same operator on the same qubit from both sides")
    noise_term(ctx)


def noise_term(ctx) -> None:
    """compute_noise_from_lindbladians = −(i/2) Σ_k L_k† L_k: one monomial, coefficient −i/2, the sum of L.mH @ L over
    every operator handed in (emu-sv adds it to H_eff, emu-mps to the MPO's single-site term)."""
    g, gp = _ret(ctx, "emu_base.jump_lindblad_operators.compute_noise_from_lindbladians")
    okc = False
    s = "?"
    for p in gp:
        s = show(p.retval)
        mons = monomials(p.retval)
        okc = False
        if len(mons) == 1:
            (m, c), = mons.items()
            if len(m) == 1 and abs(c - (-0.5j)) < 1e-12:
                a = strip_typed(m[0])
                if a[0] == "call" and a[1] == "sum" and len(a[2]) >= 1:
                    comp = strip_typed(a[2][0])
                    if comp[0] == "comp" and len(comp[3]) == 1 and not comp[3][0][1]:
                        el = strip_typed(comp[2][0])
                        src = strip_typed(comp[3][0][0])
                        item = ("elem", src, comp[4])
                        okc = el[0] == "bin" and el[1] == "MatMult" and strip_typed(el[2]) == ("attr", item, "mH") and \
                            strip_typed(el[3]) == item and src == ("param", g.qualname, g.params[0])
        if not okc:
            break
    ctx.ob("LINDBLAD-form", "noise term", g.loc(), okc,
           "noise term = −(i/2) Σ L†L over every operator" if okc else f"compute_noise_from_lindbladians returns {s[:80]}, not −(i/2)·Σ L†L")


def _loop_over_all_qubits(node: ast.AST, allowed: tuple, func=None) -> bool:
    """`for q in range(len(self.omegas))` / `range(self.nqubits)` / `enumerate(<per-qubit vector>)`: every qubit, no
    filter.  A local iterated by name is replaced by its (single) defining expression first."""
    if not isinstance(node, (ast.For, ast.comprehension)):
        return False
    it = util.inline_locals(func, node.iter) if func is not None else node.iter
    s = util.text(it).replace(" ", "")
    if s in allowed:
        return True
    # enumerate(E): E an element-wise expression of the per-qubit drive vectors (no slicing, no indexing)
    if isinstance(it, ast.Call) and util.text(it.func) == "enumerate" and len(it.args) == 1 and not it.keywords:
        e = it.args[0]
        if any(isinstance(n, (ast.Subscript, ast.Slice)) for n in ast.walk(e)):
            return False
        attrs = {util.text(n) for n in ast.walk(e) if isinstance(n, ast.Attribute) and isinstance(n.value, ast.Name) and n.value.id == "self"}
        return "self.omegas" in attrs and attrs <= {"self.omegas", "self.phis", "self.deltas"}
    return False


ALL_QUBITS = ("range(len(self.omegas))", "range(self.nqubits)", "enumerate(self.omegas)",
              "range(len(self.deltas))", "range(0,self.nqubits)")


def lindbladian_structure(ctx) -> None:
    """Every qubit contributes its local term (drive, detuning and the −i/2 ΣL†L noise part) to H_eff, the interaction
    term is added once, and the jump term sums over every qubit and every operator."""
    prog = ctx.prog
    C = prog.cls("emu_sv.lindblad_operator.RydbergLindbladian")
    h = C.methods["h_eff"]
    loops = [n for n in util.walk_own(h.node) if isinstance(n, ast.For)]
    ok = len(loops) == 1 and _loop_over_all_qubits(loops[0], ALL_QUBITS, h) and \
        not any(isinstance(n, (ast.If, ast.Continue, ast.Break)) for st in loops[0].body for n in ast.walk(st))
    ctx.ob("LINDBLAD-form", "h_eff covers every qubit", h.loc(loops[0]) if loops else h.loc(), ok,
           "H_eff ρ sums the local term of every qubit, unconditionally" if ok else
           f"h_eff iterates over {util.text(loops[0].iter, 60) if loops else 'no loop'}"
           + (" with a filter" if loops and _loop_over_all_qubits(loops[0], ALL_QUBITS, h) else "")
           + ": qubits that are skipped lose their −i/2 ΣL†L term while their L ρ L† term is still added — the "
             "generator no longer preserves the trace (e.g. an undriven atom with relaxation)")
    it = Interp(prog, C, inline=lambda c, r, d: False, loop_iters=(1,))
    p = [q for q in it.run(h) if q.status == "return"][0]
    adds = [e for e in p.events if e.kind == "call" and e.name.endswith("apply_local_op_to_density_matrix")]
    okl = len(adds) == 1 and "_local_terms_hamiltonian(" in show(adds[0].args.get("local_op")) and \
        strip_typed(adds[0].args.get("target_qubit"))[0] == "elem"
    inter = [e for e in p.events if e.kind == "call" and e.name.endswith("_apply_interaction_terms")]
    oki = len(inter) == 1 and not inter[0].ctx
    ctx.ob("LINDBLAD-form", "h_eff terms", h.loc(), okl and oki,
           "per qubit: apply(local Hamiltonian of that qubit); once: the interaction term" if okl and oki else
           f"h_eff: local applications per iteration={len(adds)} (operand ok={okl}), interaction term calls outside the "
           f"loop={len(inter)}")
    # local term: ω·(σx | cosφ σx + sinφ σy) − δ·n + noise, on both phase branches
    lt = C.methods["_local_terms_hamiltonian"]
    okt = True
    n = 0
    for q in it.run(lt):
        if q.status != "return":
            continue
        n += 1
        mons = monomials(q.retval)
        have = {"drive": 0, "det": 0, "noise": 0}
        for m, c in mons.items():
            s = repr(m)   # raw terms: keeps the qualified names of module-level operator tensors
            if "omegas" in s and abs(c - 1) < 1e-12:
                have["drive"] += 1
            elif "deltas" in s and "n_op" in s and abs(c + 1) < 1e-12:
                have["det"] += 1
            elif "lindblad_ops" in s and abs(c - 1) < 1e-12:
                have["noise"] += 1
        okt = okt and have["det"] == 1 and have["noise"] == 1 and have["drive"] >= 1
    ctx.ob("LINDBLAD-form", "local term", lt.loc(), okt and n == 2,
           "local term = Ω/2·(σx or cosφ σx + sinφ σy) − δ·n + noise, with and without phases" if okt and n == 2 else
           "the single-qubit term of the Lindbladian is not drive − δ·n + noise on both phase branches")
    mm = C.methods["__matmul__"]
    gens = [g for nn in ast.walk(mm.node) if isinstance(nn, (ast.GeneratorExp, ast.ListComp)) for g in nn.generators]
    okg = len(gens) == 2 and _loop_over_all_qubits(gens[0], ALL_QUBITS, mm) and util.text(gens[1].iter) == "self.pulser_lindblads" \
        and not gens[0].ifs and not gens[1].ifs
    ctx.ob("LINDBLAD-form", "jump term covers every qubit and operator", mm.loc(), okg,
           "Σ_k L_k ρ L_k† runs over every qubit and every jump operator" if okg else
           f"the jump term iterates over {[util.text(g.iter, 40) for g in gens]} (filters: {[len(g.ifs) for g in gens]})")


def hamiltonian_structure(ctx) -> None:
    """RydbergHamiltonian: H·v = diag·v + Σ_n Ω_n/2 (σ terms) over every qubit; diag = −ΣΔ_i n_i + Σ_{i<j} U_ij n_i n_j."""
    prog = ctx.prog
    C = prog.cls("emu_sv.hamiltonian.RydbergHamiltonian")
    for name in ("_apply_sigma_operators_real", "_apply_sigma_operators_complex"):
        m = C.methods[name]
        loops = [n for n in util.walk_own(m.node) if isinstance(n, ast.For)]
        ok = len(loops) == 1 and _loop_over_all_qubits(loops[0], ALL_QUBITS, m) and \
            not any(isinstance(n, (ast.If, ast.Continue, ast.Break)) for st in loops[0].body for n in ast.walk(st))
        ctx.ob("HAM-form", f"{name} covers every qubit", m.loc(), ok,
               "the drive term is applied for every qubit, unconditionally" if ok else
               f"{name} iterates over {util.text(loops[0].iter, 50) if loops else 'no loop'} or filters qubits")
    d = C.methods["_create_diagonal"]
    it = Interp(prog, C, inline=lambda c, r, d_: False, loop_iters=(1,))
    p = [q for q in it.run(d) if q.status == "return"][0]
    subs = [e for e in p.events if e.kind == "setitem" or (e.kind == "setattr")]
    # the two in-place updates: i_fixed -= deltas[i] ; i_j_fixed += U[i, j]
    augs = [n for n in util.walk_own(d.node) if isinstance(n, ast.AugAssign)]
    okd = oku = False
    loops = [n for n in ast.walk(d.node) if isinstance(n, ast.For)]
    for a in augs:
        s = util.text(a.value).replace(" ", "")
        if isinstance(a.op, ast.Sub) and s.startswith("self.deltas[") and len(loops) >= 1 and \
                s == f"self.deltas[{util.text(loops[0].target)}]":
            okd = True
        if isinstance(a.op, ast.Add) and s.startswith("self.interaction_matrix[") and len(loops) == 2:
            i, j = util.text(loops[0].target), util.text(loops[1].target)
            oku = s in (f"self.interaction_matrix[{i},{j}]", f"self.interaction_matrix[{j},{i}]")
    okr = len(loops) == 2 and util.text(loops[0].iter).replace(" ", "") == "range(self.nqubits)" and \
        util.text(loops[1].iter).replace(" ", "") == f"range({util.text(loops[0].target)}+1,self.nqubits)"
    ctx.ob("HAM-form", "diagonal", d.loc(), okd and oku and okr,
           "diag = −Σ_i Δ_i n_i + Σ_{i<j} U_ij n_i n_j over all i and all j > i" if okd and oku and okr else
           f"_create_diagonal: detuning term ok={okd}, interaction term ok={oku}, loops over all pairs i<j ok={okr}")
    mul = C.methods["__mul__"]
    pm = [q for q in it.run(mul) if q.status == "return"]
    okm = all("self.diag" in show(q.retval) and strip_typed(q.retval)[0] == "bin" for q in pm) and len(pm) == 2
    both = {e.name.split(".")[-1] for q in pm for e in q.events if e.kind == "call" and "_apply_sigma_operators" in e.name}
    sel = all(any("self.complex" in show(c) for c, t in q.cond_log) for q in pm)
    ctx.ob("HAM-form", "H·v", mul.loc(), okm and len(both) == 2 and sel,
           "H·v = diag·v plus the σ terms, complex path iff any phase is non-zero" if okm and len(both) == 2 and sel else
           "RydbergHamiltonian.__mul__ no longer adds diag·v and exactly one of the σ-term routines chosen by self.complex")
    init = C.methods["__init__"]
    pi_ = [q for q in it.run(init) if q.status == "return"][0]
    cx = pi_.heap.get((SELF, "complex"))
    om = pi_.heap.get((SELF, "omegas"))
    okc = cx is not None and show(cx) in ("phis.any()", "self.phis.any()") or (cx is not None and show(cx).endswith("phis.any()"))
    oko = om is not None and same(om, ("bin", "Div", ("param", init.qualname, "omegas"), ("const", 2.0)))
    ctx.ob("HAM-form", "complex flag and Ω/2", init.loc(), bool(okc) and oko,
           "complex ⇔ any phase non-zero; stored amplitude is Ω/2" if okc and oko else
           f"complex = {show(cx) if cx else None}, omegas = {show(om)[:40] if om else None}")


def sv_density_matrix_energy(ctx) -> None:
    """Density-matrix versions of the energy moments: second moment = tr(H·(Hρ)) — `hamiltonian.expect` of the density
    matrix H_eff ρ — and variance = that minus tr(Hρ)².  (The state-vector shortcut ⟨Hψ|Hψ⟩ applied to ρ is tr(ρ²H²),
    equal only for pure states.)"""
    prog = ctx.prog
    SCBq = "emu_sv.custom_callback_implementations."

    def peel(t):
        t = strip_typed(t)
        while t[0] == "mcall" and t[2] in ("cpu", "real", "item"):
            t = strip_typed(t[1])
        return t

    def is_e2(t, f):
        t = peel(t)
        ham = ("param", f.qualname, "hamiltonian")
        st = ("param", f.qualname, "state")
        if not (t[0] == "mcall" and strip_typed(t[1]) == ham and t[2].endswith("expect") and len(t[3]) == 1):
            return False
        d = strip_typed(t[3][0])
        if not (d[0] == "new" and d[1].endswith("DensityMatrix") and d[2]):
            return False
        h = strip_typed(d[2][0])
        return h[0] == "mcall" and strip_typed(h[1]) == ham and h[2].endswith("h_eff") and len(h[3]) >= 1 and \
            strip_typed(h[3][0]) == ("attr", st, "data")

    f2, p2 = _ret(ctx, SCBq + "energy_second_moment_den_mat_impl")
    ok2 = bool(p2) and all(is_e2(p.retval, f2) for p in p2)
    ctx.ob("OBSDEF", "sv density-matrix second moment", f2.loc(), ok2,
           "second moment = tr(H·(H_eff ρ)) = hamiltonian.expect(DensityMatrix(hamiltonian.h_eff(ρ)))" if ok2 else
           f"energy_second_moment_den_mat_impl returns {show(p2[0].retval)[:100] if p2 else '?'}, not tr(H·Hρ)")
    fv, pv = _ret(ctx, SCBq + "energy_variance_sv_den_mat_impl")
    okv = bool(pv)
    for p in pv:
        r = peel(p.retval)
        mons = monomials(r)
        ham = ("param", fv.qualname, "hamiltonian")
        st = ("param", fv.qualname, "state")
        e1 = ("mcall", ham, "emu_sv.lindblad_operator.RydbergLindbladian.expect", (st,), ())
        got2 = [c for m, c in mons.items() if len(m) == 1 and is_e2(m[0], fv)]
        got1 = [c for m, c in mons.items() if len(m) == 2 and all(peel(a)[0] == "mcall" and peel(a)[2].endswith("expect") and
                                                                    len(peel(a)[3]) == 1 and strip_typed(peel(a)[3][0]) == st for a in m)]
        okv = okv and len(mons) == 2 and got2 == [1] and got1 == [-1]
    ctx.ob("OBSDEF", "sv density-matrix energy variance", fv.loc(), okv,
           "variance = tr(H·Hρ) − tr(Hρ)²" if okv else
           f"energy_variance_sv_den_mat_impl returns {show(pv[0].retval)[:110] if pv else '?'}, not tr(H·Hρ) − tr(Hρ)²: for a "
           f"mixed state (any noisy run) the reported variance is wrong and can be negative")
