"""CONV — honesty about convergence (DESIGN.md §5 C07, C08, C09)."""
from __future__ import annotations

import ast

from ..interp import Interp, SELF, contains, show, strip_typed, walk
from ..model import AnalysisError
from . import util


def _tol_cond(c, truth, tol_params: set[str], funcq: str) -> bool:
    """(X < tol) taken true, or (tol > X) taken true, with tol exactly a tolerance parameter of the function."""
    if c[0] != "cmp" or not truth:
        return False
    op, a, b = c[1], strip_typed(c[2]), strip_typed(c[3])
    def is_tol(t):
        return t[0] == "param" and t[1] == funcq and t[2] in tol_params
    if op in ("<", "<=") and is_tol(b) and not contains(a, is_tol):
        return True
    if op in (">", ">=") and is_tol(a) and not contains(b, is_tol):
        return True
    return False


def _scaled_by_input_norm(c, funcq: str, vec_param: str | None) -> str | None:
    """The tested quantity carries the norm of the input vector as a bare factor (the estimate is computed on the
    normalised vector and is relative; multiplying or dividing it by ‖v‖ turns the requested relative tolerance into an
    absolute one)."""
    if vec_param is None:
        return None
    from ..algebra import monomials
    op, a, b = c[1], strip_typed(c[2]), strip_typed(c[3])
    tested = b if (a[0] == "param" and a[1] == funcq) else a
    vec = ("param", funcq, vec_param)
    for m in monomials(tested):
        for atom in m:
            t = strip_typed(atom) if isinstance(atom, tuple) else atom
            inner = t[1] if isinstance(t, tuple) and t and t[0] == "inv" else t
            while isinstance(inner, tuple) and inner and inner[0] == "mcall" and inner[2] in ("item", "cpu", "real"):
                inner = strip_typed(inner[1])
            if isinstance(inner, tuple) and inner and inner[0] == "mcall" and inner[2].split(".")[-1] == "norm" and strip_typed(inner[1]) == vec:
                return show(tested)[:80]
    return None


def result_honest(ctx, funcq: str, result_cls: str, tol_params: set[str], flag: str = "converged",
                  loop_iters=(1,), vec_param: str | None = None) -> None:
    """Every `result_cls(converged=True)` built in funcq is preceded on its path by a passed tolerance test."""
    prog = ctx.prog
    f = prog.func(funcq)
    it = Interp(prog, None, inline=lambda c, r, d: False, loop_iters=loop_iters, max_paths=20000)
    paths = it.run(f)
    ctx.count("paths", len(paths))
    n_true = n_false = 0
    for p in paths:
        for e in p.events:
            if e.kind == "call" and e.callee is not None and e.name == result_cls:
                v = strip_typed(e.args.get(flag))
                v = v[1] if v[0] == "default" else v
                if v[0] != "const":
                    raise AnalysisError(f"CONV: {flag} argument of {result_cls} at {e.loc()} is not a literal on this "
                                        f"path: {show(v)}")
                if v[1] is True:
                    n_true += 1
                    ok = any(_tol_cond(c, t, tol_params, funcq) for c, t in p.cond_log[: e.ncond])
                    conds = "; ".join(f"{show(c)[:40]}={t}" for c, t in p.cond_log[: e.ncond])
                    scaled = [s_ for c, t in p.cond_log[: e.ncond] if _tol_cond(c, t, tol_params, funcq)
                              for s_ in [_scaled_by_input_norm(c, funcq, vec_param)] if s_]
                    if scaled:
                        ctx.ob("CONV-honest", f"{funcq}|tolerance is relative to the input norm", e.loc(), False,
                               f"the quantity tested against the tolerance, {scaled[0]}, carries ‖{vec_param}‖ as a factor: the "
                               f"estimate is computed on the normalised vector, so this makes the tolerance absolute — for inputs "
                               f"of small norm convergence is reported with a relative error far above the request", entry=funcq)
                    elif vec_param is not None:
                        ctx.ob("CONV-honest", f"{funcq}|tolerance is relative to the input norm", e.loc(), True,
                               f"the tested estimate is not rescaled by ‖{vec_param}‖")
                    ctx.ob("CONV-honest", f"{funcq}|{util.akey(e.node, e.func, 50)}|{_which(p, e, tol_params, funcq)}", e.loc(), ok,
                           f"{flag}=True only after a tolerance test passed" if ok else
                           f"{result_cls.split('.')[-1]}({flag}=True) is reachable without any passed test against "
                           f"{sorted(tol_params)} (path conditions: {conds or 'none'}) — non-convergence would be "
                           f"reported as success", entry=funcq)
                else:
                    n_false += 1
    ctx.require(n_true >= 1, f"CONV: no {flag}=True construction found in {funcq}")
    ctx.ob("CONV-honest", f"{funcq}|fallthrough", f.loc(), n_false >= 1,
           f"the exhausted-iterations exit reports {flag}=False" if n_false >= 1 else
           f"{funcq} has no path reporting {flag}=False: exhaustion of the Krylov dimension is reported as success")


def _which(p, e, tol_params, funcq) -> str:
    hits = [show(c)[:40] for c, t in p.cond_log[: e.ncond] if _tol_cond(c, t, tol_params, funcq)]
    return hits[-1] if hits else "unguarded"


def entry_raises(ctx, funcq: str, flags: set[str], what: str) -> None:
    """Every returning path of the public entry has tested the result's convergence flag(s) positively;
    the other outcome raises."""
    prog = ctx.prog
    f = prog.func(funcq)
    it = Interp(prog, None, inline=lambda c, r, d: False)
    paths = it.run(f)
    rets = [p for p in paths if p.status == "return"]
    raises = [p for p in paths if p.status == "raise"]
    ctx.require(rets, f"{funcq}: no returning path")
    bad = []
    for p in rets:
        # the path is good if one of its decided conditions is impossible when every flag is False
        good = any(_eval3(c, flags) is not None and _eval3(c, flags) != t for c, t in p.cond_log)
        if not good:
            bad.append(p)
    ctx.ob("CONV-entry", f"{funcq}|returns only when converged", f.loc(), not bad and bool(raises),
           f"{what}: returns only on paths where {sorted(flags)} was tested true; the other outcome raises"
           if not bad and raises else
           f"{what}: {len(bad)} returning path(s) never establish {sorted(flags)}"
           + ("" if raises else " and no path raises") + " — an unconverged vector is handed to the caller",
           entry=funcq)


def local_flag_guard(ctx, funcq: str, tol_params: set[str]) -> None:
    """A function that keeps convergence in a local flag and raises when it is false (double_krylov.lanczos)."""
    prog = ctx.prog
    f = prog.func(funcq)
    it = Interp(prog, None, inline=lambda c, r, d: False, loop_iters=(0, 1))
    paths = it.run(f)
    rets = [p for p in paths if p.status == "return"]
    raises = [p for p in paths if p.status == "raise"]
    ctx.require(rets and raises, f"{funcq}: needs both returning and raising paths")
    bad = [p for p in rets if not any(_tol_cond(c, t, tol_params, funcq) for c, t in p.cond_log)]
    ctx.ob("CONV-entry", f"{funcq}|returns only when converged", f.loc(), not bad,
           "returns a Lanczos basis only after a tolerance test passed; raises otherwise" if not bad else
           f"{len(bad)} returning path(s) without a passed tolerance test", entry=funcq)


def who_may_call(ctx, restricted: dict) -> None:
    """restricted: qualname of a non-raising implementation -> set of qualnames allowed to call it."""
    prog = ctx.prog
    for target, allowed in restricted.items():
        prog.func(target)
        offenders = []
        n = 0
        for f in prog.funcs.values():
            for c in util.calls_to(prog, f, target, nested=False):
                n += 1
                if f.qualname not in allowed:
                    offenders.append(f"{f.qualname} ({f.loc(c)})")
        ctx.ob("CONV-callers", f"{target}", prog.func(target).loc(), not offenders,
               f"only {sorted(allowed)} call the non-raising implementation ({n} site(s))" if not offenders else
               f"{offenders} call the non-raising implementation directly and may use an unconverged result")


def clients_use_raising_entry(ctx, entry: str, min_sites: int) -> None:
    prog = ctx.prog
    n = 0
    sites = []
    for f in prog.funcs.values():
        for c in util.calls_to(prog, f, entry, nested=False):
            n += 1
            sites.append(f"{f.name}")
    ctx.ob("CONV-callers", f"{entry}|clients", prog.func(entry).loc(), n >= min_sites,
           f"{n} client call site(s) go through the raising entry: {sorted(set(sites))}" if n >= min_sites else
           f"only {n} client call site(s) of the raising entry found ({min_sites} confirmed by hand)")


def _eval3(c, flags: set[str]):
    """Value of condition term c when every attribute in `flags` is False; None if it depends on anything else."""
    c = strip_typed(c)
    if c[0] == "attr" and c[2] in flags:
        return False
    if c[0] == "un" and c[1] == "not":
        v = _eval3(c[2], flags)
        return None if v is None else (not v)
    if c[0] == "bool":
        vals = [_eval3(x, flags) for x in c[2]]
        if c[1] == "and":
            if any(v is False for v in vals):
                return False
            return True if all(v is True for v in vals) else None
        if any(v is True for v in vals):
            return True
        return False if all(v is False for v in vals) else None
    if c[0] == "const":
        return bool(c[1])
    return None


def _flag_rewrites(tree: ast.AST, flags: set) -> list:
    """Constructs that rewrite a convergence flag of an existing result object: dataclasses.replace(x, flag=E) with E
    other than x.flag, and attribute stores `x.flag = E` outside __init__."""
    out = []
    for fn in ast.walk(tree):
        if not isinstance(fn, (ast.FunctionDef, ast.AsyncFunctionDef)):
            continue
        for n in ast.walk(fn):
            if isinstance(n, ast.Call) and (util.text(n.func).split(".")[-1] == "replace") and n.args and not isinstance(n.args[0], ast.Constant):
                for k in n.keywords:
                    if k.arg in flags:
                        same = util.text(k.value) == f"{util.text(n.args[0])}.{k.arg}"
                        if not same:
                            out.append((fn, n, k.arg, util.text(k.value, 60)))
            elif isinstance(n, (ast.Assign, ast.AugAssign, ast.AnnAssign)) and fn.name != "__init__":
                tg = n.targets if isinstance(n, ast.Assign) else [n.target]
                for t in tg:
                    if isinstance(t, ast.Attribute) and t.attr in flags and not (isinstance(t.value, ast.Name) and t.value.id == "self"):
                        out.append((fn, n, t.attr, util.text(n.value, 60) if getattr(n, "value", None) is not None else "?"))
    return out


_REWRITE_SELFTEST = '''
def f(result, stalled):
    result = replace(result, restart_count=1, converged=result.converged or stalled)
    other = replace(result, converged=result.converged)
    result.happy_breakdown = True
    return result
'''


def no_flag_rewrite(ctx, modules: tuple, flags: set) -> None:
    """The convergence flags are produced by the result constructors that CONV-honest checks and by nothing else: no
    function of the solver modules overwrites them on an existing result."""
    prog = ctx.prog
    demo = _flag_rewrites(ast.parse(_REWRITE_SELFTEST), flags | {"converged", "happy_breakdown"})
    ctx.require(len(demo) == 2, f"CONV-rewrite: matcher self-test found {len(demo)} of 2 rewrites")
    n = 0
    bad = []
    for m in prog.modules.values():
        if not m.name.startswith(modules):
            continue
        n += sum(1 for x in ast.walk(m.tree) if isinstance(x, (ast.FunctionDef, ast.AsyncFunctionDef)))
        for fn, node, flag, val in _flag_rewrites(m.tree, flags):
            bad.append(f"{m.relpath}:{node.lineno} {fn.name} sets {flag} = {val}")
    ctx.count("functions_scanned_for_flag_rewrites", n)
    ctx.require(n >= 10, f"CONV-rewrite: only {n} functions scanned")
    ctx.ob("CONV-rewrite", "|".join(sorted(modules)) + "|" + ",".join(sorted(flags)), bad[0].split(" ")[0] if bad else modules[0], not bad,
           f"no function of {', '.join(modules)} overwrites {sorted(flags)} on an existing result ({n} functions scanned)"
           if not bad else
           f"{bad[0]}: the flag no longer means that the residual test passed — a caller that trusts it (the raising "
           f"entry point returns whenever it is set) accepts an unconverged vector" + (f" (+{len(bad) - 1} more)" if len(bad) > 1 else ""))
