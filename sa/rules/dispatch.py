"""DISPATCH rules (DESIGN.md A.6)."""
from __future__ import annotations

import ast

import networkx as nx

from ..cfg import CFG, ENTRY, EXIT, RAISE
from ..algebra import is_const
from ..interp import _strip_not, Interp, SELF, contains, show, strip_typed, walk
from ..model import AnalysisError, ClassInfo, FuncInfo, dotted
from . import util
from .util import text

# (function, discriminator description, predicate on a test expression)
#   the predicate says whether an `if` test is an alternative of the chain.


def _mentions(expr: ast.AST, names: set[str]) -> bool:
    for n in ast.walk(expr):
        d = dotted(n) if isinstance(n, (ast.Name, ast.Attribute)) else None
        if d in names:
            return True
    return False


def _is_discriminating_test(test: ast.AST, func: FuncInfo, disc: set[str]) -> bool:
    """`D == lit`, `D is X`, `lit in D`, `len(D) == k`, `set(D) == {...}` possibly through a local alias."""
    for t in (test, util.inline_locals(func, test)):
        for n in ast.walk(t):
            if isinstance(n, ast.Compare):
                sides = [n.left] + list(n.comparators)
                if any(_mentions(s, disc) for s in sides):
                    return True
    return False


CHAINS = [
    # qualname, discriminator names (params/locals/attributes whose value selects the alternative), min alternatives
    ("emu_base.pulser_adapter.PulserData.__init__", {"self.hamiltonian.basis_data.interaction_type"}, 2),
    ("emu_base.pulser_adapter._extract_omega_delta_phi", {"noisy_samples"}, 2),
    ("emu_mps.hamiltonian.make_H", {"hamiltonian_type"}, 2),
    ("emu_base.jump_lindblad_operators.get_lindblad_operators", {"noise_type"}, 5),
    ("emu_mps.mps.MPS.make", {"eigenstates"}, 2),
    ("emu_mps.mps.MPS._from_state_amplitudes", {"eigenstates"}, 3),
    ("emu_mps.mpo.MPO._from_operator_repr", {"eigenstates"}, 3),
    ("emu_sv.state_vector.StateVector._from_state_amplitudes", {"eigenstates"}, 2),
    ("emu_sv.dense_operator.DenseOperator._from_operator_repr", {"eigenstates"}, 2),
    ("emu_sv.sparse_operator.SparseOperator._from_operator_repr", {"eigenstates"}, 2),
]


def _match_polarity(test: ast.AST) -> bool:
    """Label of the edge on which the alternative is selected: True for `D == x`, False for `not (D == x)` and `D != x`."""
    pol = True
    while isinstance(test, ast.UnaryOp) and isinstance(test.op, ast.Not):
        test, pol = test.operand, not pol
    if isinstance(test, ast.Compare) and len(test.ops) == 1 and isinstance(test.ops[0], (ast.NotEq, ast.IsNot, ast.NotIn)):
        pol = not pol
    return pol


def chain_falls_through(func: FuncInfo, disc: set[str]) -> tuple[int, list[int], bool]:
    """(#alternatives, their lines, True if the all-alternatives-false path reaches the normal exit)."""
    cfg = util.cfg_of(func)
    tests = []
    for n, st in cfg.stmts():
        d = cfg.g.nodes[n]
        if d["kind"] == "test" and isinstance(d.get("stmt"), ast.If):
            if _is_discriminating_test(d["ast"], func, disc):
                tests.append(n)
    h = nx.DiGraph()
    h.add_nodes_from(cfg.g.nodes)
    match_edge = {n: _match_polarity(cfg.g.nodes[n]["ast"]) for n in tests}
    for u, v, dd in cfg.g.edges(data=True):
        if u in tests and dd.get("label") is match_edge[u]:
            continue   # the edge taken when this alternative matches
        h.add_edge(u, v)
    falls = nx.has_path(h, ENTRY, EXIT)
    lines = sorted(cfg.g.nodes[n]["ast"].lineno for n in tests)
    return len(tests), lines, falls


def exhaustive(ctx) -> None:
    prog = ctx.prog
    for q, disc, floor in CHAINS:
        func = prog.func(q)
        n, lines, falls = chain_falls_through(func, disc)
        ctx.count("functions")
        if n < floor:
            if n == 0 and not any(isinstance(x, (ast.Name, ast.Attribute)) and dotted(x) in disc for x in ast.walk(func.node)):
                # the discriminator is not consulted at all any more: the selection is made from something else
                ctx.ob("DISPATCH-exhaustive", f"{q}|{'/'.join(sorted(disc))}", func.loc(), False,
                       f"{func.name} no longer selects its alternative from {sorted(disc)} (the value is not read anywhere in "
                       f"the function): what is emulated is decided from something that does not identify the case")
                continue
            raise AnalysisError(f"DISPATCH-exhaustive: {q}: found {n} alternative(s) on {sorted(disc)}, "
                                f"{floor} confirmed by hand — chain not recognised")
        ctx.ob("DISPATCH-exhaustive", f"{q}|{'/'.join(sorted(disc))}", func.loc(),
               not falls,
               (f"{n} alternatives on {sorted(disc)} (lines {lines}); when none matches every path ends in raise"
                if not falls else
                f"when none of the {n} alternatives on {sorted(disc)} matches, control reaches the normal exit "
                f"without raising — an unsupported value is silently accepted"))
    ctx.floor("DISPATCH-exhaustive", len(CHAINS))
    # hyperfine dephasing: in the dephasing alternative, the return is dominated by a raising test on
    # hyperfine_dephasing_rate
    func = prog.func("emu_base.jump_lindblad_operators.get_lindblad_operators")
    cfg = util.cfg_of(func)
    found = False
    for n, st in cfg.stmts():
        d = cfg.g.nodes[n]
        if d["kind"] == "test" and isinstance(d.get("stmt"), ast.If) and \
                _const_compare(util.inline_locals(func, d["ast"]), "noise_type") == "dephasing":
            found = True
            # returns reachable through the True edge
            ok = True
            detail = ""
            guard_nodes = [m for m, s in cfg.stmts() if cfg.g.nodes[m]["kind"] == "test"
                           and "hyperfine_dephasing_rate" in text(cfg.g.nodes[m]["ast"], 400)]
            rets = [m for m, s in cfg.stmts() if isinstance(s, ast.Return)
                    and _reach_via(cfg, n, True, m)]
            ctx.require(rets, "DISPATCH-hyperfine: no return in the dephasing alternative")
            for r in rets:
                dom = [gn for gn in guard_nodes if cfg.dominates(gn, r) and _edge_raises(cfg, gn)]
                if not dom:
                    ok = False
                    detail = f"return at line {cfg.g.nodes[r]['ast'].lineno} not guarded"
            ctx.ob("DISPATCH-hyperfine", f"{func.qualname}|dephasing", func.loc(d["ast"]), ok,
                   "dephasing operators are returned only after the hyperfine_dephasing_rate test whose other "
                   "edge raises" if ok else
                   f"dephasing alternative returns operators without rejecting hyperfine dephasing ({detail})")
    ctx.require(found, "DISPATCH-hyperfine: dephasing alternative not found")


def _const_compare(test: ast.AST, name: str):
    if isinstance(test, ast.Compare) and len(test.ops) == 1 and isinstance(test.ops[0], ast.Eq):
        a, b = test.left, test.comparators[0]
        if dotted(a) == name and isinstance(b, ast.Constant):
            return b.value
        if dotted(b) == name and isinstance(a, ast.Constant):
            return a.value
    return None


def _reach_via(cfg: CFG, test: int, label, target: int) -> bool:
    for _, v, d in cfg.g.out_edges(test, data=True):
        if d.get("label") == label and (v == target or nx.has_path(nx.DiGraph(cfg.g), v, target)):
            return True
    return False


def _edge_raises(cfg: CFG, test: int) -> bool:
    """One outgoing edge of the test leads only to the raise exit."""
    g = nx.DiGraph(cfg.g)
    for _, v, d in cfg.g.out_edges(test, data=True):
        if v == RAISE or (nx.has_path(g, v, RAISE) and not nx.has_path(g, v, EXIT)):
            return True
    return False


# ---------------------------------------------------------------- consume
DISPATCHING_PARAMS = {
    ("emu_mps.hamiltonian.make_H", "hamiltonian_type"),
    ("emu_mps.hamiltonian.make_H", "dim"),            # HamiltonianMPOFactors.__init__ rejects dim not in (2, 3)
    ("emu_mps.mps.MPS.make", "eigenstates"),
}


def consume(ctx, cls_q: str, entry_methods: list[str], what: dict) -> None:
    """Every normal path through the entry methods of the backend driver has *decided* on the Hamiltonian
    type and on the number of levels of the SequenceData it was given: the value reached a dispatching
    parameter, or was tested with the other outcome raising.

    `what`: label -> set of SequenceData attribute names that carry the information.
    """
    prog = ctx.prog
    cls = prog.cls(cls_q)
    it = Interp(prog, cls, max_depth=8)
    # run the entry methods in sequence on every path
    first = prog.find_method(cls, entry_methods[0])
    ctx.require(first is not None, f"{cls_q}.{entry_methods[0]} not found")
    paths = it.run(first)
    data_param = None
    for x in first.node.args.args[1:]:
        c = it.annotation_class(x.annotation, first.module)
        if c is not None and c.qualname.endswith("SequenceData"):
            data_param = ("param", first.qualname, x.arg)
    ctx.require(data_param is not None, f"{first.qualname}: no SequenceData parameter")
    for mname in entry_methods[1:]:
        m = prog.find_method(cls, mname)
        ctx.require(m is not None, f"{cls_q}.{mname} not found")
        nxt = []
        for p in paths:
            if p.status != "return":
                nxt.append(p)
                continue
            p.status = "normal"
            fr = p.frames[0]
            fr.func = m
            fr.env = {m.params[0]: SELF}
            for q in it.exec_block(m.node.body, [p]):
                if q.status == "normal":
                    q.status = "return"
                nxt.append(q)
        paths = nxt
    ctx.count("paths", len(paths))
    normal = [p for p in paths if p.status == "return"]
    ctx.require(normal, f"{cls_q}: no normal path through {entry_methods}")

    def reads(term, attrs) -> bool:
        return contains(term, lambda t: t[0] == "attr" and strip_typed(t[1]) == data_param and t[2] in attrs)

    # which (cond, truth) pairs lead straight to a raise on some path
    raising = set()
    for p in paths:
        if p.status == "raise":
            ev = [e for e in p.events if e.kind == "raise"][-1]
            if ev.ncond >= 1:
                c, truth = p.cond_log[ev.ncond - 1]
                raising.add((c, truth))
    for label, attrs in what.items():
        bad = []
        how = set()
        for p in normal:
            ok = False
            for e in p.events:
                if e.kind == "call" and e.callee is not None:
                    for pname, v in e.args.items():
                        if (e.name, pname) in DISPATCHING_PARAMS and reads(v, attrs):
                            ok = True
                            how.add(f"{e.name.split('.')[-1]}({pname}=)")
            for c, truth in p.cond_log:
                if reads(c, attrs) and (c, not truth) in raising:
                    ok = True
                    how.add(f"test {show(c)}")
            if not ok:
                bad.append(p)
        where = first.loc()
        ctx.ob("DISPATCH-consume", f"{cls_q}|{label}", where, not bad,
               (f"every one of {len(normal)} normal path(s) through {'+'.join(entry_methods)} decides on "
                f"SequenceData.{'/'.join(sorted(attrs))} ({', '.join(sorted(how))})") if not bad else
               (f"{len(bad)} of {len(normal)} normal path(s) through {'+'.join(entry_methods)} never inspect "
                f"SequenceData.{'/'.join(sorted(attrs))}: a sequence with an unsupported {label} is emulated "
                f"with the default Hamiltonian instead of being rejected"),
               entry=f"{cls_q}.{entry_methods[0]}")


# ----------------------------------------------------------------- solver
def solver(ctx) -> None:
    prog = ctx.prog
    f = prog.func("emu_mps.mps_backend_impl.create_impl")
    dmrg = prog.cls("emu_mps.mps_backend_impl.DMRGBackendImpl")
    it = Interp(prog, None, inline=lambda c, r, d: False)
    paths = it.run(f)
    ctx.count("paths", len(paths))
    rets = [p for p in paths if p.status == "return"]
    ctx.require(len(rets) >= 2, "create_impl: fewer than 2 returning paths")

    def solver_test(c) -> bool:
        return c[0] == "cmp" and contains(c, lambda t: t[0] == "attr" and t[2] == "solver") and \
            contains(c, lambda t: t[0] == "ref" and t[1].endswith("Solver.DMRG") or t == ("const", "dmrg"))

    n = 0
    for p in rets:
        v = strip_typed(p.retval)
        if v[0] != "new":
            raise AnalysisError(f"create_impl: returned value is not a constructor call: {show(v)}")
        c = prog.classes[v[1]]
        decided = [(c_, t) for c_, t in p.cond_log if solver_test(c_)]
        refuted = any((c_[1] == "==" and t is False) for c_, t in decided)
        is_dmrg = prog.is_subclass(c, dmrg)
        ok = refuted or is_dmrg
        ret_ev = [e for e in p.events if e.kind == "return"][-1]
        n += 1
        ctx.ob("DISPATCH-solver", f"create_impl|return {c.name}|{'; '.join(show(x) + '=' + str(t) for x, t in p.cond_log)}",
               f.loc(ret_ev.node), ok,
               (f"returns {c.name} with solver==DMRG " + ("refuted" if refuted else "possible (DMRG impl)")) if ok else
               (f"returns {c.name} on a path where config.solver may still be Solver.DMRG "
                f"(conditions: {[(show(x), t) for x, t in p.cond_log]}): a DMRG request with Lindblad noise is "
                f"silently run as a quantum-jump TDVP simulation"),
               entry="create_impl")
    # DMRG constructor refuses noise before anything else
    init = prog.func("emu_mps.mps_backend_impl.DMRGBackendImpl.__init__")
    cfg = util.cfg_of(init)
    sup = None
    guard = None
    for nn, st in cfg.stmts():
        for sub in (ast.walk(cfg.g.nodes[nn]["ast"]) if cfg.g.nodes[nn]["kind"] == "test" else ()):
            pass
    for nn, st in cfg.stmts():
        if cfg.g.nodes[nn]["kind"] == "test" and "noise_types" in text(st, 400):
            guard = nn
        elif cfg.g.nodes[nn]["kind"] == "stmt" and "super().__init__" in text(st, 400):
            sup = nn
    ctx.require(sup is not None, "DMRGBackendImpl.__init__: super().__init__ call not found")
    ok, why = False, "DMRGBackendImpl.__init__ reaches super().__init__ without a raising test on noise_types"
    if guard is not None:
        pol = _nonempty_polarity(cfg.g.nodes[guard]["ast"])
        if pol is None:
            raise AnalysisError("DISPATCH-dmrg-noise: unrecognised form of the noise_types test: "
                                + text(cfg.g.nodes[guard]["ast"]))
        raising_label = _raising_label(cfg, guard)
        if not cfg.dominates(guard, sup):
            why = "the noise_types test does not dominate super().__init__"
        elif raising_label is None:
            why = "neither outcome of the noise_types test raises"
        elif raising_label != pol:
            why = ("the noise_types test raises on the *empty* outcome: a noisy model reaches the DMRG "
                   "constructor")
        else:
            ok = True
    ctx.ob("DISPATCH-dmrg-noise", "DMRGBackendImpl.__init__|noise_types guard", init.loc(), ok,
           "the test on noise_model.noise_types, whose non-empty outcome raises, dominates super().__init__"
           if ok else why)
    ctx.floor("DISPATCH-solver", 3)


def _raising_label(cfg: CFG, test: int):
    g = nx.DiGraph(cfg.g)
    for _, v, d in cfg.g.out_edges(test, data=True):
        if v == RAISE or (nx.has_path(g, v, RAISE) and not nx.has_path(g, v, EXIT)):
            return d.get("label")
    return None


def _nonempty_polarity(test: ast.AST):
    """True if the test holds exactly when noise_types is non-empty, False if when empty, None if unknown."""
    if isinstance(test, ast.UnaryOp) and isinstance(test.op, ast.Not):
        p = _nonempty_polarity(test.operand)
        return None if p is None else (not p)
    if isinstance(test, (ast.Attribute, ast.Name)):
        return True
    if isinstance(test, ast.BoolOp) and isinstance(test.op, ast.Or):
        # "noise_types non-empty or <anything else noisy>": still raises whenever noise_types is non-empty
        pols = [_nonempty_polarity(v) for v in test.values if "noise_types" in text(v, 400)]
        return True if pols and all(p is True for p in pols) else None
    if isinstance(test, ast.Compare) and len(test.ops) == 1:
        a, b, op = test.left, test.comparators[0], test.ops[0]

        def empty(n):
            return isinstance(n, (ast.Tuple, ast.List)) and not n.elts

        def zero(n):
            return isinstance(n, ast.Constant) and n.value == 0

        def one(n):
            return isinstance(n, ast.Constant) and n.value == 1

        def is_len(n):
            return isinstance(n, ast.Call) and dotted(n.func) == "len"

        if empty(b) or empty(a):
            if isinstance(op, ast.NotEq):
                return True
            if isinstance(op, ast.Eq):
                return False
        if is_len(a):
            if (isinstance(op, (ast.Gt, ast.NotEq)) and zero(b)) or (isinstance(op, ast.GtE) and one(b)):
                return True
            if (isinstance(op, ast.Eq) and zero(b)) or (isinstance(op, ast.Lt) and one(b)):
                return False
    return None


# ------------------------------------------------------------------ noise
def noise_cover(ctx) -> None:
    prog = ctx.prog
    pa = prog.module("emu_base.pulser_adapter")
    node = pa.globals.get("_NON_LINDBLADIAN_NOISE")
    ctx.require(node is not None, "_NON_LINDBLADIAN_NOISE not found")
    non_l = set(ast.literal_eval(node))
    func = prog.func("emu_base.jump_lindblad_operators.get_lindblad_operators")
    handled = set()
    for n in util.walk_own(func.node):
        if isinstance(n, ast.If):
            v = _const_compare(util.inline_locals(func, n.test), "noise_type")
            if isinstance(v, str):
                handled.add(v)
    # Pulser's NoiseTypes literal, read from the installed source
    import os
    src_path = os.path.join(util.pulser_root(), "noise_model.py")
    with open(src_path, encoding="utf-8") as f:
        tree = ast.parse(f.read())
    types = None
    for st in tree.body:
        if isinstance(st, ast.Assign) and any(isinstance(t, ast.Name) and t.id == "NoiseTypes" for t in st.targets):
            if isinstance(st.value, ast.Subscript):
                types = set(ast.literal_eval(st.value.slice))
    ctx.require(types, "NoiseTypes literal not found in installed pulser/noise_model.py")
    missing = types - non_l - handled
    ctx.ob("DISPATCH-noise", "cover", func.loc(), not missing,
           f"every Pulser noise type {sorted(types)} is either non-Lindbladian ({len(non_l)}) or handled "
           f"({sorted(handled)})" if not missing else
           f"Pulser noise type(s) {sorted(missing)} are neither in _NON_LINDBLADIAN_NOISE nor handled by "
           f"get_lindblad_operators")
    both = non_l & handled
    ctx.ob("DISPATCH-noise", "disjoint", pa.relpath + f":{node.lineno}", not both,
           "non-Lindbladian and handled noise types are disjoint" if not both else
           f"{sorted(both)} are filtered out as non-Lindbladian although get_lindblad_operators handles them")
    # the filter is applied with `not in`, on noise_model.noise_types
    g = prog.func("emu_base.pulser_adapter._get_all_lindblad_noise_operators")
    verdict = None
    for n in ast.walk(g.node):
        if isinstance(n, ast.comprehension) and text(n.iter).endswith("noise_types"):
            for c in n.ifs:
                if isinstance(c, ast.Compare) and dotted(c.comparators[0]) == "_NON_LINDBLADIAN_NOISE":
                    verdict = isinstance(c.ops[0], ast.NotIn)
            if verdict is None and not n.ifs:
                verdict = False
    if verdict is None:
        raise AnalysisError("DISPATCH-noise: the filter over noise_model.noise_types in "
                            "_get_all_lindblad_noise_operators has an unrecognised form")
    ctx.ob("DISPATCH-noise", "filter", g.loc(), verdict,
           "every noise type of the model not in _NON_LINDBLADIAN_NOISE is sent to get_lindblad_operators"
           if verdict else "the comprehension over noise_model.noise_types does not filter with "
                           "`not in _NON_LINDBLADIAN_NOISE`")


# -------------------------------------------------------------- required rejections
def _len_eq_one(c, t) -> bool:
    c = strip_typed(c)
    if c[0] != "cmp" or c[1] != "==" or t is not False:
        return False
    a, b = strip_typed(c[2]), strip_typed(c[3])
    if b[0] == "call" and b[1] == "len":
        a, b = b, a
    return a[0] == "call" and a[1] == "len" and b == ("const", 1) and "to_nested_dict" in show(a)


REJECTIONS = [
    # (function, class or None, label, predicate over (last decided condition, its truth, whole path), consequence)
    ("emu_base.pulser_adapter._extract_omega_delta_phi", None, "more than one interaction basis in the samples",
     lambda c, t, p: _len_eq_one(c, t),
     "a sequence addressing two bases at once (e.g. ground-rydberg and digital/XY) is emulated from the first matching "
     "basis only"),
    ("emu_base.pulser_adapter._extract_omega_delta_phi", None, "drive samples with an imaginary part",
     lambda c, t, p: "allclose(" in show(c) and ".imag" in show(c) and t is False,
     "complex-valued samples are silently truncated to their real part"),
    ("emu_mps.mps.MPS.sample", "emu_mps.mps.MPS", "false-positive readout errors with more than two levels",
     lambda c, t, p: "self.dim" in show(c) and strip_typed(c)[0] == "cmp" and strip_typed(c)[1] == ">" and t is True
     and any("p_false_pos" in show(c2) and t2 for c2, t2 in p.cond_log),
     "readout errors are applied to bitstrings of 3-level atoms although that is not implemented"),
    ("emu_mps.mps_backend_impl.MPSBackendImpl.__init__", "emu_mps.mps_backend_impl.MPSBackendImpl", "fewer than two atoms",
     lambda c, t, p: "qubit_count" in show(c) and strip_typed(c)[0] == "cmp" and t is False,
     "a one-atom register reaches the MPS code, which assumes at least two sites"),
    ("emu_mps.hamiltonian.HamiltonianMPOFactors.__init__", "emu_mps.hamiltonian.HamiltonianMPOFactors", "dim outside {2, 3}",
     lambda c, t, p: strip_typed(c)[0] == "cmp" and strip_typed(c)[1] == "in" and show(strip_typed(c)[2]) == "dim" and t is False
     and strip_typed(c)[3][0] in ("tuple", "list", "set") and sorted(map(repr, strip_typed(c)[3][1])) == [repr(("const", 2)), repr(("const", 3))],
     "an unsupported number of levels builds a Hamiltonian with 2- or 3-level operator blocks"),
    ("emu_base.jump_lindblad_operators.get_lindblad_operators", None, "a non-zero hyperfine dephasing rate",
     lambda c, t, p: strip_typed(c)[0] == "cmp" and strip_typed(c)[1] == "==" and "hyperfine_dephasing_rate" in show(c)
     and is_const(strip_typed(c)[3], 0) and t is False,
     "hyperfine dephasing is silently ignored (only the Rydberg dephasing operators are built)"),
    ("emu_sv.sv_backend_impl.SVBackendImpl.__init__", "emu_sv.sv_backend_impl.SVBackendImpl",
     "a Hamiltonian other than Rydberg",
     lambda c, t, p: strip_typed(c)[0] == "cmp" and strip_typed(c)[1] == "==" and "hamiltonian_type" in show(c)
     and "Rydberg" in show(c) and t is False,
     "an XY sequence is emulated with the Ising Hamiltonian"),
    ("emu_sv.sv_backend_impl.SVBackendImpl.__init__", "emu_sv.sv_backend_impl.SVBackendImpl",
     "a number of levels other than 2",
     lambda c, t, p: strip_typed(c)[0] == "cmp" and strip_typed(c)[1] == "==" and show(strip_typed(c)[2]).endswith(".dim")
     and strip_typed(c)[3] == ("const", 2) and t is False,
     "a leakage (3-level) sequence is emulated with two-level operators"),
    ("emu_sv.sv_backend_impl.SVBackendImpl.__init__", "emu_sv.sv_backend_impl.SVBackendImpl",
     "an initial state with another number of atoms",
     lambda c, t, p: strip_typed(c)[0] == "cmp" and strip_typed(c)[1] == "==" and "n_qudits" in show(c)
     and t is False,
     "an initial state of the wrong size is evolved under the sequence's Hamiltonian"),
    ("emu_sv.sv_backend_impl.SVBackendImpl.__init__", "emu_sv.sv_backend_impl.SVBackendImpl",
     "initial state together with state-preparation errors",
     lambda c, t, p: "state_prep_error" in show(c) and t is True and any("initial_state is None" in show(c2) and t2 is False for c2, t2 in p.cond_log),
     "a user initial state is combined with randomly removed atoms"),
]


def rejections(ctx) -> None:
    prog = ctx.prog
    for q, cq, label, pred, consequence in REJECTIONS:
        f = prog.func(q)
        it = Interp(prog, prog.cls(cq) if cq else None, inline=lambda c, r, d: False, loop_iters=(1,), fork_asserts=True,
                    max_paths=20000)
        paths = it.run(f)
        hit = False
        for p in paths:
            if p.status != "raise" or not p.cond_log:
                continue
            ev = [e for e in p.events if e.kind == "raise"]
            if not ev or ev[-1].func != f:
                continue
            n = ev[-1].ncond
            if n >= 1:
                c, t = p.cond_log[n - 1]
                # a compound condition held in a local (`bad = a or b; if bad: raise`): any disjunct may be the reason
                c0 = strip_typed(c)
                cands = [(c, t)]
                if c0[0] == "bool" and ((c0[1] == "or" and t) or (c0[1] == "and" and not t)):
                    cands = [_strip_not(part, t) for part in c0[2]]
                if any(pred(cc, tt, p) for cc, tt in cands):
                    hit = True
        ctx.ob("DISPATCH-reject", f"{q}|{label}", f.loc(), hit,
               f"{f.name} raises for: {label}" if hit else
               f"{f.name} no longer raises for: {label} — {consequence}")
    ctx.floor("DISPATCH-reject", len(REJECTIONS))


def hamiltonian_type_table(ctx) -> None:
    """PulserData.__init__: the Hamiltonian type handed to the backends is Rydberg exactly for Pulser's interaction type
    'ising' and XY exactly for 'XY'; anything else raises.  (Pulser's *basis name* carries suffixes such as `_with_error`
    and does not identify the interaction.)"""
    prog = ctx.prog
    f = prog.func("emu_base.pulser_adapter.PulserData.__init__")
    it = Interp(prog, prog.cls("emu_base.pulser_adapter.PulserData"), inline=lambda c, r, d: False, loop_iters=(1,))
    rows = {}
    undecided = 0
    for p in it.run(f):
        st = [e for e in p.events if e.kind == "setattr" and e.name == "hamiltonian_type" and e.target[0] == SELF]
        if p.status != "return" or not st:
            continue
        v = strip_typed(st[-1].value)
        val = v[1].split(".")[-1] if v[0] in ("ref", "ext", "global") else show(v)
        key = None
        for c, t in p.cond_log[: st[-1].ncond]:
            c0 = strip_typed(c)
            if c0[0] == "cmp" and c0[1] == "==" and t and strip_typed(c0[3])[0] == "const" and "interaction_type" in show(c0[2]):
                key = strip_typed(c0[3])[1]
        if key is None:
            undecided += 1
        rows.setdefault(key, set()).add(val)
    ok = rows == {"ising": {"Rydberg"}, "XY": {"XY"}} and undecided == 0
    ctx.ob("DISPATCH-hamiltonian", "PulserData.__init__", f.loc(), ok,
           "interaction_type 'ising' → HamiltonianType.Rydberg, 'XY' → HamiltonianType.XY, anything else raises" if ok else
           f"PulserData.__init__ sets hamiltonian_type as {({str(k): sorted(v) for k, v in rows.items()})} (key = the value "
           f"interaction_type was tested equal to; None = not tested): a sequence can be emulated with the Hamiltonian of "
           f"another interaction")
