"""Badly prepared ("dark") atoms: completeness of the filtering on both backends and PHYSDIM (C25)."""
from __future__ import annotations

import ast

from ..algebra import canon, is_const
from ..interp import Interp, SELF, Event, Path, contains, field_defs, show, strip_typed, walk
from ..model import AnalysisError
from . import util

MPS = "emu_mps.mps_backend_impl.MPSBackendImpl"
SV = "emu_sv.sv_backend_impl.SVBackendImpl"
FILTER = ("attr", SELF, "well_prepared_qubits_filter")


def _negated_bad(t) -> bool | None:
    """True if the term is logical_not(tensor(bad_atoms)) (possibly gathered), False if tensor(bad_atoms) itself."""
    s = show(t)
    if "bad_atoms" not in s:
        return None
    neg = any(x[0] == "call" and x[1] in ("torch.logical_not", "torch.bitwise_not") for x in walk(t)) or \
        any(x[0] == "un" and x[1] in ("inv", "not") for x in walk(t))
    return neg


def _gate_is_the_trajectorys(prog, K, p, mask) -> tuple[bool, str]:
    """The dark-atom branch is taken iff the *same object that supplies bad_atoms* reports state_prep_error > 0.
    (Pulser draws bad_atoms per trajectory from the noise model that was actually used — the device's when
    prefer_device_noise_model — so a gate read from config.noise_model can be off while atoms are marked bad.)"""
    srcs = [strip_typed(t[1]) for t in walk(mask) if strip_typed(t)[0] == "attr" and strip_typed(t)[2] == "bad_atoms"]
    if not srcs:
        return False, "the filter is not built from <data>.bad_atoms"
    data = srcs[0]
    same = {data}
    if data[0] == "attr" and data[1] == SELF:
        for v, ev in field_defs(prog, K).get(data[2], []):
            if ev.func.name == "__init__":
                same.add(strip_typed(v))
    fd = None

    def resolve(c):
        nonlocal fd
        c = strip_typed(c)
        if c[0] == "attr" and c[1] == SELF:          # a flag computed in the constructor
            fd = fd or field_defs(prog, K)
            defs = [strip_typed(v) for v, ev in fd.get(c[2], []) if ev.func.name == "__init__"]
            if len(defs) == 1:
                return defs[0]
        return c

    gates = []
    for c, t in p.cond_log:
        c0 = resolve(c)
        if "state_prep_error" in show(c0) or "state_prep_error" in show(c):
            gates.append((c0, t))
    if not gates:
        return False, "the filter is not conditioned on state_prep_error > 0"
    for c0, t in gates:
        ok = c0[0] == "cmp" and c0[1] == ">" and is_const(c0[3], 0) and t is True and \
            strip_typed(c0[2])[0] == "attr" and strip_typed(c0[2])[2] == "state_prep_error" and strip_typed(strip_typed(c0[2])[1]) in same
        if ok:
            return True, ""
    return False, (f"the dark-atom branch is gated by {show(gates[0][0])[:70]}, not by the state_prep_error of the object that "
                   f"supplies bad_atoms ({show(data)[:40]}): with prefer_device_noise_model, or a SequenceData run with "
                   f"another config, atoms marked bad stay in the simulation as ordinary atoms")


def mps_completeness(ctx) -> None:
    prog = ctx.prog
    K = prog.cls(MPS)
    it = Interp(prog, K, inline=lambda c, r, d: False)
    f = K.methods["init_dark_qubits"]
    paths = [p for p in it.run(f) if p.status == "return"]
    dark = [p for p in paths if any(e.kind == "setattr" and e.name == "well_prepared_qubits_filter"
                                    and strip_typed(e.value) != ("const", None) for e in p.events)]
    ctx.require(dark, "init_dark_qubits: no path builds the filter")
    for p in dark[:1]:
        st = [e for e in p.events if e.kind == "setattr" and e.name == "well_prepared_qubits_filter"][0]
        pol = _negated_bad(st.value)
        ctx.ob("DARK-mps", "filter polarity", st.loc(), pol is True,
               "the filter keeps the well-prepared atoms: logical_not(bad_atoms)" if pol is True else
               f"well_prepared_qubits_filter = {show(st.value)[:80]} does not select the atoms that are NOT bad")
        cond_ok, gate_why = _gate_is_the_trajectorys(prog, K, p, st.value)
        ctx.ob("DARK-mps", "filter condition", f.loc(), cond_ok,
               "the filter is built when the sequence data that carries bad_atoms has state_prep_error > 0" if cond_ok else
               f"init_dark_qubits: {gate_why}")
        heap_filter = st.value
        for name in ("omega", "delta", "phi"):
            ev = [e for e in p.events if e.kind == "setattr" and e.name == name and e.target[0] == SELF]
            ok = False
            if ev:
                v = strip_typed(ev[-1].value)
                ok = v[0] == "sub" and strip_typed(v[1]) == ("attr", SELF, name) and v[2][0] == "tuple" and \
                    len(v[2][1]) == 2 and v[2][1][0][0] == "slice" and canon(v[2][1][1]) == canon(heap_filter)
            ctx.ob("DARK-mps", f"drive {name} filtered", (ev[-1] if ev else f).loc() if ev else f.loc(), ok,
                   f"self.{name} keeps the columns of the well-prepared atoms" if ok else
                   f"self.{name} is not restricted to the well-prepared atoms with the same filter: the Hamiltonian "
                   f"update would receive {name} values for a different set of atoms")
        qc = [e for e in p.events if e.kind == "setattr" and e.name == "qubit_count"]
        okq = bool(qc) and "well_prepared_qubits_filter" in show(qc[-1].value) or (bool(qc) and canon(heap_filter) in [canon(t) for t in walk(qc[-1].value)])
        ctx.ob("DARK-mps", "qubit_count rebuilt", (qc[-1] if qc else f).loc() if qc else f.loc(), bool(okq),
               "qubit_count becomes the number of well-prepared atoms" if okq else
               "qubit_count is not recomputed from the filter")
    # interaction matrix: rows and columns with the same filter
    g = K.methods["_get_interaction_matrix"]
    n = 0
    for p in it.run(g):
        if p.status != "return":
            continue
        if not any("well_prepared_qubits_filter is None" in show(c) and t is False for c, t in p.cond_log):
            continue
        n += 1
        r = strip_typed(p.retval)
        ok = r[0] == "sub" and r[2][0] == "tuple" and r[2][1][0][0] == "slice" and strip_typed(r[2][1][1]) == FILTER
        if ok:
            inner = strip_typed(r[1])
            ok = inner[0] == "sub" and inner[2][0] == "tuple" and strip_typed(inner[2][1][0]) == FILTER and inner[2][1][1][0] == "slice"
        ctx.ob("DARK-mps", "matrix rows and columns filtered", g.loc(), ok,
               "rows and columns of the bad atoms are removed from the interaction matrix" if ok else
               f"_get_interaction_matrix returns {show(r)[:100]}: rows and columns are not both filtered")
    ctx.require(n >= 1, "_get_interaction_matrix: no dark-qubit path")
    # fill_results: the three extended_* calls use the same filter
    h = K.methods["fill_results"]
    n = 0
    for p in it.run(h):
        calls = {e.name.split(".")[-1]: e for e in p.events if e.kind == "call" and e.name.startswith("emu_mps.utils.")
                 and e.name.split(".")[-1] in ("extended_mps_factors", "extended_mpo_factors", "get_extended_site_index")}
        if len(calls) < 3:
            continue
        n += 1
        ok = all(strip_typed(e.args.get("where")) == FILTER for e in calls.values())
        ctx.ob("DARK-mps", "observables on the padded state", h.loc(), ok,
               "state, Hamiltonian and orthogonality centre are padded with the same filter" if ok else
               "extended_mps_factors / extended_mpo_factors / get_extended_site_index do not all receive "
               "self.well_prepared_qubits_filter")
        a = calls["extended_mps_factors"].args.get("mps_factors")
        b = calls["get_extended_site_index"].args.get("desired_index")
        okc = "normalized" in show(a) or ".norm()" in show(a)
        okd = "orthogonality_center" in show(b)
        ctx.ob("DARK-mps", "padded state content", h.loc(), okc and okd,
               "the padded state is the normalised state and keeps its orthogonality centre" if okc and okd else
               f"padded factors from {show(a)[:60]}, centre from {show(b)[:60]}")
        break
    ctx.require(n >= 1, "fill_results: dark-qubit branch not found")
    # initial state + dark qubits is refused
    i = K.methods["init_initial_state"]
    refused = False
    for p in it.run(i):
        if p.status == "raise" and any("well_prepared_qubits_filter is None" in show(c) and t is False for c, t in p.cond_log) \
                and any("initial_state is None" in show(c) and t is False for c, t in p.cond_log):
            refused = True
    ctx.ob("DARK-mps", "initial state with dark qubits refused", i.loc(), refused,
           "a user initial state together with badly prepared atoms raises" if refused else
           "a user initial state is accepted although atoms are filtered out (site counts would disagree)")


def sv_completeness(ctx) -> None:
    prog = ctx.prog
    K = prog.cls(SV)
    it = Interp(prog, K, inline=lambda c, r, d: False)
    f = K.methods["init_dark_qubits"]
    paths = [p for p in it.run(f) if p.status == "return"]
    dark = [p for p in paths if any(e.kind == "setattr" and e.name == "well_prepared_qubits_filter"
                                    and strip_typed(e.value) != ("const", None) for e in p.events)]
    ctx.require(dark, "SV init_dark_qubits: no path builds the mask")
    p = dark[0]
    st = [e for e in p.events if e.kind == "setattr" and e.name == "well_prepared_qubits_filter"][0]
    pol = _negated_bad(st.value)
    mask = st.value
    zero = {}
    for e in p.events:
        if e.kind == "setitem" and is_const(e.value, 0):
            b = strip_typed(e.target[0])
            if b[0] == "attr" and b[1] == SELF:
                idx = strip_typed(e.target[1])
                zero[b[2]] = idx[0] == "tuple" and len(idx[1]) == 2 and idx[1][0][0] == "slice" and canon(idx[1][1]) == canon(mask)
    ok = pol is False and zero.get("omega") is True
    gate_ok, gate_why = _gate_is_the_trajectorys(prog, K, p, st.value)
    ctx.ob("DARK-sv", "gate", f.loc(), gate_ok,
           "the dark-atom branch is taken when the sequence data that carries bad_atoms has state_prep_error > 0" if gate_ok else
           f"SVBackendImpl.init_dark_qubits: {gate_why}")
    ctx.ob("DARK-sv", "drive zeroed on bad atoms", st.loc(), ok,
           "omega of every badly prepared atom is set to 0 (mask = bad_atoms)" if ok else
           f"mask = {show(mask)[:60]} (bad atoms selected: {pol is False}); omega zeroed with it: {zero.get('omega')}")
    # the wrapped interaction matrix zeroes rows and columns of the bad atoms
    nested = [g for g in prog.funcs.values() if g.parent == f]
    ctx.require(len(nested) == 1, "SV init_dark_qubits: nested interaction_matrix wrapper not found")
    w = nested[0]
    itw = Interp(prog, None, inline=lambda c, r, d: False)
    pws = [q for q in itw.run(w) if q.status == "return"]
    ctx.require(pws, "SV init_dark_qubits: the wrapper has no returning path")
    rows = cols = cloned = True
    idx_terms: list = []
    tparam = ("param", w.qualname, w.params[0]) if w.params else None
    for pw in pws:
        r = c = cl = False
        for e in pw.events:
            if e.kind == "setitem" and is_const(e.value, 0):
                idx = strip_typed(e.target[1])
                if idx[0] == "tuple" and len(idx[1]) == 2:
                    if idx[1][1][0] == "slice" and idx[1][0][0] != "slice":
                        r = True
                        idx_terms.append(idx[1][0])
                    if idx[1][0][0] == "slice" and idx[1][1][0] != "slice":
                        c = True
                        idx_terms.append(idx[1][1])
                cl = cl or (strip_typed(e.target[0])[0] == "mcall" and strip_typed(e.target[0])[2] == "clone")
        rows, cols, cloned = rows and r, cols and c, cloned and cl
    # the index set used by the wrapper is a closure variable of init_dark_qubits: torch.where(mask)[0]
    okind = False
    for name, val in (p.frames[0].env.items() if p.frames else []):
        if "where(" in show(val) and canon(mask) in [canon(t) for t in walk(val)]:
            # the wrapper must index with exactly this closure variable
            okind = bool(idx_terms) and all(show(strip_typed(t)) == name for t in idx_terms)
    installed = any(e.kind == "setattr" and e.name == "interaction_matrix" and strip_typed(e.value)[0] == "localfunc" for e in p.events)
    # the callable the wrapper clones from is the backend's own interaction matrix, captured before it is replaced
    # (or the Pulser data's callable that the constructor stored there, reached through the same object)
    env0 = p.frames[0].env if p.frames else {}
    fd = field_defs(prog, K)

    def _same_object(attr_chain) -> bool:
        # self.<a>.interaction_matrix where __init__ sets self.<a> = X and self.interaction_matrix = X.interaction_matrix
        a = strip_typed(attr_chain)
        if not (a[0] == "attr" and strip_typed(a[1]) == SELF):
            return False
        holders = [strip_typed(v) for v, ev in fd.get(a[2], []) if ev.func.name == "__init__"]
        mats = [strip_typed(v) for v, ev in fd.get("interaction_matrix", []) if ev.func.name == "__init__"]
        return len(holders) == 1 and len(mats) == 1 and mats[0] == ("attr", holders[0], "interaction_matrix")

    fresh = True
    for pw in pws:
        rv = strip_typed(pw.retval) if pw.retval is not None else None
        fr = rv is not None and rv[0] == "mcall" and rv[2] == "clone"
        if fr:
            src_call = strip_typed(rv[1])
            if src_call[0] == "call" and isinstance(src_call[1], str) and env0.get(src_call[1]) is not None:
                fr = strip_typed(env0[src_call[1]]) == ("attr", SELF, "interaction_matrix") and \
                    [strip_typed(a) for a in src_call[2]] == [tparam]
            elif src_call[0] == "call" and isinstance(src_call[1], str) and src_call[1].split(".")[0] == "self" and \
                    len(src_call[1].split(".")) == 3 and src_call[1].split(".")[2] == "interaction_matrix":
                # `self` is a closure variable of the nested function: self.<holder>.interaction_matrix(t)
                fr = _same_object(("attr", SELF, src_call[1].split(".")[1])) and [strip_typed(a) for a in src_call[2]] == [tparam]
            else:
                fr = False
        fresh = fresh and fr
    ok = rows and cols and cloned and fresh and okind and installed
    ctx.ob("DARK-sv", "interactions removed", w.loc(), ok,
           "rows and columns of the bad atoms are zeroed on a clone of the matrix at every query time" if ok else
           f"wrapper: rows={rows}, cols={cols}, clone={cloned}, every call returns a fresh clone of original(t)={fresh}, indices from the mask={okind}, installed={installed}")
    # init_dark_qubits is called by the constructor, and initial_state + SPAM is refused
    init = K.methods["__init__"]
    called = any(isinstance(n, ast.Call) and isinstance(n.func, ast.Attribute) and n.func.attr == "init_dark_qubits"
                 for n in ast.walk(init.node))
    ctx.ob("DARK-sv", "constructor applies it", init.loc(), called,
           "SVBackendImpl.__init__ calls init_dark_qubits" if called else "init_dark_qubits is never called")


# -------------------------------------------------------------------- PHYSDIM
EXT = ["emu_mps.utils.extended_mps_factors", "emu_mps.utils.extended_mpo_factors"]


def physdim(ctx) -> None:
    prog = ctx.prog
    for q in EXT:
        f = prog.func(q)
        it = Interp(prog, None, inline=lambda c, r, d: False, loop_iters=(1,))
        paths = it.run(f)
        ctx.count("paths", len(paths))
        n = 0
        seen = set()
        for p in paths:
            for e in p.events:
                if e.kind == "call" and e.name in ("torch.zeros", "torch.ones", "torch.empty", "torch.eye", "torch.full") \
                        and len(e.pos) >= 3:
                    key = (e.lineno, e.node.col_offset)
                    if key in seen:
                        continue
                    seen.add(key)
                    n += 1
                    phys = e.pos[1:-1]
                    bad = [x for x in phys if strip_typed(x)[0] == "const"]
                    ok = not bad and all(_physdim_provenance(x, f) for x in phys)
                    ctx.ob("PHYSDIM", f"{f.name}|{util.akey(e.node, e.func, 60)}", e.loc(), ok,
                           "the dark factor takes its physical dimension from the neighbouring factors / dim" if ok else
                           f"the dark-atom factor is built with the literal physical dimension "
                           f"{[show(x) for x in phys]}: with leakage (3 levels) the padded state mixes 2- and 3-level "
                           f"sites and fill_results fails with 'All tensors should have the same physical dimension'",
                           entry=f.qualname)
        ctx.require(n >= 2, f"PHYSDIM: {n} factor constructions found in {f.name}, 2 confirmed by hand")
    # identity on every level for the MPO, ground state for the MPS
    f = prog.func(EXT[1])
    it = Interp(prog, None, inline=lambda c, r, d: False, loop_iters=(1,))
    lv_ok = True
    for p in it.run(f):
        diag = [e for e in p.events if e.kind == "setitem" and strip_typed(e.target[1])[0] == "tuple" and len(strip_typed(e.target[1])[1]) == 4]
        for e in diag:
            i1, i2 = strip_typed(e.target[1])[1][1], strip_typed(e.target[1])[1][2]
            if canon(i1) != canon(i2):
                lv_ok = False
    ctx.ob("PHYSDIM", "extended_mpo_factors identity", f.loc(), lv_ok,
           "the dark MPO factor is diagonal in the physical indices" if lv_ok else
           "the dark MPO factor writes off-diagonal physical entries")


def _physdim_provenance(t, f) -> bool:
    s = show(t)
    return ".shape[1]" in s or ".shape[2]" in s or s == "dim" or "len(" in s or "eigenstates" in s
