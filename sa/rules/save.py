"""SAVE (crash-safe autosave) and ENTRY/pickle pairing (resume) rules — DESIGN.md A.5, §5 C26/C27."""
from __future__ import annotations

import ast

from ..interp import Interp, SELF, Event, Path, contains, field_defs, show, strip_typed, walk
from ..model import AnalysisError
from . import util

IMPL = "emu_mps.mps_backend_impl.MPSBackendImpl"
BACKEND = "emu_mps.mps_backend.MPSBackend"

ABSENT, PARTIAL, OLD, NEW = "absent", "partial", "old", "new"
ATOMIC_MOVES = {"os.rename", "os.replace"}
NONATOMIC_COPIES = {"shutil.copy", "shutil.copyfile", "shutil.copy2", "shutil.move"}
REMOVES = {"os.remove", "os.unlink"}
READS = {"os.path.getsize", "os.path.exists", "os.path.isfile", "os.stat"}
FS_PREFIXES = ("os.", "shutil.", "pathlib.")
HARMLESS = {"os.getcwd", "os.path.getsize", "os.path.join", "pathlib.Path", "os.fspath", "os.path.exists",
            "os.path.isfile", "os.stat", "os.fsync", "os.path.basename", "os.path.dirname"}


def _pkey(t, advertised):
    """(base, suffix) for advertised[.with_suffix(s)]; None if the term is not a recognised path."""
    t = strip_typed(t)
    if t == advertised:
        return ("P", None)
    if t[0] == "mcall" and t[2] == "with_suffix" and strip_typed(t[1]) == advertised and len(t[3]) == 1 \
            and t[3][0][0] == "const":
        return ("P", t[3][0][1])
    if t[0] == "call" and t[1] in ("str", "pathlib.Path", "os.fspath") and len(t[2]) == 1:
        return _pkey(t[2][0], advertised)
    return None


def crash_safe(ctx) -> None:
    prog = ctx.prog
    K = prog.cls(IMPL)
    f = K.methods.get("save_simulation")
    ctx.require(f is not None, "save_simulation not found")
    it = Interp(prog, K, inline=lambda c, r, d: False)
    paths = [p for p in it.run(f) if p.status == "return"]
    ctx.count("paths", len(paths))
    # the advertised path: what resume() is told to open = self.autosave_file (possibly through a local alias)
    advertised = ("attr", SELF, "autosave_file")
    # every file the snapshot is written to is the advertised file or a sibling of it (`with_suffix`): same directory,
    # hence the same file system, hence the final rename is atomic.  A temporary file elsewhere (tempfile.gettempdir())
    # turns the move into copy-then-delete, which truncates the advertised file first.
    foreign = None
    for p in paths:
        for e in p.events:
            if e.kind == "with_enter":
                v = strip_typed(e.value)
                if v[0] == "call" and v[1] == "open" and v[2]:
                    mode = v[2][1][1] if len(v[2]) > 1 and v[2][1][0] == "const" else dict(v[3]).get("mode", ("const", "r"))[1]
                    if any(ch in str(mode) for ch in "wax+") and _pkey(v[2][0], advertised) is None:
                        foreign = f"open({show(v[2][0])[:70]}, {mode!r}) at line {e.lineno}"
            elif e.kind == "call" and (e.name in ATOMIC_MOVES or e.name in NONATOMIC_COPIES) and len(e.pos) >= 2:
                if _pkey(e.pos[1], advertised) == ("P", None) and _pkey(e.pos[0], advertised) is None:
                    foreign = f"{e.name}({show(e.pos[0])[:60]}, …) at line {e.lineno}"
    ctx.ob("SAVE-window", "the snapshot is written next to the advertised file", f.loc(), foreign is None,
           "the temporary snapshot is a sibling of the advertised autosave file (atomic rename possible)" if foreign is None else
           f"save_simulation uses {foreign}: the pending snapshot does not live next to the advertised file, so bringing it "
           f"into place across file systems is a copy that truncates the last good snapshot first", entry=f.qualname)
    if foreign is not None:
        return
    saving = 0
    for p in paths:
        fs_events = [e for e in p.events if _is_fs(e, advertised)]
        if not fs_events:
            continue  # the early-return path (not yet time to save)
        sigma = {("P", None): OLD}
        # infeasible under the premise "a previous autosave completed": the advertised file exists
        feasible = True
        for c, t in p.cond_log:
            c0 = strip_typed(c)
            if c0[0] == "mcall" and c0[2] in ("is_file", "exists") and _pkey(c0[1], advertised) == ("P", None) and t is False:
                feasible = False
        if not feasible:
            continue
        saving += 1
        trace = []
        violated = None
        open_target = None
        for e in p.events:
            step = _transfer(e, sigma, advertised)
            if step is None:
                continue
            trace.append(f"{step} ⇒ P:{sigma.get(('P', None), ABSENT)}")
            st = sigma.get(("P", None), ABSENT)
            if st not in (OLD, NEW) and violated is None:
                violated = (e, step, st)
        conds = "; ".join(f"{show(c)[:50]}={t}" for c, t in p.cond_log)
        final = sigma.get(("P", None), ABSENT)
        if violated is not None:
            e, step, st = violated
            ctx.ob("SAVE-window", f"save_simulation|{util.akey(e.node, e.func, 70)}", e.loc(), False,
                   f"after `{step}` the advertised autosave file is {st}: a crash at this point leaves no loadable "
                   f"snapshot under the advertised name (trace: {' | '.join(trace)})", entry=f.qualname, path=conds)
        else:
            ctx.ob("SAVE-window", f"save_simulation|path {conds[:80]}", f.loc(), True,
                   f"the advertised file is a complete snapshot after every file-system step ({' | '.join(trace)})",
                   entry=f.qualname, path=conds)
        ctx.ob("SAVE-final", f"save_simulation|final|{conds[:80]}", f.loc(), final == NEW,
               "on return the advertised file is the new snapshot" if final == NEW else
               f"on return the advertised file is {final}, not the snapshot just written", entry=f.qualname)
    ctx.require(saving >= 1, "SAVE: no feasible saving path found in save_simulation")
    # resume opens only the advertised path it was given
    B = prog.cls(BACKEND)
    r = B.methods.get("resume")
    ctx.require(r is not None, "MPSBackend.resume not found")
    it = Interp(prog, B, inline=lambda c, r_, d: False)
    opened = set()
    for p in it.run(r):
        for e in p.events:
            if e.kind == "call" and e.name == "open" and e.pos:
                t = strip_typed(e.pos[0])
                while t[0] == "call" and t[1] in ("pathlib.Path", "str", "os.fspath") and len(t[2]) == 1:
                    t = strip_typed(t[2][0])
                opened.add(show(t))
    okr = opened == {"autosave_file"}
    ctx.ob("SAVE-resume", "resume opens the advertised file", r.loc(), okr,
           "resume() reads exactly the file it is given" if okr else f"resume() opens {sorted(opened)}")
    # ... and does not touch the file system before the snapshot is loaded: the advertised file is the only complete
    # snapshot there is (a `.new` sibling left by a crash is partial by construction)
    FS_MUT = ("os.replace", "os.rename", "os.remove", "os.unlink", "shutil.move", "shutil.copy", "shutil.copyfile",
              "shutil.copy2", "shutil.rmtree")
    PATH_MUT = (".replace", ".rename", ".unlink", ".write_bytes", ".write_text", ".touch")
    early = []
    nload = 0
    for p in it.run(r):
        loads = [i for i, e in enumerate(p.events) if e.kind == "call" and e.name in ("pickle.load", "pickle.loads")]
        upto = loads[0] if loads else len(p.events)
        nload += bool(loads)
        for e in p.events[:upto]:
            if e.kind != "call":
                continue
            if e.name in FS_MUT or (e.name in PATH_MUT and e.recv is not None and "autosave_file" in show(e.recv)):
                early.append(f"{e.name}({', '.join(show(x)[:30] for x in e.pos)}) at line {e.lineno}")
            if e.name == "open":
                mode = strip_typed(e.pos[1]) if len(e.pos) > 1 else strip_typed(dict(e.kw).get("mode", ("const", "r")))
                if mode[0] != "const" or any(ch in str(mode[1]) for ch in "wax+"):
                    early.append(f"open(…, {show(mode)}) at line {e.lineno}")
    ctx.require(nload >= 1, "SAVE-resume: pickle.load not found in resume()")
    ctx.ob("SAVE-resume", "resume does not modify files before loading", r.loc(), not early,
           "nothing is renamed, removed or written before the snapshot is unpickled" if not early else
           f"resume() performs {early[0]} before loading: a partial `.new` file left by a crash (or any other file) can "
           f"replace the last complete snapshot, after which resuming fails on a truncated pickle")


def _is_fs(e: Event, advertised) -> bool:
    if e.kind == "with_enter":
        v = strip_typed(e.value)
        return v[0] == "call" and v[1] == "open"
    if e.kind == "call":
        if e.name.startswith(FS_PREFIXES) and e.name not in HARMLESS:
            return True
        if e.name in (".unlink", ".rename", ".replace", ".write_bytes", ".touch"):
            return True
    return False


def _transfer(e: Event, sigma: dict, advertised):
    """Apply one event to the abstract file system; returns a description or None if not a file-system event."""
    if e.kind == "with_enter":
        v = strip_typed(e.value)
        if v[0] == "call" and v[1] == "open":
            mode = None
            if len(v[2]) > 1 and v[2][1][0] == "const":
                mode = v[2][1][1]
            for k, val in v[3]:
                if k == "mode" and val[0] == "const":
                    mode = val[1]
            if mode and any(ch in mode for ch in "wax+"):
                key = _pkey(v[2][0], advertised)
                if key is None:
                    raise AnalysisError(f"SAVE: file opened for writing at {e.loc()} is not a recognised path: {show(v[2][0])}")
                sigma[key] = PARTIAL
                sigma[("open", key)] = True
                return f"open({_pn(key)}, {mode!r})"
        return None
    if e.kind == "with_exit":
        v = strip_typed(e.value)
        if v[0] == "call" and v[1] == "open":
            key = _pkey(v[2][0], advertised)
            if key is not None and sigma.pop(("open", key), False):
                sigma[key] = NEW
                return f"close({_pn(key)})"
        return None
    if e.kind != "call":
        return None
    n = e.name
    if n in ATOMIC_MOVES or n in NONATOMIC_COPIES:
        if len(e.pos) < 2:
            raise AnalysisError(f"SAVE: {n} with keyword arguments at {e.loc()}")
        a, b = _pkey(e.pos[0], advertised), _pkey(e.pos[1], advertised)
        if a is None or b is None:
            raise AnalysisError(f"SAVE: {n} on unrecognised paths at {e.loc()}: {show(e.pos[0])}, {show(e.pos[1])}")
        if n in ATOMIC_MOVES:
            sigma[b] = sigma.get(a, ABSENT)
            sigma[a] = ABSENT
        else:
            # not atomic: the destination is partially written before it is complete
            if b == ("P", None):
                sigma[b] = PARTIAL
                return f"{n}({_pn(a)}, {_pn(b)}) [non-atomic]"
            sigma[b] = sigma.get(a, ABSENT)
            if n == "shutil.move":
                sigma[a] = ABSENT
        return f"{n}({_pn(a)}, {_pn(b)})"
    if n in REMOVES or n == ".unlink":
        tgt = e.pos[0] if n in REMOVES else e.recv
        a = _pkey(tgt, advertised)
        if a is None:
            raise AnalysisError(f"SAVE: {n} on an unrecognised path at {e.loc()}: {show(tgt)}")
        sigma[a] = ABSENT
        return f"{n}({_pn(a)})"
    if n in (".rename", ".replace") and e.recv is not None:
        a, b = _pkey(e.recv, advertised), _pkey(e.pos[0], advertised) if e.pos else None
        if a is None or b is None:
            raise AnalysisError(f"SAVE: Path{n} on unrecognised paths at {e.loc()}")
        sigma[b] = sigma.get(a, ABSENT)
        sigma[a] = ABSENT
        return f"Path{n}({_pn(a)}, {_pn(b)})"
    if n.startswith(FS_PREFIXES) and n not in HARMLESS:
        raise AnalysisError(f"SAVE: unmodelled file-system call {n} at {e.loc()}")
    return None


def _pn(key) -> str:
    return "P" + (key[1] or "")


# ---------------------------------------------------------------- resume
def run_removes_autosave(ctx) -> None:
    prog = ctx.prog
    B = prog.cls(BACKEND)
    f = B.methods.get("_run")
    ctx.require(f is not None, "MPSBackend._run not found")
    it = Interp(prog, B, inline=lambda c, r, d: False)
    paths = [p for p in it.run(f) if p.status == "return"]
    ctx.require(paths, "_run: no returning path")
    bad = 0
    for p in paths:
        exists = None
        for c, t in p.cond_log:
            c0 = strip_typed(c)
            if c0[0] == "mcall" and c0[2] in ("is_file", "exists") and "autosave_file" in show(c0[1]):
                exists = t
        removed = any(e.kind == "call" and (e.name in REMOVES and e.pos and "autosave_file" in show(e.pos[0])
                                            or e.name == ".unlink" and "autosave_file" in show(e.recv))
                      for e in p.events)
        if not (removed or exists is False):
            bad += 1
    ctx.ob("ENTRY-cleanup", "_run removes the autosave file", f.loc(), bad == 0,
           "every normal return of _run has removed the autosave file if it existed" if bad == 0 else
           f"{bad} returning path(s) of _run leave the autosave file behind")
    # the loop runs until the driver is finished
    ret_ok = all(strip_typed(p.retval)[0] == "attr" and strip_typed(p.retval)[2] == "results" for p in paths)
    ctx.ob("ENTRY-cleanup", "_run returns impl.results", f.loc(), ret_ok,
           "_run returns the driver's results object" if ret_ok else "_run does not return impl.results")


def resume_rebinds_file(ctx) -> None:
    prog = ctx.prog
    B = prog.cls(BACKEND)
    r = B.methods["resume"]
    it = Interp(prog, B, inline=lambda c, r_, d: False)
    paths = [p for p in it.run(r) if p.status == "return"]
    ctx.require(paths, "resume: no returning path")
    ok = True
    for p in paths:
        st = [e for e in p.events if e.kind == "setattr" and e.name == "autosave_file"]
        if not st or "autosave_file" not in show(st[-1].value):
            ok = False
    ctx.ob("ENTRY-resume", "resume rebinds autosave_file", r.loc(), ok,
           "the resumed driver keeps saving to (and finally removes) the file it was resumed from" if ok else
           "resume() does not point impl.autosave_file at the file being resumed: later autosaves go elsewhere "
           "and the file is never removed")


def pickle_pairing(ctx) -> None:
    prog = ctx.prog
    K = prog.cls(IMPL)
    g, s = K.methods.get("__getstate__"), K.methods.get("__setstate__")
    ctx.require(g is not None and s is not None, "__getstate__/__setstate__ not found")
    it = Interp(prog, K, inline=lambda c, r, d: False)
    gp = [p for p in it.run(g) if p.status == "return"]
    sp = [p for p in it.run(s) if p.status == "return"]
    ctx.require(len(gp) == 1 and len(sp) == 1, "pickle hooks: expected straight-line code")
    transformed = {}
    unpatched = False
    for e in gp[0].events:
        if e.kind == "setitem":
            key = strip_typed(e.target[1])
            v = strip_typed(e.value)
            if key[0] == "const" and v[0] in ("mcall", "call") and "_to_abstract_repr" in show(v):
                transformed[key[1]] = e
        if e.kind == "setattr" and e.name == "apply":
            unpatched = True
    restored = {}
    repatched = False
    for e in sp[0].events:
        if e.kind == "setattr" and e.target[0] == SELF and "_from_abstract_repr" in show(e.value):
            restored[e.name] = e
        if e.kind == "call" and e.name.endswith("monkeypatch_observables"):
            repatched = True
    for k, e in transformed.items():
        ok = k in restored and f"['{k}']" in show(restored[k].value)
        ctx.ob("PICKLE-pairing", f"{k}", e.loc(), ok,
               f"d['{k}'] is serialised with _to_abstract_repr and restored with _from_abstract_repr(d['{k}'])"
               if ok else f"__getstate__ serialises '{k}' but __setstate__ does not restore it from d['{k}']")
    ctx.require(transformed, "PICKLE: no transformed entry found in __getstate__")
    ok = (not unpatched) or repatched
    ctx.ob("PICKLE-pairing", "observables", s.loc(), ok,
           "observables are un-patched for pickling and re-patched on load" if ok else
           "__getstate__ un-patches the observables' apply methods but __setstate__ does not call "
           "monkeypatch_observables: a resumed run would use Pulser's generic implementations")
    # state restored wholesale
    whole = any(e.kind == "setattr" and e.name == "__dict__" for e in sp[0].events)
    ctx.ob("PICKLE-pairing", "__dict__", s.loc(), whole,
           "__setstate__ restores the whole instance dictionary" if whole else
           "__setstate__ does not restore self.__dict__")
    # nothing is dropped from the saved dictionary, and nothing else is recomputed on load
    dropped = []
    for n in ast.walk(g.node):
        if isinstance(n, ast.Delete):
            dropped += [util.text(t, 50) for t in n.targets]
        elif isinstance(n, ast.Call) and isinstance(n.func, ast.Attribute) and n.func.attr in ("pop", "popitem", "clear") \
                and not n.func.attr.startswith("_"):
            dropped.append(util.text(n, 50))
    src = [e for e in gp[0].events if e.kind == "call" and e.name == ".copy" and strip_typed(e.recv) == ("attr", SELF, "__dict__")]
    ret_ok = bool(src) and strip_typed(gp[0].retval) == strip_typed(src[0].result)
    ctx.ob("PICKLE-whole", "__getstate__ saves every attribute", g.loc(), ret_ok and not dropped,
           "__getstate__ returns a copy of the whole __dict__ with no entry removed" if ret_ok and not dropped else
           ("__getstate__ removes " + ", ".join(dropped) if dropped else "__getstate__ does not return self.__dict__.copy()")
           + ": that part of the driver state is not in the autosave file, and what a resumed run uses instead is "
             "recomputed at load time, not the value the interrupted run had")
    extra = [e for e in sp[0].events if e.kind == "setattr" and e.target[0] == SELF and e.name != "__dict__"
             and e.name not in restored]
    ctx.ob("PICKLE-whole", "__setstate__ recomputes nothing", s.loc(), not extra,
           "__setstate__ sets only the entries __getstate__ transformed; every other attribute is the saved value"
           if not extra else
           f"__setstate__ recomputes self.{extra[0].name} = {show(extra[0].value)[:80]} instead of restoring the saved "
           f"value: the resumed run continues from a state the interrupted run never had")
    # class-level defaults are immutable (so all mutable driver state lives in __dict__)
    bad = []
    for C in [K] + prog.subclasses(K, strict=True):
        for name, (ann, val) in C.attrs.items():
            if val is None:
                continue
            if isinstance(val, (ast.List, ast.Dict, ast.Set, ast.ListComp, ast.DictComp)) or \
                    (isinstance(val, ast.Call) and util.text(val.func) in ("list", "dict", "set", "Counter", "deque")):
                bad.append(f"{C.name}.{name}")
    ctx.ob("PICKLE-pairing", "class defaults immutable", K.module.relpath + f":{K.node.lineno}", not bad,
           "class-level defaults of the drivers are immutable: all evolving state is in __dict__ and is pickled"
           if not bad else f"mutable class-level defaults {bad} are shared across instances and not pickled")


ENUM_BASES = {"Enum", "IntEnum", "StrEnum", "Flag", "IntFlag", "enum.Enum", "enum.IntEnum", "enum.StrEnum", "enum.Flag", "enum.IntFlag"}


def _is_enum_class(prog, K, seen=None) -> bool:
    seen = seen or set()
    if K is None or K.qualname in seen:
        return False
    seen.add(K.qualname)
    for q, expr in zip(K.bases + [None] * len(K.base_exprs), K.base_exprs):
        if (q in ENUM_BASES) or util.text(expr) in ENUM_BASES:
            return True
    return any(_is_enum_class(prog, prog.classes.get(q), seen) for q in K.bases)


def identity_tests_survive_pickling(ctx) -> None:
    """The driver object is pickled by the autosave and continued after unpickling.  An identity test (`is` / `is not`) on
    one of its fields keeps its meaning across that round trip only against None/True/False or a member of an Enum
    (members unpickle to the same singleton); a string, tuple or plain class attribute unpickles to a *new* object, so the
    test silently turns False after resume."""
    prog = ctx.prog
    root = prog.cls(IMPL)
    classes = [K for K in prog.classes.values() if K is root or root in prog.mro(K)]
    n = 0
    bad = []
    for K in classes:
        for m in K.methods.values():
            for node in util.walk_own(m.node):
                if not isinstance(node, ast.Compare):
                    continue
                operands = [node.left] + list(node.comparators)
                for k, op in enumerate(node.ops):
                    if not isinstance(op, (ast.Is, ast.IsNot)):
                        continue
                    a, b = operands[k], operands[k + 1]
                    if any(isinstance(x, ast.Constant) and (x.value is None or isinstance(x.value, bool) or x.value is Ellipsis) for x in (a, b)):
                        continue
                    touches_self = any(isinstance(x, ast.Attribute) and isinstance(x.value, ast.Name) and x.value.id == "self"
                                       for y in (a, b) for x in ast.walk(y))
                    if not touches_self:
                        continue
                    n += 1
                    ok = False
                    for x in (a, b):
                        if isinstance(x, ast.Attribute) and isinstance(x.value, ast.Name):
                            C = prog.classes.get(K.module.name + "." + x.value.id)
                            if C is None:
                                q = K.module.imports.get(x.value.id) if hasattr(K.module, "imports") else None
                                C = prog.classes.get(q) if q else None
                            if C is not None and _is_enum_class(prog, C):
                                ok = True
                    if not ok:
                        bad.append((m, node))
    # zero sites is a legitimate state of the code (all tests written with ==); the recogniser itself is exercised on a
    # tiny positive example on every run so that it cannot rot into matching nothing
    probe = ast.parse("class P:\n    def f(self):\n        return self.mode is Mode.A or self.x is None\n").body[0].body[0]
    hits = [c for c in ast.walk(probe) if isinstance(c, ast.Compare) and isinstance(c.ops[0], (ast.Is, ast.IsNot)) and
            not any(isinstance(x, ast.Constant) for x in [c.left] + c.comparators)]
    ctx.require(len(hits) == 1, "PICKLE-identity: self-test of the identity-test recogniser failed")
    ctx.count("identity tests on driver fields", n)
    ctx.ob("PICKLE-identity", "identity tests on pickled fields compare with singletons", f"{root.module.relpath}:{root.node.lineno}",
           not bad,
           f"{n} identity test(s) on fields of the pickled driver compare with Enum members (singletons after unpickling)" if not bad else
           f"{bad[0][0].qualname}: `{util.text(bad[0][1], 70)}` at line {bad[0][1].lineno} compares a field of the pickled driver by "
           f"identity with a value that is not a singleton after unpickling: true before the autosave, false after resume "
           f"(the resumed run takes the other branch)")
