"""JUMP — state-machine shape of the quantum-jump stepping (DESIGN.md A.4, §5 C18/C17)."""
from __future__ import annotations

import ast

from ..algebra import canon, is_const, linear_in, same
from ..interp import Interp, SELF, Event, Path, contains, show, strip_typed, walk
from ..model import AnalysisError
from . import util

NOISY = "emu_mps.mps_backend_impl.NoisyMPSBackendImpl"
CUR, TGT, GAP = ("attr", SELF, "current_time"), ("attr", SELF, "target_time"), ("attr", SELF, "norm_gap_before_jump")


def _classify(p: Path):
    finder_none = gap_neg = converged = None
    for c, t in p.cond_log:
        c0 = strip_typed(c)
        s = show(c0)
        if c0[0] == "cmp" and c0[1] == "is" and s.startswith("(self.root_finder is None"):
            finder_none = t
        elif c0[0] == "cmp" and c0[1] in ("<", ">=", ">", "<=") and "jump_threshold" in s and is_const(c0[3], 0):
            gap_neg = t if c0[1] == "<" else (not t if c0[1] == ">=" else None)
        elif c0[0] == "mcall" and c0[2].endswith("is_converged"):
            converged = t
    if finder_none is True and gap_neg is False:
        return "complete"
    if finder_none is True and gap_neg is True:
        return "start"
    if finder_none is False and converged is False:
        return "iterate"
    if finder_none is False and converged is True:
        return "jump"
    return None


def _crossing_test(ctx, K, f) -> bool:
    """The jump search starts exactly when the gap ‖ψ‖² − threshold has gone negative: the only comparison of the gap in
    sweep_complete is with 0.  A margin (`gap < -ε`) ignores a crossing that ends a step within ε below the threshold;
    the next step then starts a root search whose bracket does not change sign."""
    it = Interp(ctx.prog, K, inline=lambda c, r, d: False)
    bad = None
    n = 0
    for p in it.run(f):
        for c, t in p.cond_log:
            c0 = strip_typed(c)
            if c0[0] == "cmp" and c0[1] in ("<", ">=", ">", "<=") and ("norm_gap_before_jump" in show(c0) or "jump_threshold" in show(c0)):
                n += 1
                lhs_gap = "jump_threshold" in show(c0[2]) or "norm_gap" in show(c0[2])
                other = c0[3] if lhs_gap else c0[2]
                if not is_const(other, 0):
                    bad = show(c0)[:90]
                elif c0[1] in ("<=", ">") and lhs_gap:
                    pass   # gap <= 0 differs from gap < 0 on a set of measure zero only
    ctx.require(n >= 1, "JUMP: no comparison of the norm gap found in sweep_complete")
    ctx.ob("JUMP-path", "crossing test is gap < 0", f.loc(), bad is None,
           "the jump search starts exactly when ‖ψ‖² − threshold is negative" if bad is None else
           f"sweep_complete tests {bad} instead of `gap < 0`: a crossing that ends a step inside the margin is ignored, and "
           f"the search started in the next step gets a bracket without a sign change (the root finder asserts, the run aborts)",
           entry=f.qualname)
    return bad is None


def sweep_complete_paths(ctx) -> None:
    prog = ctx.prog
    K = prog.cls(NOISY)
    f = K.methods["sweep_complete"]
    if not _crossing_test(ctx, K, f):
        return

    def inline(callee, recv, depth):
        return False

    it = Interp(prog, K, inline=inline)
    paths = [p for p in it.run(f) if p.status == "return"]
    ctx.count("paths", len(paths))
    kinds = {}
    for p in paths:
        k = _classify(p)
        if k is None:
            raise AnalysisError("JUMP: a path of NoisyMPSBackendImpl.sweep_complete is not one of complete/start/"
                                f"iterate/jump: {[(show(c)[:50], t) for c, t in p.cond_log]}")
        kinds.setdefault(k, []).append(p)
    ctx.require(set(kinds) == {"complete", "start", "iterate", "jump"},
                f"JUMP: path kinds found {sorted(kinds)}")
    for k, ps in kinds.items():
        for p in ps:
            ev = p.events
            calls = [e.name.split(".")[-1] for e in ev if e.kind == "call"]
            stores = {e.name: e for e in ev if e.kind == "setattr" and e.target[0] == SELF}
            probs = []
            # common prefix: current_time <- target_time; gap recomputed from the current norm
            ct = [e for e in ev if e.kind == "setattr" and e.name == "current_time"]
            if not (len(ct) == 1 and strip_typed(ct[0].value) == TGT):
                probs.append("current_time is not set once from target_time")
            gp = [e for e in ev if e.kind == "setattr" and e.name == "norm_gap_before_jump"]
            if not gp or not all("state.norm().item()" in show(e.value).replace("self.", "") and "jump_threshold" in show(e.value)
                                 for e in gp):
                probs.append("norm_gap_before_jump is not recomputed as ‖ψ‖² − jump_threshold")
            n_ts = calls.count("timestep_complete")
            n_jump = calls.count("do_random_quantum_jump")
            tgt = [e for e in ev if e.kind == "setattr" and e.name == "target_time"]
            rf = [e for e in ev if e.kind == "setattr" and e.name == "root_finder"]
            if k == "complete":
                if n_ts != 1 or n_jump or tgt or rf:
                    probs.append(f"expected exactly timestep_complete(); found timestep_complete×{n_ts}, jump×{n_jump}, "
                                 f"target_time stores×{len(tgt)}, root_finder stores×{len(rf)}")
            elif k == "start":
                new = [e for e in ev if e.kind == "call" and e.name.endswith("BrentsRootFinder")]
                if n_ts or n_jump or len(new) != 1:
                    probs.append(f"expected one BrentsRootFinder(...) and no step completion; found finder×{len(new)}, "
                                 f"timestep_complete×{n_ts}")
                else:
                    a = new[0].args
                    want = {"start": CUR, "end": TGT, "f_start": GAP}
                    for name, w in want.items():
                        if strip_typed(a.get(name)) != w:
                            probs.append(f"BrentsRootFinder({name}={show(a.get(name))[:40]}) should be the "
                                         f"{'previous' if name != 'end' else 'new'} {show(w)}")
                    if gp and canon(a.get("f_end")) != canon(gp[-1].value):
                        probs.append("f_end is not the newly computed gap")
                if not (len(tgt) == 1 and strip_typed(tgt[0].value)[0] == "mcall" and strip_typed(tgt[0].value)[2].endswith("get_next_abscissa")):
                    probs.append("target_time is not set to the root finder's next abscissa")
            elif k == "iterate":
                po = [e for e in ev if e.kind == "call" and e.name.endswith("provide_ordinate")]
                if len(po) != 1 or n_ts or n_jump:
                    probs.append(f"expected one provide_ordinate and no completion; provide_ordinate×{len(po)}, "
                                 f"timestep_complete×{n_ts}, jump×{n_jump}")
                else:
                    a = po[0].args
                    if strip_typed(a.get("abscissa")) != TGT or (gp and canon(a.get("ordinate")) != canon(gp[-1].value)):
                        probs.append("provide_ordinate is not given (current time, current gap)")
                if not (len(tgt) == 1 and "get_next_abscissa" in show(tgt[0].value)):
                    probs.append("target_time is not set to the next abscissa")
                if rf:
                    probs.append("root_finder is reassigned while iterating")
            elif k == "jump":
                po = [e for e in ev if e.kind == "call" and e.name.endswith("provide_ordinate")]
                if len(po) != 1 or n_jump != 1 or n_ts:
                    probs.append(f"expected provide_ordinate, one do_random_quantum_jump, no completion; found "
                                 f"provide_ordinate×{len(po)}, jump×{n_jump}, timestep_complete×{n_ts}")
                okt = len(tgt) == 1 and strip_typed(tgt[0].value)[0] == "sub" and \
                    same(strip_typed(tgt[0].value)[2], ("bin", "Add", ("attr", SELF, "_timestep_index"), ("const", 1))) and \
                    strip_typed(strip_typed(tgt[0].value)[1]) == ("attr", SELF, "target_times")
                if not okt:
                    probs.append("after a jump target_time is not reset to target_times[_timestep_index + 1]")
                if not (len(rf) == 1 and strip_typed(rf[0].value) == ("const", None)):
                    probs.append("root_finder is not cleared after the jump")
            conds = "; ".join(f"{show(c)[:40]}={t}" for c, t in p.cond_log)
            ctx.ob("JUMP-path", f"sweep_complete|{k}", f.loc(), not probs,
                   {"complete": "no jump pending and norm above threshold: the step completes exactly once",
                    "start": "norm fell below the threshold: root finding starts on [previous time, current time] with "
                             "the two gaps; the driver re-targets the finder's abscissa",
                    "iterate": "root finding continues: ordinate fed back at the current time, next abscissa targeted",
                    "jump": "root located (tolerance 1 ns): one random jump, then the step's end is targeted again and "
                            "the finder cleared"}[k] if not probs else
                   f"{k} path [{conds}]: " + "; ".join(probs), entry=f.qualname)
    # tolerance of the root location
    tol_ok = eps_ok = False
    for p in paths:
        for e in p.events:
            if e.kind == "call" and e.name.endswith("is_converged"):
                tol_ok = is_const(e.args.get("tolerance"), 1)
            if e.kind == "call" and e.name.endswith("BrentsRootFinder"):
                eps_ok = is_const(e.args.get("epsilon"), 1)
    ctx.ob("JUMP-path", "root tolerance", f.loc(), tol_ok and eps_ok,
           "the jump time is located to 1 ns (epsilon=1, tolerance=1)" if tol_ok and eps_ok else
           f"root-finder tolerances changed (is_converged tolerance ok={tol_ok}, epsilon ok={eps_ok})")


def noisy_timestep(ctx) -> None:
    """Noisy.timestep_complete: observables see the Hermitian Hamiltonian (noise term zero), the next step the noisy one."""
    prog = ctx.prog
    K = prog.cls(NOISY)
    f = K.methods["timestep_complete"]
    it = Interp(prog, K, max_depth=8)
    n = 0
    for p in it.run(f):
        if p.status != "return":
            continue
        ev = p.events
        upd = [e for e in ev if e.kind == "call" and e.name == "emu_mps.hamiltonian.update_H"]
        fills = [e for e in ev if e.kind == "call" and e.name.endswith(".fill_results")]
        if not upd or not fills:
            continue
        n += 1
        first = upd[0]
        nz = strip_typed(first.args.get("noise"))
        zero = nz[0] == "call" and nz[1] == "torch.zeros" and "dim" in show(nz)
        ok = zero and ev.index(first) < ev.index(fills[0])
        ctx.ob("ROLE-noise", "observables see the Hermitian Hamiltonian", first.loc(), ok,
               "update_H(noise=0) ≺ fill_results: energy observables are evaluated without the −i/2 ΣL†L term" if ok else
               "in the noisy driver fill_results is not preceded by update_H with a zero noise term: energies would "
               "include the non-Hermitian decay term", entry=f.qualname)
        finished = any(strip_typed(c)[0] == "cmp" and "timestep_count" in show(c) and t is False for c, t in p.cond_log)
        if finished and len(upd) >= 2:
            last = strip_typed(upd[-1].args.get("noise"))
            okl = last == ("attr", SELF, "lindblad_noise")
            ctx.ob("ROLE-noise", "next step evolves with the noise term", upd[-1].loc(), okl,
                   "the Hamiltonian of the next step carries lindblad_noise again" if okl else
                   f"after the observables the next step's Hamiltonian has noise={show(last)[:50]}", entry=f.qualname)
    ctx.require(n >= 1, "noisy timestep_complete: no path with update_H and fill_results")
    # set_jump_threshold: uniform in [0, bound], gap = ‖ψ‖² − threshold
    g = K.methods["set_jump_threshold"]
    itg = Interp(prog, K, inline=lambda c, r, d: False)
    p = [q for q in itg.run(g) if q.status == "return"][0]
    jt = p.heap.get((SELF, "jump_threshold"))
    okj = jt is not None and strip_typed(jt)[0] == "call" and strip_typed(jt)[1] == "random.uniform" and \
        is_const(strip_typed(jt)[2][0], 0.0) and strip_typed(strip_typed(jt)[2][1])[0] == "param"
    gap = p.heap.get((SELF, "norm_gap_before_jump"))
    okg = gap is not None and "norm().item()" in show(gap) and strip_typed(gap)[0] == "bin" and strip_typed(gap)[1] == "Sub" \
        and canon(strip_typed(gap)[3]) == canon(jt)
    ctx.ob("ROLE-noise", "jump threshold", g.loc(), okj and okg,
           "threshold ~ U(0, bound), gap = ‖ψ‖² − threshold" if okj and okg else
           f"jump_threshold={show(jt)[:50] if jt else None}, gap={show(gap)[:60] if gap else None}")
