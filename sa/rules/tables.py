"""TABLES — operator-symbol tables and amplitude-string index maps agree across MPS/MPO/StateVector/
DenseOperator/SparseOperator (DESIGN.md §5 C11/C12).  Entries are evaluated literally."""
from __future__ import annotations

import ast

from ..model import AnalysisError, dotted
from . import util

LEVEL = {"g": 0, "0": 0, "r": 1, "1": 1, "x": 2}


def _tensor_literal(node):
    """nested list literal inside torch.tensor(<literal>, ...)[.view(...)|.to_sparse_coo()]"""
    n = node
    while isinstance(n, ast.Call) and isinstance(n.func, ast.Attribute) and n.func.attr in ("view", "to_sparse_coo", "reshape", "to"):
        n = n.func.value
    if isinstance(n, ast.Call) and dotted(n.func) == "torch.tensor" and n.args:
        try:
            return ast.literal_eval(n.args[0])
        except Exception:
            return None
    return None


def _flatten2(lit):
    """Drop singleton outer/inner nesting so that a (1, d, 1)-shaped column or a d x d matrix is returned."""
    return lit


def _symbol_tables(func) -> list[dict]:
    out = []
    for n in ast.walk(func.node):
        if isinstance(n, ast.Dict) and n.keys and all(isinstance(k, ast.Constant) and isinstance(k.value, str) and len(k.value) == 2
                                                      for k in n.keys):
            out.append({k.value: v for k, v in zip(n.keys, n.values)})
    return out


def _check_table(ctx, rule, owner, func, table: dict) -> dict:
    levels = sorted({LEVEL[c] for key in table for c in key if c in LEVEL})
    dim = len(levels)
    decoded = {}
    for key, node in table.items():
        lit = _tensor_literal(node)
        a, b = key[0], key[1]
        where = func.loc(node)
        if lit is None or a not in LEVEL or b not in LEVEL:
            raise AnalysisError(f"TABLES: entry {key!r} of {owner} at {where} is not a literal tensor")
        rows = len(lit)
        cols = len(lit[0]) if rows else 0
        nz = [(i, j, lit[i][j]) for i in range(rows) for j in range(cols) if lit[i][j] != 0]
        ok = rows == cols == dim and nz == [(LEVEL[a], LEVEL[b], 1.0)]
        decoded[key] = tuple(tuple(r) for r in lit)
        ctx.ob(rule, f"{owner}|{key}|dim{dim}", where, ok,
               f"'{key}' = |{a}><{b}| has its single 1 at [{LEVEL[a]}, {LEVEL[b]}] of a {dim}×{dim} matrix" if ok else
               f"{owner}: operator symbol '{key}' (|{a}><{b}|) is the {rows}×{cols} matrix with non-zeros {nz}; in the "
               f"internal basis (g,r[,x]) = (0,1[,2]) it must be the single 1 at [{LEVEL[a]}, {LEVEL[b]}]")
    return decoded


def mps_tables(ctx) -> dict:
    prog = ctx.prog
    f = prog.func("emu_mps.mpo.MPO._from_operator_repr")
    tabs = _symbol_tables(f)
    ctx.require(len(tabs) == 3, f"TABLES: {len(tabs)} operator tables in MPO._from_operator_repr, 3 confirmed by hand")
    dec = {}
    for t in tabs:
        basis = "".join(sorted({c for k in t for c in k}))
        dec[basis] = _check_table(ctx, "TABLES-mpo", f"MPO[{basis}]", f, t)
        dim = len(basis)
        complete = len(t) == dim * dim
        ctx.ob("TABLES-mpo", f"MPO[{basis}]|complete", f.loc(), complete,
               f"all {dim * dim} symbols of the {basis} basis are defined" if complete else
               f"the {basis} table defines {len(t)} of {dim * dim} symbols")
    # state amplitudes: character -> basis vector index
    g = prog.func("emu_mps.mps.MPS._from_state_amplitudes")
    vecs = {}
    for n in ast.walk(g.node):
        if isinstance(n, ast.Assign) and isinstance(n.targets[0], ast.Name) and n.targets[0].id.startswith("basis_"):
            lit = _tensor_literal(n.value)
            if lit is not None:
                col = [row[0] for row in lit[0]]
                vecs.setdefault(n.targets[0].id, []).append((len(col), col.index(1.0) if 1.0 in col else None, n))
    want = {"basis_0": 0, "basis_1": 1, "basis_x": 2}
    for name, lst in vecs.items():
        for dim, pos, node in lst:
            ok = pos == want.get(name)
            ctx.ob("TABLES-mps", f"MPS amplitudes|{name}|dim{dim}", g.loc(node), ok,
                   f"{name} is the unit vector of level {want.get(name)}" if ok else
                   f"{name} has its 1 at position {pos}, expected {want.get(name)}")
    ctx.require(len(vecs) == 3, f"TABLES: basis vectors found in MPS._from_state_amplitudes: {sorted(vecs)}")
    # the character dispatch: one -> basis_1, leak -> basis_x, else basis_0
    chain = None
    for n in ast.walk(g.node):
        if isinstance(n, ast.If) and isinstance(n.test, ast.Compare) and util.text(n.test.left) == "ch":
            chain = n
            break
    okc = False
    if chain is not None:
        t1 = util.text(chain.test) == "ch == one" and "basis_1" in util.text(chain.body[0])
        el = chain.orelse[0] if chain.orelse and isinstance(chain.orelse[0], ast.If) else None
        t2 = el is not None and util.text(el.test) == "ch == leak" and "basis_x" in util.text(el.body[0])
        t3 = el is not None and el.orelse and "basis_0" in util.text(el.orelse[0])
        okc = bool(t1 and t2 and t3)
    ones = sorted({n.value.value for n in ast.walk(g.node) if isinstance(n, ast.Assign) and isinstance(n.targets[0], ast.Name)
                   and n.targets[0].id == "one" and isinstance(n.value, ast.Constant)})
    ctx.ob("TABLES-mps", "MPS amplitudes|character map", g.loc(), okc and ones == ["1", "r"],
           "amplitude strings: 'r'/'1' → level 1, 'x' → level 2, anything else → level 0" if okc and ones == ["1", "r"] else
           f"the character dispatch of MPS._from_state_amplitudes changed (one ∈ {ones}, chain ok={okc})")
    # MPS.make ground state
    m = prog.func("emu_mps.mps.MPS.make")
    gs = []
    for n in ast.walk(m.node):
        lit = _tensor_literal(n) if isinstance(n, ast.Call) else None
        if lit is not None:
            col = [row[0] for row in lit[0]]
            gs.append(col.index(1.0) == 0 and col.count(0.0) == len(col) - 1)
    ctx.ob("TABLES-mps", "MPS.make ground state", m.loc(), len(gs) == 2 and all(gs),
           "MPS.make puts every site in level 0 (g)" if len(gs) == 2 and all(gs) else "MPS.make no longer builds |g…g>")
    return dec


def sv_tables(ctx, mpo_dec: dict | None = None) -> None:
    prog = ctx.prog
    decs = {}
    for q, owner in (("emu_sv.dense_operator.DenseOperator._from_operator_repr", "DenseOperator"),
                     ("emu_sv.sparse_operator.SparseOperator._from_operator_repr", "SparseOperator")):
        f = prog.func(q)
        tabs = _symbol_tables(f)
        ctx.require(len(tabs) == 1, f"TABLES: {len(tabs)} operator tables in {owner}._from_operator_repr")
        decs[owner] = _check_table(ctx, "TABLES-sv", owner, f, tabs[0])
        ctx.ob("TABLES-sv", f"{owner}|complete", f.loc(), len(tabs[0]) == 4,
               "gg, gr, rg, rr are defined" if len(tabs[0]) == 4 else f"{owner} defines {sorted(tabs[0])}")
    same = decs["DenseOperator"] == decs["SparseOperator"]
    ctx.ob("TABLES-sv", "dense = sparse", prog.func("emu_sv.sparse_operator.SparseOperator._from_operator_repr").loc(), same,
           "dense and sparse operator symbol tables are key-for-key equal" if same else
           "the dense and sparse operator symbol tables differ")
    if mpo_dec is not None and "gr" in mpo_dec:
        agree = all(decs["DenseOperator"].get(k) == v for k, v in mpo_dec["gr"].items())
        ctx.ob("TABLES-sv", "sv = mps tables", prog.func("emu_mps.mpo.MPO._from_operator_repr").loc(), agree,
               "emu-sv and emu-mps use the same matrices for gg/gr/rg/rr" if agree else
               "emu-sv and emu-mps disagree on the matrices of the operator symbols")
    # amplitude strings of StateVector: one -> '1', 'g' -> '0', most significant first
    s = prog.func("emu_sv.state_vector.StateVector._from_state_amplitudes")
    txt = None
    for n in ast.walk(s.node):
        if isinstance(n, ast.Call) and dotted(n.func) == "int" and len(n.args) == 2:
            txt = util.text(n)
    ones = sorted({n.value.value for n in ast.walk(s.node) if isinstance(n, ast.Assign) and isinstance(n.targets[0], ast.Name)
                   and n.targets[0].id == "one" and isinstance(n.value, ast.Constant)})
    ok = txt is not None and txt.replace('"', "'") == "int(state.replace(one, '1').replace('g', '0'), 2)" and ones == ["r"]
    ctx.ob("TABLES-sv", "StateVector amplitudes", s.loc(), ok,
           "amplitude string → basis index: 'r' ↦ bit 1, 'g' ↦ bit 0, first atom most significant" if ok else
           f"the amplitude-string decoding changed: {txt}, one ∈ {ones}")
    st = [n for n in ast.walk(s.node) if isinstance(n, ast.Assign) and isinstance(n.targets[0], ast.Subscript)
          and "accum_state.data" in util.text(n.targets[0])]
    oka = len(st) == 1 and util.text(st[0].value) == "amplitude" and "bin_to_int" in util.text(st[0].targets[0])
    ctx.ob("TABLES-sv", "StateVector amplitude store", s.loc(), oka,
           "each amplitude is stored at the index of its string" if oka else "amplitudes are not stored at data[index(string)]")
    # index_to_bitstring is the inverse convention (checked under C15 too)
    u = prog.func("emu_sv.utils.index_to_bitstring")
    fmt = any(isinstance(n, ast.Call) and util.text(n.func) == "format" and util.text(n.args[0]) == "index" for n in ast.walk(u.node))
    ctx.ob("TABLES-sv", "index_to_bitstring", u.loc(), fmt, "index → zero-padded binary, MSB first" if fmt else
           "index_to_bitstring changed")
