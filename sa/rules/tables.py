"""TABLES — operator-symbol tables and amplitude-string index maps agree across MPS/MPO/StateVector/
DenseOperator/SparseOperator (DESIGN.md §5 C11/C12).  Entries are evaluated literally."""
from __future__ import annotations

import ast

from ..model import AnalysisError, dotted
from . import util

LEVEL = {"g": 0, "0": 0, "r": 1, "1": 1, "x": 2}


def _tensor_literal(node):
    """nested list literal inside torch.tensor(<literal>, ...)[.view(...)|.to_sparse_coo()]"""
    n = node
    while isinstance(n, ast.Call) and isinstance(n.func, ast.Attribute) and n.func.attr in ("view", "to_sparse_coo", "reshape", "to"):
        n = n.func.value
    if isinstance(n, ast.Call) and dotted(n.func) == "torch.tensor" and n.args:
        try:
            return ast.literal_eval(n.args[0])
        except Exception:
            return None
    return None


def _flatten2(lit):
    """Drop singleton outer/inner nesting so that a (1, d, 1)-shaped column or a d x d matrix is returned."""
    return lit


def _symbol_tables(func) -> list[dict]:
    out = []
    for n in ast.walk(func.node):
        if isinstance(n, ast.Dict) and n.keys and all(isinstance(k, ast.Constant) and isinstance(k.value, str) and len(k.value) == 2
                                                      for k in n.keys):
            out.append({k.value: v for k, v in zip(n.keys, n.values)})
    return out


def _check_table(ctx, rule, owner, func, table: dict) -> dict:
    levels = sorted({LEVEL[c] for key in table for c in key if c in LEVEL})
    dim = len(levels)
    decoded = {}
    for key, node in table.items():
        lit = _tensor_literal(node)
        a, b = key[0], key[1]
        where = func.loc(node)
        if lit is None or a not in LEVEL or b not in LEVEL:
            raise AnalysisError(f"TABLES: entry {key!r} of {owner} at {where} is not a literal tensor")
        rows = len(lit)
        cols = len(lit[0]) if rows else 0
        nz = [(i, j, lit[i][j]) for i in range(rows) for j in range(cols) if lit[i][j] != 0]
        ok = rows == cols == dim and nz == [(LEVEL[a], LEVEL[b], 1.0)]
        decoded[key] = tuple(tuple(r) for r in lit)
        ctx.ob(rule, f"{owner}|{key}|dim{dim}", where, ok,
               f"'{key}' = |{a}><{b}| has its single 1 at [{LEVEL[a]}, {LEVEL[b]}] of a {dim}×{dim} matrix" if ok else
               f"{owner}: operator symbol '{key}' (|{a}><{b}|) is the {rows}×{cols} matrix with non-zeros {nz}; in the "
               f"internal basis (g,r[,x]) = (0,1[,2]) it must be the single 1 at [{LEVEL[a]}, {LEVEL[b]}]")
    return decoded


def mps_tables(ctx) -> dict:
    prog = ctx.prog
    f = prog.func("emu_mps.mpo.MPO._from_operator_repr")
    tabs = _symbol_tables(f)
    ctx.require(len(tabs) == 3, f"TABLES: {len(tabs)} operator tables in MPO._from_operator_repr, 3 confirmed by hand")
    dec = {}
    for t in tabs:
        basis = "".join(sorted({c for k in t for c in k}))
        dec[basis] = _check_table(ctx, "TABLES-mpo", f"MPO[{basis}]", f, t)
        dim = len(basis)
        complete = len(t) == dim * dim
        ctx.ob("TABLES-mpo", f"MPO[{basis}]|complete", f.loc(), complete,
               f"all {dim * dim} symbols of the {basis} basis are defined" if complete else
               f"the {basis} table defines {len(t)} of {dim * dim} symbols")
    # state amplitudes: character -> basis vector index, read off the paths of the per-character dispatch
    g = prog.func("emu_mps.mps.MPS._from_state_amplitudes")
    from ..interp import Interp, show, strip_typed, walk
    it = Interp(prog, g.cls, inline=lambda c, r, d: False, loop_iters=(1,), max_paths=20000)
    table = {}       # (basis size, character class) -> level of the appended unit vector
    bad_vec = []
    for p in it.run(g):
        if p.status != "return":
            continue
        apps = [e for e in p.events if e.kind == "call" and e.name == ".append" and e.pos]
        if not apps:
            continue
        v = strip_typed(apps[-1].pos[0])
        level = _unit_vector_level(v)
        if level is None:
            if v[0] == "ext":
                continue  # a name unbound on this (infeasible) combination of basis size and character class
            bad_vec.append(show(v)[:60])
            continue
        dim = level[0]
        # which character class does this path handle: the decided comparisons of the loop character
        cls = "other"
        for c, t in p.cond_log:
            c0 = strip_typed(c)
            if c0[0] == "cmp" and c0[1] == "==" and strip_typed(c0[2])[0] == "elem" and c0[3][0] == "const" and t:
                cls = c0[3][1]
        if cls == "":
            continue  # `ch == ""` can never hold for a character of a string (leak = "" in 2-level bases)
        table.setdefault((dim, cls), set()).add(level[1])
    want = {}
    for (dim, cls), lv in table.items():
        exp = {"r": 1, "1": 1, "x": 2}.get(cls, 0)
        ok = lv == {exp}
        ctx.ob("TABLES-mps", f"MPS amplitudes|dim{dim}|'{cls}'", g.loc(), ok,
               f"character {cls!r} ↦ unit vector of level {exp} (dim {dim})" if ok else
               f"in a {dim}-level basis the character class {cls!r} is mapped to level(s) {sorted(lv)}, expected {exp}")
    ctx.require(not bad_vec, f"TABLES: appended site tensors are not literal unit vectors: {bad_vec[:2]}")
    classes = {cls for (_, cls) in table}
    ctx.ob("TABLES-mps", "MPS amplitudes|character classes", g.loc(), {"r", "1", "x", "other"} <= classes,
           "amplitude strings: 'r'/'1' → level 1, 'x' → level 2, anything else → level 0" if {"r", "1", "x", "other"} <= classes
           else f"character classes dispatched: {sorted(classes)} (expected r, 1, x and the default)")
    # MPS.make ground state
    m = prog.func("emu_mps.mps.MPS.make")
    gs = []
    for n in ast.walk(m.node):
        lit = _tensor_literal(n) if isinstance(n, ast.Call) else None
        if lit is not None:
            col = [row[0] for row in lit[0]]
            gs.append(col.index(1.0) == 0 and col.count(0.0) == len(col) - 1)
    ctx.ob("TABLES-mps", "MPS.make ground state", m.loc(), len(gs) == 2 and all(gs),
           "MPS.make puts every site in level 0 (g)" if len(gs) == 2 and all(gs) else "MPS.make no longer builds |g…g>")
    return dec


def sv_tables(ctx, mpo_dec: dict | None = None) -> None:
    prog = ctx.prog
    decs = {}
    for q, owner in (("emu_sv.dense_operator.DenseOperator._from_operator_repr", "DenseOperator"),
                     ("emu_sv.sparse_operator.SparseOperator._from_operator_repr", "SparseOperator")):
        f = prog.func(q)
        tabs = _symbol_tables(f)
        ctx.require(len(tabs) == 1, f"TABLES: {len(tabs)} operator tables in {owner}._from_operator_repr")
        decs[owner] = _check_table(ctx, "TABLES-sv", owner, f, tabs[0])
        ctx.ob("TABLES-sv", f"{owner}|complete", f.loc(), len(tabs[0]) == 4,
               "gg, gr, rg, rr are defined" if len(tabs[0]) == 4 else f"{owner} defines {sorted(tabs[0])}")
    same = decs["DenseOperator"] == decs["SparseOperator"]
    ctx.ob("TABLES-sv", "dense = sparse", prog.func("emu_sv.sparse_operator.SparseOperator._from_operator_repr").loc(), same,
           "dense and sparse operator symbol tables are key-for-key equal" if same else
           "the dense and sparse operator symbol tables differ")
    if mpo_dec is not None and "gr" in mpo_dec:
        agree = all(decs["DenseOperator"].get(k) == v for k, v in mpo_dec["gr"].items())
        ctx.ob("TABLES-sv", "sv = mps tables", prog.func("emu_mps.mpo.MPO._from_operator_repr").loc(), agree,
               "emu-sv and emu-mps use the same matrices for gg/gr/rg/rr" if agree else
               "emu-sv and emu-mps disagree on the matrices of the operator symbols")
    # amplitude strings of StateVector: 'r' -> '1', 'g' -> '0', int(..., 2): most significant first
    from ..interp import Interp, show, strip_typed, walk
    s = prog.func("emu_sv.state_vector.StateVector._from_state_amplitudes")
    its = Interp(prog, s.cls, inline=lambda c, r, d: False, loop_iters=(1,))
    ok = oka = False
    seen = None
    for p in its.run(s):
        if p.status != "return":
            continue
        for e in p.events:
            if e.kind == "setitem" and ".data" in show(e.target[0]):
                idx = strip_typed(e.target[1])
                seen = show(idx)
                if idx[0] == "call" and idx[1] == "int" and len(idx[2]) == 2 and idx[2][1] == ("const", 2):
                    a0 = strip_typed(idx[2][0])
                    # elem.replace('r','1').replace('g','0') in either order
                    reps = []
                    cur = a0
                    while cur[0] == "mcall" and cur[2] == "replace" and len(cur[3]) == 2:
                        reps.append((strip_typed(cur[3][0]), strip_typed(cur[3][1])))
                        cur = strip_typed(cur[1])
                    base_ok = cur[0] == "unpack" or cur[0] == "elem"
                    ok = base_ok and sorted(reps) == sorted([(("const", "r"), ("const", "1")), (("const", "g"), ("const", "0"))])
                v = strip_typed(e.value)
                oka = v[0] in ("unpack", "elem") and "amplitudes" in show(v)
    ctx.ob("TABLES-sv", "StateVector amplitudes", s.loc(), ok,
           "amplitude string → basis index: 'r' ↦ bit 1, 'g' ↦ bit 0, first atom most significant" if ok else
           f"the amplitude-string decoding changed: data[{seen}]")
    ctx.ob("TABLES-sv", "StateVector amplitude store", s.loc(), oka,
           "each amplitude is stored at the index of its string" if oka else "amplitudes are not stored at data[index(string)]")
    # index_to_bitstring is the inverse convention (checked under C15 too)
    u = prog.func("emu_sv.utils.index_to_bitstring")
    fmt = util.formats_index_as_padded_binary(u)
    ctx.ob("TABLES-sv", "index_to_bitstring", u.loc(), fmt, "index → zero-padded binary, MSB first" if fmt else
           "index_to_bitstring changed")


def _unit_vector_level(t):
    """(dim, level) if the term is torch.tensor([[[a], [b], ...]]) with a single 1, else None."""
    from ..interp import strip_typed
    t = strip_typed(t)
    if t[0] == "call" and t[1] == "torch.tensor" and t[2]:
        lit = _term_literal(t[2][0])
        try:
            col = [row[0] for row in lit[0]]
        except Exception:
            return None
        if col.count(1.0) == 1 and all(x in (0.0, 1.0) for x in col):
            return (len(col), col.index(1.0))
    return None


def _term_literal(t):
    from ..interp import strip_typed
    t = strip_typed(t)
    if t[0] == "const":
        return t[1]
    if t[0] in ("list", "tuple"):
        return [_term_literal(x) for x in t[1]]
    raise ValueError("not a literal")


OPREPR = [("emu_sv.dense_operator.DenseOperator._from_operator_repr", "DenseOperator"),
          ("emu_sv.sparse_operator.SparseOperator._from_operator_repr", "SparseOperator"),
          ("emu_mps.mpo.MPO._from_operator_repr", "MPO")]


def operator_terms(ctx, which: tuple = ("DenseOperator", "SparseOperator", "MPO"), rule: str = "TABLES-terms") -> None:
    """Each term of an operator representation is a tensor product of identities with the listed single-site
    operators at their targets, times the term's coefficient: the per-site buffer is re-initialised to identities
    inside the loop over terms, a target's slot receives the operator of that entry, and the term's product is
    accumulated with the term's coefficient."""
    prog = ctx.prog
    for q, owner in OPREPR:
        if owner not in which:
            continue
        f = prog.func(q)
        a = f.node.args
        params = [x.arg for x in a.posonlyargs + a.args + a.kwonlyargs]
        ctx.require("operations" in params, f"{rule}: {owner}._from_operator_repr has no parameter `operations`")
        loops = [n for n in util.walk_own(f.node) if isinstance(n, ast.For) and isinstance(n.iter, ast.Name) and n.iter.id == "operations"]
        ctx.require(len(loops) == 1, f"{rule}: {len(loops)} loops over `operations` in {owner}._from_operator_repr")
        T = loops[0]
        # slot stores inside the terms loop: X[t] = v with X a local name, t the target of an enclosing inner loop
        stores = []
        for inner in ast.walk(T):
            if isinstance(inner, ast.For) and inner is not T:
                for st in ast.walk(inner):
                    if isinstance(st, ast.Assign) and len(st.targets) == 1 and isinstance(st.targets[0], ast.Subscript) \
                            and isinstance(st.targets[0].value, ast.Name) and isinstance(inner.target, ast.Name) \
                            and isinstance(st.targets[0].slice, ast.Name) and st.targets[0].slice.id == inner.target.id \
                            and st in inner.body:
                        stores.append((st, inner))
        ctx.require(len(stores) == 1, f"{rule}: {len(stores)} per-target slot stores in {owner}._from_operator_repr (1 confirmed by hand)")
        st, tl = stores[0]
        buf = st.targets[0].value.id
        # (1) fresh per term
        allocs = [s for s in T.body if isinstance(s, (ast.Assign, ast.AnnAssign)) and
                  any(isinstance(t, ast.Name) and t.id == buf for t in (s.targets if isinstance(s, ast.Assign) else [s.target]))]
        others = [s for s in ast.walk(f.node) if isinstance(s, (ast.Assign, ast.AnnAssign)) and s not in allocs and
                  any(isinstance(t, ast.Name) and t.id == buf for t in (s.targets if isinstance(s, ast.Assign) else [s.target]))]
        pos_ok = bool(allocs) and all(T.body.index(s) < _index_containing(T.body, st) for s in allocs)
        ident = bool(allocs) and all(any(isinstance(n, ast.Call) and (dotted(n.func) or "").endswith("torch.eye") for n in ast.walk(s.value))
                                      for s in allocs)
        nq = bool(allocs) and all("n_qudits" in util.text(s.value) for s in allocs)
        fresh = pos_ok and ident and nq and len(allocs) == 1
        ctx.ob(rule, f"{owner}|buffer fresh per term", f.loc(allocs[0]) if allocs else f.loc(T), fresh,
               "the per-site factor list is reset to n_qudits identities at the start of every term" if fresh else
               (f"{owner}._from_operator_repr: the per-site factor list is "
                + ("initialised outside the loop over terms" if not allocs and others else "not reset to identities in every term")
                + ": operators placed by one term stay in place for the following terms (X0 + Z1 is built as X0 + X0·Z1)"))
        # (2) the stored value comes from the entry of the loop over the term's (operator, targets) pairs
        pair_loops = [n for n in T.body if isinstance(n, ast.For) and tl in ast.walk(n)]
        okv = False
        if pair_loops and isinstance(st.value, ast.Name):
            P = pair_loops[0]
            pair_names = {n.id for n in ast.walk(P.target) if isinstance(n, ast.Name)}
            defs = [s for s in P.body if isinstance(s, ast.Assign) and any(isinstance(t, ast.Name) and t.id == st.value.id for t in s.targets)]
            okv = len(defs) == 1 and bool({n.id for n in ast.walk(util.inline_locals(f, defs[0].value)) if isinstance(n, ast.Name)} & pair_names) and \
                bool({n.id for n in ast.walk(util.inline_locals(f, tl.iter)) if isinstance(n, ast.Name)} & pair_names) and P is not tl
        ctx.ob(rule, f"{owner}|slot = entry operator at entry targets", f.loc(st), okv,
               "for every (operator, targets) entry of a term, each target's slot receives that entry's operator" if okv else
               f"{owner}._from_operator_repr: the stored factor or the target list no longer come from the same entry of the term")
        # (3) the term's product is accumulated with the term's coefficient, after the entries loop
        coeff = None
        if isinstance(T.target, ast.Tuple) and T.target.elts and isinstance(T.target.elts[0], ast.Name):
            coeff = T.target.elts[0].id
        after = T.body[_index_containing(T.body, st) + 1:]
        acc = [s for s in after if any(isinstance(n, ast.Name) and n.id == buf for n in ast.walk(s))]
        okc = False
        if coeff and len(acc) == 1:
            s = acc[0]
            mults = [n for n in ast.walk(s) if isinstance(n, ast.BinOp) and isinstance(n.op, ast.Mult)]
            okc = any((isinstance(m.left, ast.Name) and m.left.id == coeff and any(isinstance(n, ast.Name) and n.id == buf for n in ast.walk(m.right)))
                      or (isinstance(m.right, ast.Name) and m.right.id == coeff and any(isinstance(n, ast.Name) and n.id == buf for n in ast.walk(m.left)))
                      for m in mults)
        ctx.ob(rule, f"{owner}|coeff × product accumulated once per term", f.loc(acc[0]) if acc else f.loc(T), okc,
               "after all entries of a term are placed, coeff · (product of the site factors) is accumulated once" if okc else
               f"{owner}._from_operator_repr: the term is not accumulated as coeff · product(site factors) once per term")


def _index_containing(body, node) -> int:
    for i, s in enumerate(body):
        if node is s or any(n is node for n in ast.walk(s)):
            return i
    return len(body)
