"""C15 — readout-error roles and bitstring conventions (structural clauses)."""
from __future__ import annotations

import ast

from ..algebra import is_const
from ..interp import Interp, SELF, contains, show, strip_typed, walk
from ..model import AnalysisError
from . import util

AME = "emu_base.utils.apply_measurement_errors"
RWE = "emu_base.utils.readout_with_error"
SAMPLERS = ["emu_mps.mps.MPS.sample", "emu_sv.state_vector.StateVector.sample",
            "emu_sv.density_matrix_state.DensityMatrix.sample"]


def check(ctx) -> None:
    prog = ctx.prog
    # 1. keyword pass-through
    for q in SAMPLERS + [AME]:
        f = prog.func(q)
        it = Interp(prog, f.cls, inline=lambda c, r, d: False, loop_iters=(1,))
        callee = AME if q != AME else RWE
        n = 0
        for p in it.run(f):
            for e in p.events:
                if e.kind == "call" and e.name == callee:
                    n += 1
                    for name in ("p_false_pos", "p_false_neg"):
                        v = strip_typed(e.args.get(name, ("const", None)))
                        ok = v == ("param", f.qualname, name)
                        ctx.ob("KWSWAP", f"{f.qualname}→{callee.split('.')[-1]}.{name}", e.loc(), ok,
                               f"{name} is forwarded as {name}" if ok else
                               f"{callee.split('.')[-1]}({name}={show(v)[:40]}): the false-positive and false-negative "
                               f"rates are swapped or replaced on the way to the readout model", entry=f.qualname)
        ctx.require(n >= 1, f"KWSWAP: {q} does not call {callee}")
    # 2. readout table
    f = prog.func(RWE)
    it = Interp(prog, None, inline=lambda c, r, d: False)
    table = {}
    for p in it.run(f):
        if p.status != "return":
            continue
        rv = strip_typed(p.retval)
        conds = {}
        for c, t in p.cond_log:
            c0 = strip_typed(c)
            if c0[0] == "cmp" and c0[1] == "==" and c0[3][0] == "const" and t:
                conds["bit"] = c0[3][1]
            if c0[0] == "cmp" and c0[1] in ("<", "<=") and t and strip_typed(c0[3])[0] == "param":
                conds["rate"] = strip_typed(c0[3])[2]
        if rv[0] == "const" and "bit" in conds and "rate" in conds:
            table[(conds["bit"], rv[1])] = conds["rate"]
    want = {("0", "1"): "p_false_pos", ("1", "0"): "p_false_neg"}
    ctx.ob("ROLE-readout", "flip table", f.loc(), table == want,
           "a '0' is read as '1' with probability p_false_pos, a '1' as '0' with probability p_false_neg, "
           "decided by r < rate with r uniform" if table == want else
           f"readout_with_error flips {table}; expected {want}")
    unchanged = any(p.status == "return" and strip_typed(p.retval) == ("param", f.qualname, "c") for p in it.run(f))
    ctx.ob("ROLE-readout", "identity otherwise", f.loc(), unchanged,
           "otherwise the bit is returned unchanged" if unchanged else "no path returns the bit unchanged")
    # 3. counts are preserved: one draw per sampled bitstring
    g = prog.func(AME)
    ok = False
    for n_ in ast.walk(g.node):
        if isinstance(n_, ast.For) and util.text(n_.iter).endswith(".items()"):
            inner = [m for m in n_.body if isinstance(m, ast.For)]
            if len(inner) == 1 and isinstance(n_.target, ast.Tuple) and len(n_.target.elts) == 2:
                cnt = n_.target.elts[1].id if isinstance(n_.target.elts[1], ast.Name) else None
                it2 = inner[0].iter
                rng = isinstance(it2, ast.Call) and util.text(it2.func) == "range" and len(it2.args) == 1 and \
                    util.text(it2.args[0]) == cnt
                inc = any(isinstance(m, ast.AugAssign) and isinstance(m.op, ast.Add) and util.text(m.value) == "1"
                          for m in inner[0].body)
                every = all(isinstance(c.func, ast.Name) for c in ast.walk(inner[0]) if isinstance(c, ast.Call) and False)
                ok = rng and inc
    ctx.ob("ROLE-readout", "count preserved", g.loc(), ok,
           "each of the `count` occurrences of a bitstring is redrawn once and counted once" if ok else
           "apply_measurement_errors does not redraw every occurrence exactly once: the total count changes")
    # 4. bit conventions
    m = prog.func(SAMPLERS[0])
    conv = False
    for n_ in ast.walk(m.node):
        if isinstance(n_, ast.IfExp) and isinstance(n_.body, ast.Constant) and isinstance(n_.orelse, ast.Constant):
            t = n_.test
            one_is_level_1 = isinstance(t, ast.Compare) and len(t.ops) == 1 and isinstance(t.ops[0], ast.Eq) and \
                any(isinstance(x, ast.Constant) and x.value == 1 and not isinstance(x.value, bool) for x in (t.left, t.comparators[0]))
            zero_otherwise = isinstance(t, ast.Compare) and len(t.ops) == 1 and isinstance(t.ops[0], ast.NotEq) and \
                any(isinstance(x, ast.Constant) and x.value == 1 and not isinstance(x.value, bool) for x in (t.left, t.comparators[0]))
            if (n_.body.value == "1" and n_.orelse.value == "0" and one_is_level_1) or \
                    (n_.body.value == "0" and n_.orelse.value == "1" and zero_otherwise):
                conv = True
    ctx.ob("ROLE-readout", "MPS bit convention", m.loc(), conv,
           "a sampled outcome is written '1' exactly when the site is in level 1 (r); g and x read '0'" if conv else
           "MPS.sample no longer maps outcome 1 (and only 1) to '1'")
    u = prog.func("emu_sv.utils.index_to_bitstring")
    fmt = util.formats_index_as_padded_binary(u)
    ctx.ob("ROLE-readout", "sv bit convention", u.loc(), fmt,
           "basis index → zero-padded binary string, most significant bit first (register order)" if fmt else
           "index_to_bitstring no longer formats the index as a zero-padded binary string")
    # 5. errors are applied whenever a rate is positive
    for q in SAMPLERS:
        f = prog.func(q)
        it = Interp(prog, f.cls, inline=lambda c, r, d: False, loop_iters=(1,))
        bad = 0
        n = 0
        for p in it.run(f):
            if p.status != "return":
                continue
            n += 1
            pos = any(strip_typed(c)[0] == "cmp" and strip_typed(c)[1] == ">" and "p_false" in show(c) and t for c, t in p.cond_log)
            applied = any(e.kind == "call" and e.name == AME for e in p.events)
            # the number of levels is 2 or 3 (enforced by MPS.__init__): `dim == 2` false together with `dim > 2` false is infeasible
            dims = {(strip_typed(c)[1], t) for c, t in p.cond_log
                    if strip_typed(c)[0] == "cmp" and show(strip_typed(c)[2]) == "self.dim" and strip_typed(c)[3] == ("const", 2)}
            infeasible = ("==", False) in dims and (">", False) in dims
            if pos and not applied and not infeasible:
                bad += 1
        ctx.require(n >= 1, f"ROLE-readout: no returning path in {q}")
        ctx.ob("ROLE-readout", f"{f.cls.name}.sample applies errors", f.loc(), bad == 0,
               "measurement errors are applied on every returning path on which one of the rates is positive" if bad == 0 else
               f"{f.cls.name}.sample: {bad} path(s) with a positive false-positive/false-negative rate return the counts "
               f"without applying measurement errors")


def mps_sample_gauge(ctx) -> None:
    """MPS.sample draws site by site from the left, conditioning on the sites already drawn; the marginal of the first
    site is read off factor 0, which is only right when the orthogonality centre is site 0.  Every path that samples
    has therefore called orthogonalize(0) first — unconditionally (a known centre elsewhere is exactly the bad case)."""
    prog = ctx.prog
    f = prog.func(SAMPLERS[0])
    it = Interp(prog, f.cls, inline=lambda c, r, d: False, loop_iters=(1,))
    n = bad = 0
    for p in it.run(f):
        if p.status != "return":
            continue
        n += 1
        orth = [e for e in p.events if e.kind == "call" and e.name.endswith("MPS.orthogonalize") and strip_typed(e.recv) == ("self",)]
        ok = bool(orth) and is_const(orth[0].args.get("desired_orthogonality_center", ("default", ("const", 0))), 0) and \
            p.events.index(orth[0]) <= min([i for i, e in enumerate(p.events) if e is not orth[0] and _touches_factors(e)] or [len(p.events)])
        guarded = bool(orth) and any("orthogonality_center" in show(c) for c, t in p.cond_log[: orth[0].ncond])
        if not ok or guarded:
            bad += 1
    ctx.require(n >= 1, "ROLE-readout: MPS.sample has no returning path")
    ctx.ob("ROLE-readout", "MPS.sample gauges to site 0 first", f.loc(), bad == 0,
           "every path of MPS.sample starts by orthogonalize(0), whatever centre the state claims" if bad == 0 else
           f"{bad} path(s) of MPS.sample draw from factor 0 without first moving the orthogonality centre there: a state "
           f"whose centre is known to be elsewhere is sampled from a wrong (non-Born) distribution")


def _touches_factors(e) -> bool:
    """The event reads the MPS factors (directly or through a method of the state)."""
    terms = list(e.pos) + [v for _, v in e.kw] + list(e.args.values()) + ([e.recv] if e.recv is not None else []) + \
        ([e.value] if e.value is not None else [])
    for t in terms:
        if isinstance(t, tuple) and (contains(t, lambda x: x == ("attr", ("self",), "factors")) or
                                    (e.kind == "call" and e.recv is not None and strip_typed(e.recv) == ("self",))):
            return True
    return False
