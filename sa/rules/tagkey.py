"""TAGKEY + whitelist/handler table agreement (DESIGN.md §5 C03 (c), (c'))."""
from __future__ import annotations

import ast
import os

from ..interp import Interp, SELF, contains, show, strip_typed, walk
from ..model import AnalysisError, dotted
from . import util

IMPL = "emu_mps.mps_backend_impl.MPSBackendImpl"

# whitelisted observables whose result is one value for the whole register (nothing to un-permute)
SCALAR_TAGS = {
    "energy": "<H> of the whole state",
    "energy_variance": "<H^2>-<H>^2 of the whole state",
    "energy_second_moment": "<H^2> of the whole state",
    "statistics": "run-time statistics (bond dimension, memory, duration)",
}


def pulser_base_tags() -> set[str]:
    """String constants returned by `_base_tag` properties of the installed Pulser's observables."""
    out = set()
    root = util.pulser_root()
    for rel in ("backend/default_observables.py", "backend/observable.py"):
        with open(os.path.join(root, rel), encoding="utf-8") as f:
            tree = ast.parse(f.read())
        for n in ast.walk(tree):
            if isinstance(n, ast.FunctionDef) and n.name == "_base_tag":
                for r in ast.walk(n):
                    if isinstance(r, ast.Return) and isinstance(r.value, ast.Constant) and isinstance(r.value.value, str):
                        out.add(r.value.value)
    return out


def pulser_tag_is_suffixed() -> bool:
    """Observable.tag = base tag, or base_suffix when a suffix is given (read from the installed source)."""
    with open(os.path.join(util.pulser_root(), "backend/observable.py"), encoding="utf-8") as f:
        tree = ast.parse(f.read())
    for n in ast.walk(tree):
        if isinstance(n, ast.FunctionDef) and n.name == "tag":
            s = ast.unparse(n)
            return "_tag_suffix" in s and "_base_tag" in s
    raise AnalysisError("TAGKEY: Observable.tag not found in the installed Pulser")


def repo_base_tags(prog) -> set[str]:
    out = set()
    for f in prog.funcs.values():
        if f.name == "_base_tag":
            for r in ast.walk(f.node):
                if isinstance(r, ast.Return) and isinstance(r.value, ast.Constant):
                    out.add(r.value.value)
    return out


def check(ctx) -> None:
    prog = ctx.prog
    universe = pulser_base_tags() | repo_base_tags(prog)
    ctx.require(len(universe) >= 9, f"TAGKEY: only {len(universe)} base tags found")
    suffixed = pulser_tag_is_suffixed()
    K = prog.cls(IMPL)
    f = K.methods.get("permute_results")
    ctx.require(f is not None, "permute_results not found")
    mod_prefix = f.module.name + "."

    def inline(callee, recv, depth):
        return recv == SELF or (callee.qualname.startswith(mod_prefix) and callee.cls is None)

    it = Interp(prog, K, inline=inline, max_depth=6, loop_iters=(1,))
    paths = [p for p in it.run(f) if p.status == "return"]
    ctx.count("paths", len(paths))
    helpers = set()
    handled: set[str] = set()
    lookups = 0
    for p in paths:
        for e in p.events:
            if e.kind != "call":
                continue
            if e.inlined and e.callee is not None and e.callee.cls is None:
                helpers.add(e.callee)
            if e.name in ("._find_uuid", ".get_result_times", ".get_tagged_results") or \
                    (e.name == "." + "__getitem__"):
                key = e.pos[0] if e.pos else None
                if key is None:
                    continue
                lookups += 1
                kind = _key_kind(key)
                if kind == "unknown":
                    raise AnalysisError(f"TAGKEY: cannot classify the key of {e.name} at {e.loc()}: {show(key)}")
                ok = (kind == "full") or not suffixed
                ctx.ob("TAGKEY", f"{e.func.qualname}|{e.name}|{util.akey(e.node, e.func, 60)}", e.loc(), ok,
                       "result looked up with a tag taken from the results' own tag list (full-tag domain)" if ok else
                       f"{e.func.name} looks results up with the base-tag literal {show(key)}; Observable.tag is "
                       f"'<base>_<suffix>' when a tag_suffix is given, so a suffixed per-atom observable is admitted "
                       f"by the whitelist (which compares _base_tag) but never un-permuted")
    ctx.require(lookups >= 2, f"TAGKEY: {lookups} result look-ups found under permute_results, 2 confirmed by hand")
    for h in helpers | {f}:
        for n in ast.walk(h.node):
            if isinstance(n, ast.Constant) and isinstance(n.value, str) and n.value in universe:
                handled.add(n.value)
    # whitelist
    cfg = prog.func("emu_mps.mps_config.MPSConfig.check_permutable_observables")
    white = None
    for n in ast.walk(cfg.node):
        if isinstance(n, ast.Call) and dotted(n.func) == "set" and n.args and isinstance(n.args[0], ast.Name) \
                and n.args[0].id in util.single_assignments(cfg):
            n = ast.Call(func=n.func, args=[util.single_assignments(cfg)[n.args[0].id]], keywords=[])
        if isinstance(n, ast.Call) and dotted(n.func) == "set" and n.args and isinstance(n.args[0], (ast.List, ast.Tuple, ast.Set)):
            vals = [x.value for x in n.args[0].elts if isinstance(x, ast.Constant)]
            if vals and all(isinstance(v, str) for v in vals):
                white = set(vals)
        elif isinstance(n, ast.Set) and all(isinstance(x, ast.Constant) and isinstance(x.value, str) for x in n.elts) and len(n.elts) >= 3:
            white = white or {x.value for x in n.elts}
    ctx.require(white, "TABLES-whitelist: allowed_permutable_obs literal not found")
    unknown = white - universe
    ctx.ob("TABLES-whitelist", "known tags", cfg.loc(), not unknown,
           "every whitelisted tag is a base tag of an observable class" if not unknown else
           f"whitelist entries {sorted(unknown)} are not the base tag of any observable")
    uncovered = white - handled - set(SCALAR_TAGS)
    ctx.ob("TABLES-whitelist", "whitelist ⊆ handled ∪ scalar", cfg.loc(), not uncovered,
           f"whitelist {sorted(white)} = un-permuted {sorted(handled & white)} ∪ whole-register "
           f"{sorted(white & set(SCALAR_TAGS))}" if not uncovered else
           f"observables {sorted(uncovered)} are allowed with qubit reordering but permute_results neither "
           f"un-permutes them nor are they whole-register quantities")
    clash = handled & set(SCALAR_TAGS)
    ctx.ob("TABLES-whitelist", "scalar table", f.loc(), not clash,
           "no un-permuted tag is classified whole-register" if not clash else f"{sorted(clash)} in both tables")
    # the whitelist test compares base tags and feeds the flag
    uses_base = any(isinstance(n, ast.Attribute) and n.attr == "_base_tag" for n in ast.walk(cfg.node))
    ctx.ob("TABLES-whitelist", "admission key", cfg.loc(), uses_base,
           "observables are admitted by _base_tag" if uses_base else
           "check_permutable_observables no longer compares _base_tag")
    ctx.extra["tag_universe"] = sorted(universe)


def _key_kind(key) -> str:
    """'full' if the key ranges over results.get_result_tags() (or is obs.tag), 'base' if it is a literal."""
    k = strip_typed(key)
    if k[0] == "const" and isinstance(k[1], str):
        return "base"
    if k[0] == "elem":
        return _src_kind(k[1])
    if k[0] == "attr" and k[2] == "tag":
        return "full"
    if k[0] == "attr" and k[2] == "_base_tag":
        return "base"
    if k[0] == "unpack":
        return _key_kind(k[1])
    return "unknown"


def _src_kind(src) -> str:
    """Kind of the elements of an iterable term."""
    s = strip_typed(src)
    if s[0] in ("list", "tuple", "set"):
        kinds = {_key_kind(x) for x in s[1]}
        if not kinds:
            return "empty"
        return kinds.pop() if len(kinds) == 1 else ("base" if "base" in kinds else "unknown")
    if s[0] == "mcall" and s[2] in ("get_result_tags", "keys") and not s[3]:
        return "full" if s[2] == "get_result_tags" or "_tagmap" in show(s[1]) else "unknown"
    if s[0] == "comp" and s[1] in ("list", "set", "gen") and len(s[2]) == 1:
        return _key_kind(s[2][0])
    if s[0] == "ifexp":
        kinds = {_src_kind(s[2]), _src_kind(s[3])} - {"empty"}
        if not kinds:
            return "empty"
        if "base" in kinds:
            return "base"
        return kinds.pop() if len(kinds) == 1 else "unknown"
    if s[0] == "call" and s[1] in ("sorted", "list", "set", "tuple") and len(s[2]) == 1:
        return _src_kind(s[2][0])
    return "unknown"
