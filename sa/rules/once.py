"""ONCE — observables are applied at t=0 and exactly once per completed step, at the time used by the filter."""
from __future__ import annotations

import ast

from ..algebra import canon, same
from ..interp import Interp, SELF, Event, Path, contains, show, strip_typed, walk
from ..model import AnalysisError
from . import step, util

MPS = "emu_mps.mps_backend_impl.MPSBackendImpl"
SV = "emu_sv.sv_backend_impl.SVBackendImpl"


def _self_call_sites(prog, classes, method: str) -> set:
    out = set()
    for C in classes:
        for m in C.methods.values():
            for n in util.walk_all(m.node):
                if isinstance(n, ast.Call) and isinstance(n.func, ast.Attribute) and n.func.attr == method:
                    base = n.func.value
                    if (isinstance(base, ast.Name) and base.id == "self") or \
                            (isinstance(base, ast.Call) and isinstance(base.func, ast.Name) and base.func.id == "super"):
                        out.add(f"{C.name}.{m.name}")
    return out


def _callback_checks(ctx, tag: str, K, f, cfg_attr: str, state_pred, ham_pred) -> None:
    prog = ctx.prog
    it = Interp(prog, K, inline=lambda c, r, d: False)
    paths = [p for p in it.run(f) if p.status == "return"]
    ctx.require(paths, f"{f.qualname}: no returning path")
    ctx.count("paths", len(paths))
    ncb = 0
    for p in paths:
        filt = [e for e in p.events if e.kind == "call" and e.name.endswith("._is_evaluation_time")]
        cbs = [e for e in p.events if e.kind == "call" and e.name == "<value>" and len(e.pos) == 5]
        if not cbs:
            continue
        ctx.require(filt, f"{f.qualname}: callbacks invoked without the evaluation-time filter")
        tf = filt[0].args.get("t")
        obs = strip_typed(filt[0].args.get("observable"))
        src_ok = obs[0] == "elem" and strip_typed(obs[1]) == ("attr", ("attr", SELF, cfg_attr), "observables")
        for e in cbs:
            ncb += 1
            branch = "dark" if any("well_prepared_qubits_filter is None" in show(c) and t is False for c, t in p.cond_log) else "plain"
            okt = canon(e.pos[1]) == canon(tf)
            ctx.ob("ONCE", f"{tag} callback time = filter time ({branch})", e.loc(), okt,
                   "callbacks are invoked with the very time tested by _is_evaluation_time" if okt else
                   f"callbacks receive {show(e.pos[1])[:70]} but the filter tested {show(tf)[:70]}", entry=f.qualname)
            recv = strip_typed(e.recv)
            okr = recv[0] == "elem" and contains(recv, lambda t: t[0] == "comp") and src_ok
            ctx.ob("ONCE", f"{tag} callbacks from config.observables ({branch})", e.loc(), okr,
                   "the callbacks are config.observables filtered by evaluation time" if okr else
                   f"callbacks iterate {show(recv)[:80]}; filter source ok={src_ok}", entry=f.qualname)
            okc = strip_typed(e.pos[0]) == ("attr", SELF, cfg_attr) and strip_typed(e.pos[4]) == ("attr", SELF, "results")
            ctx.ob("ROLE-callback", f"{tag} config/results ({branch})", e.loc(), okc,
                   "callbacks get the run's config and results object" if okc else
                   f"callbacks get config={show(e.pos[0])[:40]}, results={show(e.pos[4])[:40]}", entry=f.qualname)
            oks = state_pred(e.pos[2], p)
            ctx.ob("ROLE-callback", f"{tag} state ({branch})", e.loc(), oks,
                   "callbacks read the current (normalised) state" if oks else
                   f"callbacks read {show(e.pos[2])[:100]}", entry=f.qualname)
            okh = ham_pred(e.pos[3], p)
            ctx.ob("ROLE-callback", f"{tag} hamiltonian ({branch})", e.loc(), okh,
                   "callbacks get the current Hamiltonian" if okh else
                   f"callbacks get hamiltonian={show(e.pos[3])[:100]}", entry=f.qualname)
    ctx.require(ncb >= 1, f"{f.qualname}: no callback invocation found")


def mps(ctx) -> None:
    prog = ctx.prog
    classes = step.mps_classes(prog)
    sites = _self_call_sites(prog, classes, "fill_results")
    want = {"MPSBackendImpl.init", "MPSBackendImpl.timestep_complete"}
    ctx.ob("ONCE", "fill_results call sites", prog.func(MPS + ".fill_results").loc(), sites == want,
           "fill_results is called from init() (t=0) and the base timestep_complete() only" if sites == want else
           f"fill_results is called from {sorted(sites)} (expected {sorted(want)}): observables are recorded at extra "
           f"or missing times")
    sites = _self_call_sites(prog, classes, "timestep_complete")
    want = {"MPSBackendImpl.sweep_complete", "NoisyMPSBackendImpl.sweep_complete", "DMRGBackendImpl.sweep_complete",
            "NoisyMPSBackendImpl.timestep_complete"}
    ctx.ob("ONCE", "timestep_complete call sites", prog.func(MPS + ".timestep_complete").loc(), sites == want,
           "timestep_complete is reached only from the three sweep_complete methods (and the noisy override's super call)"
           if sites == want else f"timestep_complete is called from {sorted(sites)}")
    step.step_mps(ctx)
    K = prog.cls(MPS)
    f = K.methods["fill_results"]

    def state_pred(t, p):
        s = show(t)
        return "self.state" in s and ".norm()" in s

    def ham_pred(t, p):
        return "self.hamiltonian" in show(t)

    _callback_checks(ctx, "emu-mps", K, f, "config", state_pred, ham_pred)
    # the filter time is current_time / T[-1]
    it = Interp(prog, K, inline=lambda c, r, d: False)
    for p in it.run(f):
        for e in p.events:
            if e.kind == "call" and e.name.endswith("._is_evaluation_time"):
                want_t = ("bin", "Div", ("attr", SELF, "current_time"), ("sub", ("attr", SELF, "target_times"), ("const", -1)))
                ok = same(e.args.get("t"), want_t)
                ctx.ob("ONCE", "emu-mps filter time", e.loc(), ok,
                       "observables are filtered at current_time / T[-1]" if ok else
                       f"observables are filtered at {show(e.args.get('t'))[:80]}", entry=f.qualname)
                return


def sv(ctx) -> None:
    prog = ctx.prog
    K = prog.cls(SV)
    sites = _self_call_sites(prog, [K], "_apply_observables")
    want = {"SVBackendImpl._run", "SVBackendImpl.step"}
    ctx.ob("ONCE", "_apply_observables call sites", prog.func(SV + "._apply_observables").loc(), sites == want,
           "_apply_observables is called from _run (t=0) and step (after each step) only" if sites == want else
           f"_apply_observables is called from {sorted(sites)}")
    step.step_sv(ctx)
    f = K.methods["_apply_observables"]

    def state_pred(t, p):
        return strip_typed(t) == ("attr", SELF, "state")

    def ham_pred(t, p):
        s = show(t)
        return "_current_H" in s or "get_hamiltonian" in s

    _callback_checks(ctx, "emu-sv", K, f, "_config", state_pred, ham_pred)


def filter_tolerance(ctx) -> None:
    """An observable is recorded at most once per requested time: two target times are never closer than the merge
    tolerance of the adapter (_TIME_MERGE_TOLERANCE), so the filter that matches the current time against the requested
    times must not be wider than that — in `_is_evaluation_time` (default of `tolerance`, forwarded to both config
    predicates) and at every call of it."""
    prog = ctx.prog
    adapter = prog.modules.get("emu_base.pulser_adapter")
    ctx.require(adapter is not None, "ONCE-tolerance: emu_base.pulser_adapter not found")
    merge = util.const_value(prog, adapter, ast.Name(id="_TIME_MERGE_TOLERANCE", ctx=ast.Load()))
    ctx.require(isinstance(merge, float) and merge > 0, "ONCE-tolerance: _TIME_MERGE_TOLERANCE not found")
    for cq in (MPS, SV):
        K = prog.cls(cq)
        f = K.methods["_is_evaluation_time"]
        a = f.node.args
        names = [x.arg for x in a.args]
        dflt = None
        if "tolerance" in names:
            i = names.index("tolerance") - (len(names) - len(a.defaults))
            if i >= 0:
                dflt = util.const_value(prog, f.module, a.defaults[i], f)
        okd = isinstance(dflt, float) and 0 < dflt <= merge
        ctx.ob("ONCE-tolerance", f"{K.name}._is_evaluation_time default", f.loc(), okd,
               f"the evaluation-time filter matches within {dflt:g} ≤ the {merge:g} that separates two target times" if okd else
               f"{K.name}._is_evaluation_time matches within {dflt} by default, wider than the {merge:g} that separates "
               f"two target times: an observable is also recorded at a neighbouring target time")
        it = Interp(prog, K, inline=lambda c, r, d: False)
        fw = True
        n = 0
        tol = ("param", f.qualname, "tolerance")
        for p in it.run(f):
            for e in p.events:
                if e.kind == "call" and e.name.endswith(("is_time_in_evaluation_times", "is_evaluation_time")) and e.name != f.qualname:
                    n += 1
                    v = dict(e.kw).get("tol", e.args.get("tol"))
                    fw = fw and v is not None and strip_typed(v) == tol
        # a membership test written by hand instead of a config predicate must compare with the same tolerance
        hand = any(p.status == "return" and p.retval is not None and tol in [strip_typed(x) for x in walk(p.retval)
                                                                           if strip_typed(x)[0] == "param"]
                   for p in it.run(f)) if n == 1 else False
        enough = n >= 2 or (n == 1 and hand)
        ctx.ob("ONCE-tolerance", f"{K.name}._is_evaluation_time forwards the tolerance", f.loc(), fw and enough,
               "both membership tests use tol=tolerance" if fw and enough else
               "the config predicates are not called with the function's tolerance (their own default is Pulser's 0.5/duration)")
        # call sites
        for m in K.methods.values():
            for node in util.walk_all(m.node):
                if isinstance(node, ast.Call) and isinstance(node.func, ast.Attribute) and node.func.attr == "_is_evaluation_time":
                    targ = util.arg_of(node, f, "tolerance")
                    ok = targ is None
                    val = None
                    if targ is not None:
                        val = util.const_value(prog, m.module, targ, m)
                        ok = isinstance(val, float) and 0 < val <= merge
                    ctx.ob("ONCE-tolerance", f"{K.name}.{m.name} call", m.loc(node), ok,
                           "the filter is called with its default tolerance" if targ is None else
                           (f"the filter is called with tolerance {val:g}" if ok else
                            f"{K.name}.{m.name} calls the evaluation-time filter with tolerance {util.text(targ, 50)}, not a "
                            f"constant ≤ {merge:g}: a requested time close to another target time is recorded twice, the "
                            f"second time from the state of the other time"))
