"""OBSDEF-axis (C13): the emu-sv occupation / correlation routines select level 1 of exactly the qubits they store under.

A state of n qubits is a tensor of 2ⁿ amplitudes (or the 2ⁿ diagonal entries of ρ), qubit 0 most significant.  The
routines pick a qubit by `view(2**a, 2, …)[:, 1]` (and a second one by viewing the result again).  For such a chain
the position of the selected axis among the qubits still present is the *sum of the exponents in front of it*; the
rule computes that sum symbolically and compares it — as a polynomial identity in the loop variables — with the index
the value is stored under (i, resp. j − 1 once qubit i < j has been removed).  Also decided: the loops visit every
qubit / every pair i < j, the level selected is 1, the mirror entry is a copy, and the reduction fits the object
(Σ of diagonal entries for ρ, squared norm for ψ).
"""
from __future__ import annotations

from ..interp import Interp, show, strip_typed
from ..ratfun import add, num, rat_equal, sub

SCB = "emu_sv.custom_callback_implementations."
FULL = ("slice", ("const", None), ("const", None), ("const", None))


def _exp_of(dim):
    """exponent term of a view dimension: 2**e -> e, 2 -> 1, 1 -> 0, -1 -> None (rest)"""
    d = strip_typed(dim)
    if d == ("const", 2):
        return num(1)
    if d == ("const", 1):
        return num(0)
    if d == ("const", -1):
        return None
    if d[0] == "bin" and d[1] == "Pow" and strip_typed(d[2]) == ("const", 2):
        return strip_typed(d[3])
    return "?"


def _peel(t, state):
    """t = base → (view → index)* ; returns (kind of base, [(position term, level)]) or (None, why)"""
    t = strip_typed(t)
    sels = []
    while True:
        if t == ("attr", state, "data"):
            return "psi", sels[::-1]
        if t[0] == "mcall" and t[2] == "diagonal" and strip_typed(t[1]) == ("attr", state, "data") and not t[3]:
            return "rho-diagonal", sels[::-1]
        if t[0] == "sub":
            v = strip_typed(t[1])
            idx = strip_typed(t[2])
            items = list(idx[1]) if idx[0] == "tuple" else [idx]
            if not (v[0] == "mcall" and v[2] in ("view", "reshape")):
                return None, f"indexing of {show(v)[:40]} (not a view)"
            dims = list(v[3])
            if len(dims) == 1 and strip_typed(dims[0])[0] == "tuple":
                dims = list(strip_typed(dims[0])[1])
            if len(dims) == 1 and strip_typed(dims[0])[0] == "star":
                inner = strip_typed(strip_typed(dims[0])[1])
                dims = list(inner[1]) if inner[0] == "tuple" else dims
            picked = [(k, strip_typed(it)) for k, it in enumerate(items) if strip_typed(it) != FULL]
            if len(picked) != 1 or picked[0][1][0] != "const":
                return None, f"index {show(idx)[:40]} does not fix exactly one axis"
            k, lvl = picked[0][0], picked[0][1][1]
            if k >= len(dims) or strip_typed(dims[k]) != ("const", 2):
                return None, f"the fixed axis {k} of view{tuple(show(d) for d in dims)} is not a qubit axis (size 2)"
            pos = num(0)
            for d in dims[:k]:
                e = _exp_of(d)
                if e is None or e == "?":
                    return None, f"dimension {show(d)[:30]} in front of the qubit axis is not a power of two"
                pos = add(pos, e)
            sels.append((pos, lvl))
            t = strip_typed(v[1])
            continue
        return None, f"unexpected term {show(t)[:50]}"


def _reduction(v):
    """('sum' | 'norm2', inner) of the stored value"""
    v = strip_typed(v)
    if v[0] == "attr" and v[2] == "real":
        v = strip_typed(v[1])
    if v[0] == "mcall" and v[2] == "sum" and not v[3]:
        return "sum", strip_typed(v[1])
    if v[0] == "bin" and v[1] == "Pow" and strip_typed(v[3]) == ("const", 2):
        c = strip_typed(v[2])
        if c[0] == "call" and c[1] in ("torch.linalg.vector_norm", "torch.linalg.norm", "torch.norm") and len(c[2]) == 1:
            return "norm2", strip_typed(c[2][0])
    return None, v


def _range_of(t):
    t = strip_typed(t)
    if t[0] == "elem":
        r = strip_typed(t[1])
        if r[0] == "call" and r[1] == "range":
            return [strip_typed(a) for a in r[2]]
    return None


def qubit_axes(ctx) -> None:
    prog = ctx.prog
    for fn, kind, want_base, want_red in (
            ("qubit_occupation_sv_impl", "occupation", "psi", "norm2"),
            ("qubit_occupation_sv_den_mat_impl", "occupation", "rho-diagonal", "sum"),
            ("correlation_matrix_sv_impl", "correlation", "psi", "norm2"),
            ("correlation_matrix_sv_den_mat_impl", "correlation", "rho-diagonal", "sum")):
        f = prog.func(SCB + fn)
        state = ("param", f.qualname, "state")
        n = ("attr", state, "n_qudits")
        paths = [p for p in Interp(prog, None, inline=lambda c, r, d: False, loop_iters=(1,)).run(f) if p.status == "return"]
        ctx.require(paths, f"OBSDEF-axis: {fn} has no returning path")
        p = paths[-1]
        stores = [e for e in p.events if e.kind == "setitem"]
        bad = None
        seen = set()
        for e in stores:
            idx = strip_typed(e.target[1])
            where = [strip_typed(x) for x in idx[1]] if idx[0] == "tuple" else [idx]
            val = strip_typed(e.value)
            # mirror entry: correlation[j, i] = correlation[i, j]
            if kind == "correlation" and val[0] == "sub" and strip_typed(val[1]) == strip_typed(e.target[0]):
                src = strip_typed(val[2])
                ok = src[0] == "tuple" and [strip_typed(x) for x in src[1]] == where[::-1]
                seen.add("mirror")
                if not ok:
                    bad = f"the mirror entry {show(idx)[:30]} is copied from {show(src)[:30]}"
                continue
            red, inner = _reduction(val)
            if red is None:
                bad = f"entry {show(idx)[:30]} = {show(val)[:60]} is neither a sum of diagonal entries nor a squared norm"
                continue
            base, sels = _peel(inner, state)
            if base is None:
                bad = f"entry {show(idx)[:30]}: {sels}"
                continue
            if base != want_base or red != want_red:
                bad = f"entry {show(idx)[:30]} reduces {base} with {red} (expected {want_red} over {want_base})"
                continue
            if any(lvl != 1 for _, lvl in sels):
                bad = f"entry {show(idx)[:30]} selects level {[lvl for _, lvl in sels]} (the occupied level is 1)"
                continue
            # which qubits does the chain select?  k-th selection at position pos_k among the remaining ones = qubit pos_k + k
            qubits = [add(pos, num(k)) for k, (pos, _) in enumerate(sels)]
            if kind == "occupation":
                okq = len(where) == 1 and len(qubits) == 1 and rat_equal(qubits[0], where[0])
                seen.add("entry")
            else:
                if len(where) != 2:
                    bad = f"store into {show(idx)[:30]}"
                    continue
                if rat_equal(where[0], where[1]):
                    okq = len(qubits) == 1 and rat_equal(qubits[0], where[0])
                    seen.add("diagonal")
                else:
                    okq = len(qubits) == 2 and rat_equal(qubits[0], where[0]) and rat_equal(qubits[1], where[1])
                    r = _range_of(where[1])
                    okq = okq and r is not None and len(r) == 2 and rat_equal(r[0], add(where[0], num(1))) and r[1] == n
                    seen.add("pair")
            r0 = _range_of(where[0])
            okr = r0 is not None and r0 in ([n], [("const", 0), n])
            if not okq:
                bad = (f"entry {show(idx)[:40]} is computed from qubit(s) at position(s) "
                       f"{[show(q)[:30] for q in qubits]} of the amplitude tensor")
            elif not okr:
                bad = f"the loop over {show(where[0])[:40]} does not visit every qubit"
        need = {"entry"} if kind == "occupation" else {"diagonal", "pair", "mirror"}
        if bad is None and not need <= seen:
            bad = f"stores found: {sorted(seen)}, expected {sorted(need)}"
        ctx.ob("OBSDEF-axis", fn, f.loc(), bad is None,
               f"{kind} entries select level 1 of exactly the qubit(s) they are stored under (exponent sums ≡ i, j − 1), "
               f"over every qubit{' and every pair i < j, mirrored' if kind == 'correlation' else ''}; {want_red} over {want_base}"
               if bad is None else f"{fn}: {bad} — the reported {kind} belongs to other atoms or to another level")


# ------------------------------------------------------------------ diagonal builders (state vector and Lindbladian)
import ast as _ast

from . import util as _util


def _ast_term(n):
    if isinstance(n, _ast.Constant):
        return ("const", n.value)
    if isinstance(n, _ast.Name):
        return ("name", n.id)
    if isinstance(n, _ast.Attribute):
        return ("name", _util.text(n))
    if isinstance(n, _ast.UnaryOp) and isinstance(n.op, _ast.USub):
        return ("un", "neg", _ast_term(n.operand))
    if isinstance(n, _ast.BinOp):
        op = {_ast.Add: "Add", _ast.Sub: "Sub", _ast.Mult: "Mult", _ast.Pow: "Pow", _ast.Div: "Div"}.get(type(n.op))
        if op:
            return ("bin", op, _ast_term(n.left), _ast_term(n.right))
    return ("name", _util.text(n))


def diagonal_builders(ctx) -> None:
    """`_create_diagonal` of RydbergHamiltonian and of RydbergLindbladian (sibling implementations of Σ_{i<j} U_ij n_i n_j,
    the first also −Σ_i Δ_i n_i): both loop over every i and every j > i *unconditionally* (no if / break / continue:
    a zero coefficient, e.g. from the SLM mask or the cut-off, must not end the row), add `interaction_matrix[i, j]` to the
    slice in which qubits i and j are both in level 1 (exponent sums ≡ i and j − 1), and agree with each other."""
    prog = ctx.prog
    for cq, want_det in (("emu_sv.hamiltonian.RydbergHamiltonian", True), ("emu_sv.lindblad_operator.RydbergLindbladian", False)):
        K = prog.cls(cq)
        f = K.methods["_create_diagonal"]
        loops = [n for n in _ast.walk(f.node) if isinstance(n, _ast.For)]
        assigns = _util.single_assignments(f)
        loopvars = {_util.text(l.target) for l in loops}

        class _Inl(_ast.NodeTransformer):
            """read-once temporaries (`_h0 = 2**i`) are replaced by their value"""
            def __init__(self):
                self.depth = 0

            def visit_Name(self, node):
                if isinstance(node.ctx, _ast.Load) and node.id in assigns and node.id not in loopvars and node.id.startswith("_") and self.depth < 6:
                    self.depth += 1
                    import copy
                    v = self.visit(copy.deepcopy(assigns[node.id]))
                    self.depth -= 1
                    return v
                return node

        def inl(node):
            import copy
            return _Inl().visit(copy.deepcopy(node))

        bad = None
        if len(loops) != 2:
            bad = f"{len(loops)} loops (two expected: i, and j > i)"
        else:
            outer, inner = loops[0], loops[1]
            i, j = _util.text(outer.target), _util.text(inner.target)
            rng_o = _util.text(inl(outer.iter)).replace(" ", "")
            rng_i = _util.text(inl(inner.iter)).replace(" ", "")
            if rng_o not in ("range(self.nqubits)", "range(0,self.nqubits)"):
                bad = f"the outer loop runs over {rng_o}"
            elif rng_i != f"range({i}+1,self.nqubits)":
                bad = f"the inner loop runs over {rng_i}, not every j > {i}"
            ctrl = [n for n in _ast.walk(outer) if isinstance(n, (_ast.If, _ast.Break, _ast.Continue, _ast.Return, _ast.IfExp, _ast.While, _ast.Try))]
            if bad is None and ctrl:
                bad = (f"the accumulation is conditional ({type(ctrl[0]).__name__.lower()} at line {ctrl[0].lineno}): a zero "
                       f"coefficient ends or skips part of a row, later pairs lose their interaction")
            augs = [n for n in _ast.walk(outer) if isinstance(n, _ast.AugAssign)]
            inter = [a for a in augs if isinstance(a.op, _ast.Add) and _util.text(inl(a.value)).replace(" ", "") in
                     (f"self.interaction_matrix[{i},{j}]", f"self.interaction_matrix[{j},{i}]")]
            det = [a for a in augs if isinstance(a.op, _ast.Sub) and _util.text(inl(a.value)).replace(" ", "") == f"self.deltas[{i}]"]
            if bad is None and (len(inter) != 1 or not any(inter[0] is n for n in _ast.walk(inner))):
                bad = "the pair term is not `+= self.interaction_matrix[i, j]` inside the inner loop"
            if bad is None and want_det and (len(det) != 1 or any(det[0] is n for n in _ast.walk(inner))):
                bad = "the detuning term is not `-= self.deltas[i]` once per i"
            if bad is None and len(augs) != (2 if want_det else 1):
                bad = f"{len(augs)} accumulating statements"
            # qubit axes of the two views
            if bad is None:
                views = [n for n in _ast.walk(outer) if isinstance(n, _ast.Call) and isinstance(n.func, _ast.Attribute) and n.func.attr == "view"]
                for v in views:
                    dims = [_ast_term(inl(a)) for a in v.args]
                    k = [m for m, d in enumerate(dims) if d == ("const", 2)]
                    if len(k) != 1:
                        bad = f"view{tuple(_util.text(a) for a in v.args)} has no single qubit axis"
                        break
                    pos = num(0)
                    for d in dims[:k[0]]:
                        e = _exp_of(d)
                        if e is None or e == "?":
                            bad = f"dimension {show(d)} in front of the qubit axis is not a power of two"
                            break
                        pos = add(pos, e)
                    if bad:
                        break
                    in_inner = any(v is n for n in _ast.walk(inner))
                    want = sub(("name", j), num(1)) if in_inner else ("name", i)
                    if not rat_equal(pos, want):
                        bad = f"view{tuple(_util.text(a) for a in v.args)} puts the qubit axis at position {show(pos)}, not {show(want)}"
                        break
                subs = [n for n in _ast.walk(outer) if isinstance(n, _ast.Subscript) and isinstance(n.slice, _ast.Tuple) and
                        any(isinstance(e, _ast.Constant) and isinstance(e.value, int) for e in n.slice.elts) and
                        "interaction_matrix" not in _util.text(n.value)]
                if bad is None and any(e.value != 1 for s_ in subs for e in s_.slice.elts if isinstance(e, _ast.Constant) and isinstance(e.value, int)):
                    bad = "a slice selects a level other than 1"
                if bad is None and len(subs) < 2:
                    bad = "the level-1 slices of qubit i and qubit j were not found"
        ctx.ob("HAM-form", f"diagonal builder {K.name}", f.loc(), bad is None,
               f"Σ_(i<j) U_ij n_i n_j{' − Σ_i Δ_i n_i' if want_det else ''}: every pair, unconditionally, on the slice with both qubits in level 1"
               if bad is None else f"{K.name}._create_diagonal: {bad}")
