"""Single-site part of the emu-mps MPO Hamiltonian (C02, C17): the formula update_H writes, where it writes it, and that
the slots agree with the automaton channels the factor builders lay out.

The MPO is a finite-state automaton over bond indices: channel 1 = "nothing applied yet" (identity [1,·,·,1]), channel 0 =
"done" (identity [0,·,·,0]); the single-site term of a site is the transition 1 → 0, i.e. slot [1,·,·,0] — for the first
site, whose left bond has the single row 0 = "nothing applied yet", slot [0,·,·,0] and identity [0,·,·,1].  update_H (the
reader of this convention) and the ten builder methods (its writers) must agree on it.  The bookkeeping of the
interaction channels (bond dimensions from the sparsity masks) is *not* decided here — that is C05, not applicable.
"""
from __future__ import annotations

import ast

from ..interp import Interp, SELF, show, strip_typed, walk
from ..ratfun import add, mul, num, rat_equal, sub
from . import util

H = "emu_mps.hamiltonian."
FULL = ("slice", ("const", None), ("const", None), ("const", None))
TWO = ("slice", ("const", None), ("const", 2), ("const", None))


def _operator_tables(prog) -> dict:
    """Operators.<name> -> nested list of complex, literal-evaluated from the class body"""
    K = prog.cls(H + "Operators")
    out = {}
    for st in K.node.body:
        if isinstance(st, ast.Assign) and len(st.targets) == 1 and isinstance(st.targets[0], ast.Name) and isinstance(st.value, ast.Call):
            fn = util.text(st.value.func)
            if fn == "torch.tensor" and st.value.args:
                try:
                    out[st.targets[0].id] = ast.literal_eval(st.value.args[0])
                except (ValueError, SyntaxError):
                    pass
    return out


def local_term(ctx) -> None:
    prog = ctx.prog
    f = prog.func(H + "update_H")
    P = lambda n: ("param", f.qualname, n)  # noqa: E731
    tabs = _operator_tables(prog)
    ctx.require({"sx", "sy", "n"} <= set(tabs), f"HAM-mps: Operators tables found: {sorted(tabs)}")
    rets = [p for p in Interp(prog, None, inline=lambda c, r, d: False, loop_iters=(1,)).run(f) if p.status == "return"]
    ctx.require(rets, "HAM-mps: update_H has no returning path")
    for p in rets:
        sets = [e for e in p.events if e.kind == "setitem"]
        acc = [e for e in sets if e.aug == "Add" or e.aug == "Sub"]
        ok = len(acc) == 1 and acc[0].aug == "Add"
        why = f"{len(acc)} accumulating stores"
        base = None
        if ok:
            e = acc[0]
            base = strip_typed(e.target[0])
            idx = strip_typed(e.target[1])
            blk = idx == ("tuple", (FULL, TWO, TWO))
            # base = stack(nqubits * [noise]) with nqubits = omega.size(0)
            okb = False
            if base[0] == "call" and base[1] == "torch.stack" and len(base[2]) >= 1:
                rep = strip_typed(base[2][0])
                if rep[0] == "bin" and rep[1] == "Mult":
                    parts = [strip_typed(rep[2]), strip_typed(rep[3])]
                    lst = [x for x in parts if x[0] == "list"]
                    cnt = [x for x in parts if x[0] == "mcall" and strip_typed(x[1]) == P("omega") and x[2] in ("size", "numel")]
                    okb = len(lst) == 1 and len(cnt) == 1 and [strip_typed(x) for x in lst[0][1]] == [P("noise")]
            # value: linear combination of tensordot(coef, Operators.X, dims=0)
            entries = {(r, c): num(0) for r in range(2) for c in range(2)}
            lin = True

            def expand(t, sign):
                nonlocal lin
                t = strip_typed(t)
                if t[0] == "bin" and t[1] in ("Add", "Sub"):
                    expand(t[2], sign)
                    expand(t[3], sign if t[1] == "Add" else -sign)
                    return
                if t[0] == "call" and t[1] == "torch.tensordot" and len(t[2]) == 2 and dict(t[3]).get("dims") == ("const", 0):
                    coef, op = strip_typed(t[2][0]), strip_typed(t[2][1])
                    if op[0] == "ref" and op[1].startswith(H + "Operators.") and op[1].split(".")[-1] in tabs:
                        tab = tabs[op[1].split(".")[-1]]
                        for r in range(2):
                            for c in range(2):
                                v = complex(tab[r][c]) * sign
                                if v != 0:
                                    entries[(r, c)] = add(entries[(r, c)], mul(num(v), coef))
                        return
                lin = False

            expand(e.value, 1)
            om, de, ph = P("omega"), P("delta"), P("phi")
            cos, sin = ("call", "torch.cos", (ph,), ()), ("call", "torch.sin", (ph,), ())
            half = num(0.5)
            want = {
                (0, 0): num(0),
                (0, 1): mul(half, om, sub(cos, mul(num(1j), sin))),     # <g|H|r> = Ω/2 e^{-iφ}
                (1, 0): mul(half, om, add(cos, mul(num(1j), sin))),     # <r|H|g> = Ω/2 e^{+iφ}
                (1, 1): mul(num(-1), de),                                 # <r|H|r> = −δ
            }
            wrong = [rc for rc in want if not (lin and rat_equal(entries[rc], want[rc]))]
            ok = blk and okb and lin and not wrong
            why = ("the drive term is not added to the [:, :2, :2] block" if not blk else
                   "the terms are not accumulated onto one copy of the noise term per qubit" if not okb else
                   "the added value is not a combination of tensordot(coefficient, Operators.<x>, dims=0)" if not lin else
                   (f"entry {wrong[0]} of the single-site term is not "
                    f"{ {(0, 0): '0', (0, 1): 'Ω/2·e^(−iφ)', (1, 0): 'Ω/2·e^(+iφ)', (1, 1): '−δ'}[wrong[0]] } (basis g, r)") if wrong else "")
        ctx.ob("HAM-mps", "single-site term", acc[0].loc() if acc else f.loc(), ok,
               "per qubit: noise + [[0, Ω/2·e^(−iφ)], [Ω/2·e^(+iφ), −δ]] on the (g, r) block — Pulser's Ω/2(cosφ σx − sinφ σy) − δ n" if ok else
               f"update_H: {why}: the MPO no longer carries Pulser's drive Hamiltonian")
        # slots
        first = [e for e in sets if e.aug is None and strip_typed(e.target[0])[0] == "sub" and strip_typed(strip_typed(e.target[0])[2]) == ("const", 0)]
        rest = [e for e in sets if e.aug is None and strip_typed(e.target[0])[0] == "sub" and strip_typed(strip_typed(e.target[0])[2])[0] == "elem"]
        facs = ("attr", P("hamiltonian"), "factors")
        ok1 = len(first) == 1 and strip_typed(strip_typed(first[0].target[0])[1]) == facs and \
            strip_typed(first[0].target[1]) == ("tuple", (("const", 0), FULL, FULL, ("const", 0))) and \
            base is not None and strip_typed(first[0].value) == ("sub", base, ("const", 0))
        ok2 = False
        if len(rest) == 1:
            e = rest[0]
            i = strip_typed(strip_typed(e.target[0])[2])
            rng = strip_typed(i[1])
            n_ok = rng[0] == "call" and rng[1] == "range" and len(rng[2]) == 2 and strip_typed(rng[2][0]) == ("const", 1) and \
                strip_typed(rng[2][1])[0] == "mcall" and strip_typed(strip_typed(rng[2][1])[1]) == P("omega") and strip_typed(rng[2][1])[2] in ("size", "numel")
            ok2 = n_ok and strip_typed(strip_typed(e.target[0])[1]) == facs and \
                strip_typed(e.target[1]) == ("tuple", (("const", 1), FULL, FULL, ("const", 0))) and \
                base is not None and strip_typed(e.value) == ("sub", base, i)
        ctx.ob("HAM-mps", "slots", f.loc(), ok1 and ok2,
               "site 0: factors[0][0,:,:,0]; site i in 1..n−1: factors[i][1,:,:,0]; each receives its own term" if ok1 and ok2 else
               f"update_H does not write term 0 to factors[0][0,:,:,0] (ok={ok1}) and term i to factors[i][1,:,:,0] for every "
               f"i in range(1, n) (ok={ok2}): some qubit keeps a stale or foreign single-site term")


# builder method -> identity stores every path must make (bond-in, bond-out)
CHANNELS = {
    "first_factor": {(0, 1)},
    "left_factor": {(0, 0), (1, 1)},
    "middle_factor": {(0, 0), (1, 1)},
    "right_factor": {(0, 0), (1, 1)},
    "last_factor": {(0, 0)},
}


def channels(ctx) -> None:
    prog = ctx.prog
    for cname in ("RydbergHamiltonianMPOFactors", "XYHamiltonianMPOFactors"):
        K = prog.cls(H + cname)
        for mname, want in CHANNELS.items():
            m = K.methods[mname]
            paths = [p for p in Interp(prog, K, inline=lambda c, r, d: False, loop_iters=(0, 1)).run(m) if p.status == "return"]
            ctx.require(paths, f"HAM-mps: {cname}.{mname} has no returning path")
            bad = None
            for p in paths:
                ret = strip_typed(p.retval)
                got = set()
                slot_taken = None
                for e in p.events:
                    if e.kind != "setitem" or strip_typed(e.target[0]) != ret:
                        continue
                    idx = strip_typed(e.target[1])
                    if idx[0] != "tuple" or len(idx[1]) != 4:
                        continue
                    i, a, b, j = (strip_typed(x) for x in idx[1])
                    if i[0] == "const" and j[0] == "const" and (a, b) == (FULL, FULL) and strip_typed(e.value) == ("attr", SELF, "identity"):
                        got.add((i[1], j[1]))
                    slot = (0, 0) if mname == "first_factor" else (1, 0)
                    if i[0] == "const" and j[0] == "const" and (i[1], j[1]) == slot:
                        slot_taken = show(e.value)[:30]
                if not want <= got:
                    bad = f"identity channels stored {sorted(got)}, expected {sorted(want)}"
                if slot_taken is not None:
                    bad = f"the single-site slot is written by the builder ({slot_taken}); update_H overwrites it"
            ctx.ob("HAM-mps", f"channels {cname}.{mname}", m.loc(), bad is None,
                   f"identity on {sorted(want)}; the single-site slot is left to update_H" if bad is None else
                   f"{cname}.{mname}: {bad} — the automaton convention update_H relies on (1 = pending, 0 = done) is broken")
