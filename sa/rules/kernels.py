"""Small numerical kernels whose *defining formula* is visible in the code: the truncation cut-off and the evaluation
of the PCHIP cubic.  Only the formula is decided, not the arithmetic."""
from __future__ import annotations

import ast

from ..algebra import same
from ..interp import Interp, SELF, show, strip_typed, walk
from ..model import AnalysisError
from . import util


def truncation_cutoff(ctx) -> None:
    """emu_mps.utils._determine_cutoff_index(d, max_error): d holds the squared singular values in ascending order; the
    values below the returned index are discarded, so the index is the first position at which the *running sum*
    of d exceeds max_error² — comparing each value on its own lets k small values go, k·precision² in total."""
    prog = ctx.prog
    f = prog.func("emu_mps.utils._determine_cutoff_index")
    d, err = f.params[0], f.params[1]

    def is_sq(node) -> bool:
        n = util.inline_locals(f, node)
        t = util.text(n).replace(" ", "").strip("()")
        return t in (f"{err}*{err}", f"{err}**2", f"{err}**2.0", f"pow({err},2)")

    cmps = []
    for n in ast.walk(f.node):
        if isinstance(n, ast.Compare) and len(n.ops) == 1 and isinstance(n.ops[0], (ast.Gt, ast.GtE, ast.Lt, ast.LtE)):
            l, r = n.left, n.comparators[0]
            if is_sq(r):
                cmps.append((l, n))
            elif is_sq(l):
                cmps.append((r, n))
    ctx.require(cmps, "TRUNC-cutoff: no comparison against max_error² in _determine_cutoff_index")
    verdicts = []
    for lhs, node in cmps:
        kind = "unknown"
        if isinstance(lhs, ast.Name):
            augs = [a for a in ast.walk(f.node) if isinstance(a, ast.AugAssign) and isinstance(a.target, ast.Name)
                    and a.target.id == lhs.id and isinstance(a.op, ast.Add)]
            inits = [a for a in ast.walk(f.node) if isinstance(a, ast.Assign) and any(isinstance(t, ast.Name) and t.id == lhs.id for t in a.targets)]
            loops = [lp for lp in ast.walk(f.node) if isinstance(lp, ast.For) and any(a in ast.walk(lp) for a in augs)]
            if augs and loops and all(util.text(a.value).replace(" ", "").startswith(f"{d}[") for a in augs) and \
                    all(isinstance(i.value, ast.Constant) and i.value.value == 0 for i in inits) and inits:
                lp = loops[0]
                over_all = util.text(lp.iter).replace(" ", "") in (f"range({d}.shape[0])", f"range(len({d}))")
                idx = lp.target.id if isinstance(lp.target, ast.Name) else None
                same_idx = all(util.text(a.value).replace(" ", "").startswith(f"{d}[{idx}]") for a in augs)
                rets = [r for r in ast.walk(lp) if isinstance(r, ast.Return)]
                ret_idx = len(rets) == 1 and util.text(rets[0].value) == idx
                kind = "running-sum" if over_all and same_idx and ret_idx else "unknown"
            else:
                src = util.inline_locals(f, lhs)
                if any(isinstance(c, ast.Call) and util.text(c.func).split(".")[-1] == "cumsum" for c in ast.walk(src)):
                    kind = "running-sum"
                elif util.text(src).replace(" ", "").startswith(d):
                    kind = "per-value"
        else:
            src = util.inline_locals(f, lhs)
            t = util.text(src).replace(" ", "")
            if any(isinstance(c, ast.Call) and util.text(c.func).split(".")[-1] == "cumsum" for c in ast.walk(src)):
                kind = "running-sum"
            elif t == d or t.startswith(f"{d}["):
                kind = "per-value"
        verdicts.append((kind, node))
    if any(k == "unknown" for k, _ in verdicts):
        raise AnalysisError(f"TRUNC-cutoff: unrecognised cut-off idiom in _determine_cutoff_index: "
                            f"{[util.text(n, 60) for k, n in verdicts if k == 'unknown']}")
    bad = [n for k, n in verdicts if k == "per-value"]
    ctx.ob("TRUNC-cutoff", "discarded weight is a running sum", f.loc(bad[0] if bad else cmps[0][1]), not bad,
           "the cut-off is the first index at which the accumulated discarded weight exceeds max_error²" if not bad else
           f"_determine_cutoff_index compares the individual values `{util.text(bad[0], 50)}` with max_error²: every value "
           f"below the precision is dropped, so k of them discard up to k·precision² at one bond")


def pchip_evaluation(ctx) -> None:
    """PCHIP1D.__call__(xq) = p0 + p1·t + p2·t² + p3·t³ with t = xq − x[i] and (p0..p3) the coefficients of interval
    i = clamp(searchsorted(x, xq, right=True) − 1, 0, n−2): inside the knots the interval's cubic, outside the cubic of
    the end interval continued (the standard PCHIP extrapolation the adapter relies on for midpoints past the last
    sample)."""
    prog = ctx.prog
    K = prog.cls("emu_base.math.pchip_torch.PCHIP1D")
    f = K.methods["__call__"]
    it = Interp(prog, K, inline=lambda c, r, d: False)
    rets = [p for p in it.run(f) if p.status == "return"]
    ctx.require(len(rets) == 1, f"PCHIP-eval: {len(rets)} returning paths in PCHIP1D.__call__")
    r = rets[0].retval
    unb = [t for t in walk(r) if t[0] == "mcall" and t[2] == "unbind"]
    idxs = [t for t in walk(r) if t[0] == "mcall" and t[2].endswith("_interval_index")]
    ok = False
    why = "no coefficient unbind / interval index found"
    if unb and idxs:
        U, I = unb[0], idxs[0]
        Q = strip_typed(I[3][0]) if I[3] else None
        X = ("sub", ("attr", SELF, "x"), I)
        t = ("bin", "Sub", Q, X)
        p = [("unpack", U, k, 4) for k in range(4)]
        t2 = ("bin", "Mult", t, t)
        want = ("bin", "Add", ("bin", "Add", ("bin", "Add", p[0], ("bin", "Mult", p[1], t)), ("bin", "Mult", p[2], t2)),
                ("bin", "Mult", p[3], ("bin", "Mult", t2, t)))
        src_ok = strip_typed(U[1]) == ("sub", ("attr", SELF, "_coeffs"), I) and Q is not None and \
            Q[0] == "call" and Q[1] == "torch.as_tensor" and strip_typed(Q[2][0]) == ("param", f.qualname, f.params[1])
        ok = src_ok and same(r, want)
        why = "the returned expression is not p0 + p1·t + p2·t² + p3·t³ with t = xq − x[i]" if src_ok else \
            f"coefficients / query are taken from {show(U[1])[:50]} / {show(Q)[:40] if Q else '?'}"
    ctx.ob("PCHIP-eval", "cubic of the located interval", f.loc(), ok,
           "PCHIP1D(xq) = Σ_k p_k(i)·(xq − x[i])^k for the interval i that contains xq (end intervals continued outside)" if ok else
           f"PCHIP1D.__call__: {why}: midpoints (in particular those past the last Pulser sample) no longer get the value "
           f"of the shape-preserving cubic")
    g = K.methods["_interval_index"]
    rg = [p for p in it.run(g) if p.status == "return"]
    oki = False
    if len(rg) == 1:
        v = strip_typed(rg[0].retval)
        if v[0] == "mcall" and v[2] == "clamp" and len(v[3]) == 2:
            lo, hi = strip_typed(v[3][0]), v[3][1]
            inner = strip_typed(v[1])
            ss = [t for t in walk(inner) if t[0] == "call" and t[1] == "torch.searchsorted"]
            right = bool(ss) and dict(ss[0][3]).get("right") == ("const", True) and strip_typed(ss[0][2][0]) == ("attr", SELF, "x")
            oki = lo == ("const", 0) and right and same(inner, ("bin", "Sub", ss[0], ("const", 1))) and \
                same(hi, ("bin", "Sub", ("mcall", ("attr", SELF, "x"), "numel", (), ()), ("const", 2)))
    ctx.ob("PCHIP-eval", "interval index", g.loc(), oki,
           "i = clamp(searchsorted(x, xq, right=True) − 1, 0, n − 2)" if oki else
           "PCHIP1D._interval_index no longer returns clamp(searchsorted(x, xq, right=True) − 1, 0, n − 2)")


BUILDERS = [("emu_mps.mpo.MPO._from_operator_repr", "MPO"),
            ("emu_sv.dense_operator.DenseOperator._from_operator_repr", "DenseOperator"),
            ("emu_sv.sparse_operator.SparseOperator._from_operator_repr", "SparseOperator")]


def symbolic_operator_builder(ctx) -> None:
    """The nested helper of _from_operator_repr that turns a symbolic single-site operator {symbol: weight} into a tensor:
    a tensor is returned as it is; a dictionary gives zeros + Σ weight·tensor(symbol) over *its own* items — every
    returning path is one of these (a value fetched from anywhere else, e.g. a cache keyed on the symbols only, does not
    carry the weights of this operator)."""
    from ..algebra import monomials
    prog = ctx.prog
    for outer_q, owner in BUILDERS:
        nested = [f for q, f in prog.funcs.items() if q.startswith(outer_q + ".<locals>.")]
        ctx.require(len(nested) == 1, f"TABLES-build: {len(nested)} nested builders in {owner}._from_operator_repr")
        f = nested[0]
        par = ("param", f.qualname, f.params[0])
        it = Interp(prog, None, inline=lambda c, r, d: False, loop_iters=(0, 1))
        bad = []
        kinds = set()
        for p in it.run(f):
            if p.status != "return":
                continue
            r = strip_typed(p.retval)
            is_tensor = None
            for c, t in p.cond_log:
                c0 = strip_typed(c)
                if c0[0] == "call" and c0[1] == "isinstance" and strip_typed(c0[2][0]) == par:
                    is_tensor = t
            if is_tensor is True:
                if r == par:
                    kinds.add("tensor")
                else:
                    bad.append(f"a tensor argument is returned as {show(r)[:50]}")
                continue
            mons = monomials(r)
            zero = [m for m in mons if len(m) == 1 and strip_typed(_base(m[0]))[0] == "call" and strip_typed(_base(m[0]))[1] == "torch.zeros"]
            terms = [m for m in mons if m not in zero]
            if len(zero) == 1 and abs(mons[zero[0]] - 1) < 1e-12 and not terms:
                kinds.add("empty")
                continue
            ok = len(zero) == 1 and abs(mons[zero[0]] - 1) < 1e-12 and len(terms) == 1 and abs(mons[terms[0]] - 1) < 1e-12 and len(terms[0]) == 2
            if ok:
                a, b = (strip_typed(x) for x in terms[0])
                rec, w = (a, b) if a[0] in ("call", "vcall") else (b, a)
                item_src = lambda t: t[0] == "unpack" and strip_typed(t[1])[0] == "elem" and \
                    strip_typed(strip_typed(t[1])[1]) == ("mcall", par, "items", (), ())  # noqa: E731
                wk = item_src(w) and w[2] == 1
                arg = strip_typed(rec[2][0]) if rec[0] == "call" and rec[2] else (strip_typed(rec[2][0]) if rec[0] == "vcall" and rec[2] else None)
                self_call = rec[0] in ("call", "vcall") and (f.qualname in show(rec) or f.name in show(rec))
                key_ok = arg is not None and arg[0] == "sub" and item_src(strip_typed(arg[2])) and strip_typed(arg[2])[2] == 0
                ok = wk and self_call and key_ok
            if ok:
                kinds.add("sum")
            else:
                bad.append(f"a symbolic operator is returned as {show(r)[:70]}")
        good = not bad and kinds == {"tensor", "empty", "sum"}
        ctx.ob("TABLES-build", f"{owner}|symbolic operators", f.loc(), good,
               "tensor ↦ itself; {symbol: weight} ↦ zeros + Σ weight · builder(table[symbol]) over its own items" if good else
               f"{owner}: {(bad or ['paths found: ' + str(sorted(kinds))])[0]} — the tensor built for a symbolic operator does "
               f"not depend on that operator's weights alone")


def _base(t):
    t = strip_typed(t)
    while t[0] == "mcall" and t[2] in ("to_sparse_coo", "to", "coalesce", "view"):
        t = strip_typed(t[1])
    return t


def sparse_csr_from_coalesced(ctx) -> None:
    """SparseOperator._from_operator_repr hands `to_sparse_csr()` a COO tensor that went through `sparse_add` (which
    coalesces: sorts the indices and sums duplicates) after the last `sparse_kron` — on every path, also for a single
    term.  `sparse_kron` labels its result coalesced without sorting it, so a term that bypasses the sum is converted to
    CSR from unsorted indices and the matrix is silently wrong."""
    prog = ctx.prog
    f = prog.func("emu_sv.sparse_operator.SparseOperator._from_operator_repr")
    it = Interp(prog, f.cls, inline=lambda c, r, d: False, loop_iters=(1,), max_paths=20000)
    n = 0
    bad = None
    for p in it.run(f):
        if p.status != "return":
            continue
        r = strip_typed(p.retval)
        op = strip_typed(r[1][0]) if r[0] == "tuple" and r[1] else r
        if not (op[0] == "new" and op[1].endswith("SparseOperator") and op[2]):
            continue
        n += 1
        d = strip_typed(op[2][0])
        if not (d[0] == "mcall" and d[2] == "to_sparse_csr"):
            bad = bad or f"the operator is built from {show(d)[:60]}, not from <COO>.to_sparse_csr()"
            continue
        src = strip_typed(d[1])
        ok = (src[0] == "call" and src[1].endswith("sparse_add")) or (src[0] == "mcall" and src[2] == "coalesce")
        if not ok:
            bad = bad or f"to_sparse_csr() is applied to {show(src)[:70]}"
    ctx.require(n >= 1, "TABLES-terms: no returning path of SparseOperator._from_operator_repr builds a SparseOperator")
    ctx.ob("TABLES-terms", "SparseOperator|CSR from a coalesced sum", f.loc(), bad is None,
           "the COO tensor converted to CSR is the result of sparse_add (coalesced) on every path" if bad is None else
           f"SparseOperator._from_operator_repr: {bad} on some path — a product of sparse_kron that skips the coalescing sum has "
           f"unsorted indices and gives a wrong CSR matrix (e.g. a single term containing a Hadamard on a qubit other than the last)")


def pchip_end_slopes(ctx) -> None:
    """Standard PCHIP end slopes (Fritsch–Carlson three-point formula with the shape-preserving limiter, as in SciPy's
    `_edge_case`): the three-point estimate d is set to 0 whenever its sign differs from the sign of the boundary secant
    m0 — which includes m0 = 0 (a flat end interval must stay flat) — and capped at 3·m0 when the two end secants differ
    in sign and |d| > 3|m0|.  Also: each end passes (its boundary secant, the next one) in that order."""
    prog = ctx.prog
    f = prog.func("emu_base.math.pchip_torch._limit_endpoint")
    d, sl, sr = (("param", f.qualname, n) for n in f.params[:3])
    rets = [p for p in Interp(prog, None, inline=lambda c, r, d_: False).run(f) if p.status == "return"]
    ctx.require(len(rets) == 1, "PCHIP-end: _limit_endpoint is expected to be straight-line code")
    r = strip_typed(rets[0].retval)
    zero_masks = []
    for t in walk(r):
        if t[0] == "call" and t[1] == "torch.where" and len(t[2]) == 3:
            m, a, b = (strip_typed(x) for x in t[2])
            if a[0] == "call" and a[1] in ("torch.zeros_like", "torch.zeros") and b == d:
                zero_masks.append(m)
    ok = False
    why = "no `where(mask, 0, d_end)` found"
    for m in zero_masks:
        if m[0] == "cmp" and m[1] in ("<", "<=") and strip_typed(m[3]) in (("const", 0), ("const", 0.0)):
            prod = strip_typed(m[2])
            is_prod = prod[0] == "bin" and prod[1] == "Mult" and {strip_typed(prod[2]), strip_typed(prod[3])} == {d, sl}
            if is_prod and m[1] == "<=":
                ok = True
            elif is_prod:
                why = "the end slope is zeroed only when d_end·s_l < 0: with a zero boundary secant (flat end interval) it is kept"
        elif m[0] == "cmp" and m[1] == "!=":
            sg = lambda t_, x: strip_typed(t_)[0] == "call" and strip_typed(t_)[1] in ("torch.sign", "torch.sgn") and strip_typed(strip_typed(t_)[2][0]) == x  # noqa: E731
            ok = (sg(m[2], d) and sg(m[3], sl)) or (sg(m[2], sl) and sg(m[3], d))
            if not ok:
                why = f"the zeroing mask is {show(m)[:60]}"
    ctx.ob("PCHIP-end", "end slope zeroed against the boundary secant, zero secant included", f.loc(), ok,
           "d_end ← 0 whenever sign(d_end) ≠ sign(boundary secant) (a flat end interval keeps slope 0)" if ok else
           f"_limit_endpoint: {why} — e.g. samples (…, a, 0, 0): the interpolant leaves the flat last interval (PCHIP1D(range(6), "
           f"[0,1,3,5,0,0]) gives −0.31 at 4.5 and 2.81 at 5.5, standard PCHIP gives 0), so midpoints in the first/last "
           f"nanoseconds of a pulse that starts after or ends before a delay get a wrong detuning/phase")
    # the call sites: (boundary secant, next secant)
    g = prog.func("emu_base.math.pchip_torch._pchip_derivatives")
    okc = True
    n = 0
    for p in Interp(prog, None, inline=lambda c, r_, d_: False).run(g):
        for e in p.events:
            if e.kind == "call" and e.name == f.qualname:
                n += 1
                a, b = strip_typed(e.args.get(f.params[1])), strip_typed(e.args.get(f.params[2]))
                if not (a[0] == "sub" and b[0] == "sub" and strip_typed(a[1]) == strip_typed(b[1])):
                    okc = False
                    continue
                ia, ib = strip_typed(a[2]), strip_typed(b[2])
                pair = (ia[1] if ia[0] == "const" else None, ib[1] if ib[0] == "const" else None)
                okc = okc and pair in ((0, 1), (-1, -2))
        if n:
            break
    ctx.require(n == 2, f"PCHIP-end: {n} calls of _limit_endpoint in _pchip_derivatives, 2 confirmed by hand")
    ctx.ob("PCHIP-end", "each end passes (boundary secant, next secant)", g.loc(), okc,
           "left end: (δ[0], δ[1]); right end: (δ[-1], δ[-2])" if okc else
           "_pchip_derivatives hands _limit_endpoint the two end secants in the wrong order: the end slope is limited against "
           "the inner secant instead of the boundary one")


def mps_apply_operator(ctx) -> None:
    """MPS.apply(k, A) replaces factor k (bond, physical, bond) by Σ_j A[i, j]·factor[a, j, b]: the operator's *column*
    index is contracted with the physical leg and its row index takes the leg's place.  Accepted spellings: `A @ factor`
    (broadcast matmul), tensordot with dims=([1],[1]) in either operand order followed by the transposition that puts the
    new physical index in the middle, einsum 'ij,ajb->aib'.  (With the row index contracted the transpose is applied:
    invisible for symmetric operators, and the relaxation jump |g><r| becomes an excitation.)"""
    prog = ctx.prog
    K = prog.cls("emu_mps.mps.MPS")
    f = K.methods["apply"]
    ctx.require(len(f.params) >= 3, "APPLY-op: MPS.apply(self, qubit_index, single_qubit_operator) expected")
    q, A = ("param", f.qualname, f.params[1]), ("param", f.qualname, f.params[2])
    fac = ("sub", ("attr", SELF, "factors"), q)
    paths = [p for p in Interp(prog, K, inline=lambda c, r, d_: False).run(f) if p.status == "return"]
    ctx.require(paths, "APPLY-op: MPS.apply has no returning path")

    def is_op(t):
        t = strip_typed(t)
        while t[0] == "mcall" and t[2] in ("to", "cpu", "clone", "contiguous", "type", "cuda"):
            t = strip_typed(t[1])
        return t == A

    def is_fac(t):
        t = strip_typed(t)
        while t[0] == "mcall" and t[2] in ("to", "clone", "contiguous"):
            t = strip_typed(t[1])
        return t == fac

    bad = None
    n = 0
    for p in paths:
        st = [e for e in p.events if e.kind == "setitem" and strip_typed(e.target[0]) == ("attr", SELF, "factors") and strip_typed(e.target[1]) == q]
        if len(st) != 1:
            bad = f"{len(st)} stores into self.factors[qubit_index]"
            continue
        n += 1
        v = strip_typed(st[0].value)
        perm = None            # permutation applied after a tensordot: list of output axes in terms of the raw result
        while v[0] == "mcall" and v[2] in ("contiguous", "clone"):
            v = strip_typed(v[1])
        if v[0] == "mcall" and v[2] == "transpose" and len(v[3]) == 2:
            a_, b_ = (strip_typed(x)[1] for x in v[3])
            perm = ("transpose", a_, b_)
            v = strip_typed(v[1])
        elif v[0] == "mcall" and v[2] == "permute":
            perm = ("permute",) + tuple(strip_typed(x)[1] for x in (strip_typed(v[3][0])[1] if len(v[3]) == 1 and strip_typed(v[3][0])[0] in ("tuple", "list") else v[3]))
            v = strip_typed(v[1])
        ok = False
        if v[0] == "bin" and v[1] == "MatMult":
            ok = perm is None and is_op(v[2]) and is_fac(v[3])
            why = "the new factor is not `operator @ factor`"
        elif v[0] == "call" and v[1] == "torch.tensordot" and len(v[2]) == 2:
            dims = dict(v[3]).get("dims") or (v[2][2] if len(v[2]) > 2 else None)
            d = strip_typed(dims) if dims is not None else None
            pair = None
            if d is not None and d[0] in ("tuple", "list") and len(d[1]) == 2:
                x, y = (strip_typed(z) for z in d[1])
                if x[0] in ("list", "tuple") and y[0] in ("list", "tuple") and len(x[1]) == 1 and len(y[1]) == 1:
                    pair = (strip_typed(x[1][0])[1], strip_typed(y[1][0])[1])
            L, R = v[2]
            if pair is None:
                why = "tensordot dims not understood"
            elif is_fac(L) and is_op(R):
                # raw result axes: (a, b, i) with i = the operator's free index
                ok = pair == (1, 1) and perm in (("transpose", 1, 2), ("transpose", 2, 1), ("transpose", -1, -2), ("transpose", -2, -1), ("permute", 0, 2, 1))
                why = f"tensordot(factor, operator, dims=([{pair[0]}],[{pair[1]}])) contracts the operator's {'row' if pair[1] == 0 else 'column'} index" + \
                    ("" if perm else " and the result is not transposed back to (bond, physical, bond)")
            elif is_op(L) and is_fac(R):
                ok = pair == (1, 1) and perm in (("transpose", 0, 1), ("transpose", 1, 0), ("permute", 1, 0, 2))
                why = f"tensordot(operator, factor, dims=([{pair[0]}],[{pair[1]}])) contracts the operator's {'row' if pair[0] == 0 else 'column'} index"
            else:
                why = "tensordot operands are not (factor, operator)"
        elif v[0] == "call" and v[1] == "torch.einsum" and len(v[2]) == 3 and strip_typed(v[2][0])[0] == "const":
            spec = str(strip_typed(v[2][0])[1]).replace(" ", "")
            ins, out = spec.split("->") if "->" in spec else (spec, "")
            parts = ins.split(",")
            ops = [strip_typed(x) for x in v[2][1:]]
            why = f"einsum '{spec}' is not Σ_j A[i,j]·factor[a,j,b] → [a,i,b]"
            if len(parts) == 2 and perm is None:
                for (sa_, ta), (sb_, tb) in (((parts[0], ops[0]), (parts[1], ops[1])), ((parts[1], ops[1]), (parts[0], ops[0]))):
                    if is_op(ta) and is_fac(tb) and len(sa_) == 2 and len(sb_) == 3 and sa_[1] == sb_[1] and \
                            out == sb_[0] + sa_[0] + sb_[2] and len({sa_[0], sb_[0], sb_[1], sb_[2]}) == 4:
                        ok = True
        else:
            why = f"self.factors[qubit_index] = {show(v)[:60]}"
        if not ok:
            bad = why
    ctx.ob("APPLY-op", "single-site operator applied, not its transpose", f.loc(), bad is None and n >= 1,
           "new factor[a,i,b] = Σ_j A[i,j]·factor[a,j,b]" if bad is None and n >= 1 else
           f"MPS.apply: {bad}: the transpose of the operator is applied (wrong for every non-symmetric operator: σ±, σʸ, the "
           f"relaxation jump |g><r|)")
