"""BRENT (C19): the bracketing invariant is preserved on every path, every queried point passes the inside-the-bracket
guard or is the midpoint, and the driver loop feeds each abscissa back with the function value at exactly that abscissa.

Invariant INV of BrentsRootFinder between calls:  A = (a, fa) and B = (b, fb) are (abscissa, ordinate) pairs of the
function, fa·fb < 0 (≤ 0 once an exact zero was fed back), |fb| ≤ |fa|.  The rules are Hoare-style: assume INV in the
symbolic pre-state (fields = `self.<name>`), read the post-state off each returning path of the abstract interpreter,
and decide INV there from the path conditions.
"""
from __future__ import annotations

from ..interp import Interp, SELF, show, strip_typed, walk
from ..ratfun import add, div, mul, num, rat_equal, sub

B = "emu_base.math.brents_root_finding."


def _fld(n):
    return ("attr", SELF, n)


def _fin(p, n):
    return strip_typed(p.heap.get((SELF, n), _fld(n)))


def _paths(prog, K, name, **kw):
    return [p for p in Interp(prog, K, inline=lambda c, r, d: False, **kw).run(K.methods[name])]


def _abs_arg(t):
    t = strip_typed(t)
    if t[0] == "call" and t[1] in ("abs", "math.fabs", "builtins.abs") and len(t[2]) == 1:
        return strip_typed(t[2][0])
    return None


def _better_guess(p, fa_f, fb_f) -> bool:
    """do the path conditions establish |fb_final| <= |fa_final| ?"""
    verdict = None
    for c, t in p.cond_log:
        c0 = strip_typed(c)
        if c0[0] != "cmp" or c0[1] not in ("<", "<=", ">", ">="):
            continue
        l, r = _abs_arg(c0[2]), _abs_arg(c0[3])
        if l is None or r is None:
            continue
        op = c0[1]
        if not t:
            op = {"<": ">=", "<=": ">", ">": "<=", ">=": "<"}[op]
        # now |l| op |r| holds
        if (l, r) == (fb_f, fa_f):
            verdict = op in ("<", "<=")
        elif (l, r) == (fa_f, fb_f):
            verdict = op in (">", ">=")
    return verdict is True


def bracket(ctx) -> None:
    prog = ctx.prog
    K = prog.cls(B + "BrentsRootFinder")
    f = K.methods["provide_ordinate"]
    ctx.require(len(f.params) >= 3, "BRENT: provide_ordinate(self, abscissa, ordinate) expected")
    x, o = ("param", f.qualname, f.params[1]), ("param", f.qualname, f.params[2])
    A0, B0, N = (_fld("a"), _fld("fa")), (_fld("b"), _fld("fb")), (x, o)
    rets = [p for p in _paths(prog, K, "provide_ordinate") if p.status == "return"]
    ctx.require(len(rets) >= 2, f"BRENT: {len(rets)} returning paths in provide_ordinate")
    for p in rets:
        Af, Bf = (_fin(p, "a"), _fin(p, "fa")), (_fin(p, "b"), _fin(p, "fb"))
        paired = Af in (A0, B0, N) and Bf in (A0, B0, N) and Af != Bf
        has_new = N in (Af, Bf)
        kept = [e for e in (Af, Bf) if e != N]
        sign_ok = False
        why = ""
        if paired and has_new and len(kept) == 1:
            # the retained old end must have an ordinate of the other sign than the new one
            ko = kept[0][1]
            other = B0[1] if kept[0] == A0 else A0[1]
            for c, t in p.cond_log:
                c0 = strip_typed(c)
                if c0[0] == "cmp" and c0[1] in ("<", "<=") and rat_equal(c0[3], num(0)):
                    if rat_equal(c0[2], mul(ko, o)) and t is True:
                        sign_ok = True          # kept·new < 0 tested directly
                    if rat_equal(c0[2], mul(other, o)) and t is False and c0[1] == "<":
                        sign_ok = True          # other·new >= 0, and INV (other·kept < 0) gives kept·new <= 0
                if c0[0] == "cmp" and c0[1] in (">", ">=") and rat_equal(c0[3], num(0)):
                    if rat_equal(c0[2], mul(other, o)) and t is True:
                        sign_ok = True
            why = f"keeps {show(kept[0][0])} although the path conditions do not give its ordinate the opposite sign of the new one"
        elif not paired:
            why = f"ends with (a, fa) = ({show(Af[0])}, {show(Af[1])}), (b, fb) = ({show(Bf[0])}, {show(Bf[1])}): an abscissa is stored with another point's ordinate"
        else:
            why = "does not store the new point as one end of the bracket"
        conds = " ∧ ".join(("" if t else "¬") + show(c)[:40] for c, t in p.cond_log[-2:])
        label = (f"new point ends as {'a' if Af == N else 'b' if Bf == N else '?'}, old "
                 f"{'a' if kept and kept[0] == A0 else 'b' if kept and kept[0] == B0 else '?'} kept") if paired else f"path {rets.index(p)}"
        ok = paired and has_new and sign_ok
        ctx.ob("BRENT-bracket", f"sign change kept [{label}]", f.loc(), ok,
               "the new point replaces the end whose ordinate has its sign; abscissae and ordinates move together" if ok else
               f"provide_ordinate under {conds} {why}: the bracket no longer encloses a sign change, so the returned point "
               f"need not be near a root")
        okb = paired and _better_guess(p, Af[1], Bf[1])
        ctx.ob("BRENT-bracket", f"b is the better guess [{label}]", f.loc(), okb,
               "|fb| <= |fa| after the update" if okb else
               f"provide_ordinate under {conds}: the path does not establish |fb| <= |fa| (b must be the end with the smaller residual)")
        okg = _fin(p, "current_guess") == Bf[0]
        ctx.ob("BRENT-bracket", f"current_guess is b [{label}]", f.loc(), okg,
               "current_guess = b" if okg else f"current_guess = {show(_fin(p, 'current_guess'))}, not the better end b")
        proto = any(strip_typed(c)[0] == "cmp" and strip_typed(c)[1] == "==" and
                    {strip_typed(strip_typed(c)[2]), strip_typed(strip_typed(c)[3])} == {x, _fld("next_abscissa")} and t
                    for c, t in p.cond_log)
        ctx.ob("BRENT-bracket", f"ordinate belongs to the requested abscissa [{label}]", f.loc(), proto,
               "the update is only reached when abscissa == next_abscissa" if proto else
               "provide_ordinate no longer insists that the ordinate is the one of the abscissa it asked for")


def initial(ctx) -> None:
    prog = ctx.prog
    K = prog.cls(B + "BrentsRootFinder")
    f = K.methods["__init__"]
    P = lambda n: ("param", f.qualname, n)  # noqa: E731
    S, E = (P("start"), P("f_start")), (P("end"), P("f_end"))
    rets = [p for p in _paths(prog, K, "__init__") if p.status == "return"]
    ctx.require(rets, "BRENT: BrentsRootFinder.__init__ has no returning path")
    for p in rets:
        Af, Bf = (_fin(p, "a"), _fin(p, "fa")), (_fin(p, "b"), _fin(p, "fb"))
        paired = {Af, Bf} == {S, E}
        sign = any(strip_typed(c)[0] == "cmp" and strip_typed(c)[1] == "<" and rat_equal(strip_typed(c)[3], num(0)) and
                   rat_equal(strip_typed(c)[2], mul(S[1], E[1])) and t for c, t in p.cond_log)
        order = any(strip_typed(c)[0] == "cmp" and ((strip_typed(c)[1] in ("<=", "<") and strip_typed(strip_typed(c)[2]) == S[0] and strip_typed(strip_typed(c)[3]) == E[0]) or
                                                    (strip_typed(c)[1] in (">=", ">") and strip_typed(strip_typed(c)[2]) == E[0] and strip_typed(strip_typed(c)[3]) == S[0])) and t
                    for c, t in p.cond_log)
        better = paired and _better_guess(p, Af[1], Bf[1])
        hist = _fin(p, "c") == Af[0] and _fin(p, "fc") == Af[1] and _fin(p, "d") == Af[0] and _fin(p, "bisection") == ("const", True) \
            and _fin(p, "current_guess") == Bf[0]
        ok = paired and sign and order and better and hist
        conds = " ∧ ".join(("" if t else "¬") + show(c)[:40] for c, t in p.cond_log[-1:])
        label = "b = start" if Bf == S else "b = end" if Bf == E else f"path {rets.index(p)}"
        ctx.ob("BRENT-init", f"invariant established [{label}]", f.loc(), ok,
               "start <= end and f_start·f_end < 0 are required; (a,fa),(b,fb) are the two given points with |fb| <= |fa|; "
               "c = d = a, first step is a bisection candidate" if ok else
               f"BrentsRootFinder.__init__ under {conds}: paired={paired}, sign change required={sign}, start<=end required={order}, "
               f"b better guess={better}, history initialised={hist}")


def _norm_cmp(c0, lhs_pred):
    """(op, other side) with the side satisfying lhs_pred on the left, or None"""
    flip = {"<": ">", "<=": ">=", ">": "<", ">=": "<="}
    if c0[0] != "cmp" or c0[1] not in flip:
        return None
    if lhs_pred(strip_typed(c0[2])):
        return c0[1], strip_typed(c0[3])
    if lhs_pred(strip_typed(c0[3])):
        return flip[c0[1]], strip_typed(c0[2])
    return None


def _is_scaled_abs(t, u, v, k: float) -> bool:
    """t == k·|u − v| in any of the spellings abs(k·(u−v)), k·abs(u−v), abs(u−v)·k, with u−v or v−u"""
    t = strip_typed(t)
    inner = _abs_arg(t)
    if inner is not None:
        return rat_equal(inner, mul(num(k), sub(u, v))) or rat_equal(inner, mul(num(k), sub(v, u)))
    for d in (sub(u, v), sub(v, u)):
        for name in ("abs",):
            if rat_equal(t, mul(num(k), ("call", name, (d,), ()))):
                return True
    # abs() of a term that is itself written differently (e.g. abs(self.a - self.b) stored in a local): compare atoms
    from ..ratfun import frac
    n, dn = frac(t)
    if len(dn) == 1 and () in dn and len(n) == 1:
        (mon, coef), = n.items()
        if len(mon) == 1:
            arg = _abs_arg(mon[0]) if isinstance(mon[0], tuple) else None
            if arg is not None and abs(coef / dn[()] - k) < 1e-12:
                return rat_equal(arg, sub(u, v)) or rat_equal(arg, sub(v, u))
    return False


def inside(ctx) -> None:
    prog = ctx.prog
    K = prog.cls(B + "BrentsRootFinder")
    f = K.methods["get_next_abscissa"]
    a, b, c_, d_ = _fld("a"), _fld("b"), _fld("c"), _fld("d")
    dab = sub(a, b)
    rets = [p for p in _paths(prog, K, "get_next_abscissa") if p.status == "return"]
    ctx.require(len(rets) >= 4, f"BRENT: {len(rets)} returning paths in get_next_abscissa")
    n_bis = n_int = 0
    bad_bis = bad_int = bad_hist = None
    for p in rets:
        nxt = _fin(p, "next_abscissa")
        ret = strip_typed(p.retval)
        flag = _fin(p, "bisection")
        if not (_fin(p, "d") == c_ and _fin(p, "c") == b and _fin(p, "fc") == _fld("fb")):
            bad_hist = f"history after the step is d={show(_fin(p, 'd'))}, c={show(_fin(p, 'c'))}, fc={show(_fin(p, 'fc'))}"
        if ret != nxt:
            bad_hist = f"returns {show(ret)[:50]} but records next_abscissa = {show(nxt)[:50]}"
        if rat_equal(ret, add(b, div(dab, num(2)))):
            n_bis += 1
            if flag != ("const", True):
                bad_bis = "a bisection step leaves the bisection flag False"
            continue
        n_int += 1
        dx = sub(ret, b)
        if flag != ("const", False):
            bad_int = "an interpolation step leaves the bisection flag True"
        is_adx = lambda t: _abs_arg(t) is not None and rat_equal(_abs_arg(t), dx)  # noqa: E731
        is_prod = lambda t: rat_equal(t, mul(dx, dab))  # noqa: E731
        g34 = gdir = False
        gh = {}
        was = None
        for c, t in p.cond_log:
            c0 = strip_typed(c)
            if c0 == _fld("bisection"):
                was = t
            m = _norm_cmp(c0, is_adx)
            if m is not None:
                op, other = m
                holds_lt = (op == ">=" and t is False) or (op == "<" and t is True)        # |dx| < other
                if holds_lt and _is_scaled_abs(other, a, b, 0.75):
                    g34 = True
                if holds_lt and _is_scaled_abs(other, b, c_, 0.5):
                    gh["bc"] = True
                if holds_lt and _is_scaled_abs(other, c_, d_, 0.5):
                    gh["cd"] = True
            m = _norm_cmp(c0, is_prod)
            if m is not None:
                op, other = m
                if rat_equal(other, num(0)) and ((op == "<" and t is False) or (op == ">=" and t is True)):
                    gdir = True
        if not (g34 and gdir):
            bad_int = (f"an interpolated point b + dx is returned on a path that has not established "
                       f"{'|dx| < |3(a−b)/4|' if not g34 else 'dx·(a−b) >= 0'}: the query can fall outside the bracket")
        elif was is None or not gh.get("bc" if was else "cd"):
            bad_int = ("an interpolated step is accepted without the step-halving test "
                       f"|dx| < |{'b−c' if was else 'c−d'}|/2: Brent's termination argument (every other step at least halves) is lost")
    ctx.require(n_bis >= 1 and n_int >= 2, f"BRENT: bisection paths={n_bis}, interpolation paths={n_int}")
    ctx.ob("BRENT-inside", "bisection steps query the midpoint", f.loc(), bad_bis is None,
           f"{n_bis} paths return b + (a−b)/2 with the bisection flag set" if bad_bis is None else bad_bis)
    ctx.ob("BRENT-inside", "interpolated steps are guarded", f.loc(), bad_int is None,
           f"{n_int} paths return b + dx only under |dx| < |3(a−b)/4|, dx·(a−b) >= 0 and the step-halving test" if bad_int is None else
           f"get_next_abscissa: {bad_int}")
    ctx.ob("BRENT-inside", "history (c, d, fc) and next_abscissa", f.loc(), bad_hist is None,
           "d ← c, (c, fc) ← (b, fb); the returned point is recorded as next_abscissa" if bad_hist is None else
           f"get_next_abscissa: {bad_hist}")


def driver(ctx) -> None:
    prog = ctx.prog
    K = prog.cls(B + "BrentsRootFinder")
    conv = [p for p in _paths(prog, K, "is_converged") if p.status == "return"]
    g = K.methods["is_converged"]
    okc = False
    if len(conv) == 1:
        r = strip_typed(conv[0].retval)
        tol = ("param", g.qualname, g.params[1])
        m = _norm_cmp(r, lambda t: _abs_arg(t) is not None and (rat_equal(_abs_arg(t), sub(_fld("b"), _fld("a"))) or rat_equal(_abs_arg(t), sub(_fld("a"), _fld("b")))))
        okc = m is not None and m[0] in ("<", "<=") and m[1] == tol
    ctx.ob("BRENT-driver", "converged means |b − a| < tolerance", g.loc(), okc,
           "is_converged(tol) ⇔ |b − a| < tol" if okc else f"is_converged returns {show(conv[0].retval)[:60] if conv else '?'}")
    f = prog.func(B + "find_root_brents")
    paths = [p for p in Interp(prog, None, inline=lambda c, r, d: False).run(f) if p.status == "return"]
    ctx.require(paths, "BRENT: find_root_brents has no returning path")
    fn = ("param", f.qualname, f.params[0])
    looped = 0
    bad = None
    for p in paths:
        calls = [e for e in p.events if e.kind == "call"]
        nxt = [e for e in calls if e.name.endswith("get_next_abscissa")]
        prov = [e for e in calls if e.name.endswith("provide_ordinate")]
        r = strip_typed(p.retval)
        if not (r[0] == "attr" and r[2] == "current_guess"):
            bad = f"returns {show(r)[:50]}, not the finder's current_guess"
        # the last evaluation of the loop test must have said "converged"
        conv_seen = [t for c, t in p.cond_log if "is_converged" in show(c)]
        if not conv_seen or conv_seen[-1] is not True:
            bad = "returns on a path whose last convergence test was not true"
        if not nxt:
            continue
        looped += 1
        if len(prov) != len(nxt):
            bad = f"{len(nxt)} abscissae requested but {len(prov)} ordinates fed back in one iteration"
            continue
        for en, ep in zip(nxt, prov):
            xs = strip_typed(ep.args.get(ep.callee.params[1])) if ep.callee is not None else None
            ys = strip_typed(ep.args.get(ep.callee.params[2])) if ep.callee is not None else None
            xt = strip_typed(en.result) if en.result is not None else None
            if xs is None or ys is None:
                bad = "provide_ordinate call not resolved"
                continue
            if xt is not None and xs != xt:
                bad = f"feeds back abscissa {show(xs)[:40]}, not the one returned by get_next_abscissa"
            ok_ord = ys[0] == "vcall" and strip_typed(ys[1]) == fn and [strip_typed(t_) for t_ in ys[2]] == [xs] and not ys[3]
            if not ok_ord:
                bad = f"feeds back {show(ys)[:40]} as ordinate, not f evaluated at the requested abscissa {show(xs)[:30]}"
        for e in calls:
            if e.callee is not None and e.name == B + "BrentsRootFinder":
                for pt, val in (("start", "f_start"), ("end", "f_end")):
                    given = ("param", f.qualname, val)
                    v = strip_typed(e.args.get(val))
                    at = strip_typed(e.args.get(pt))
                    if at != ("param", f.qualname, pt):
                        bad = f"constructs the finder with {pt}={show(at)[:30]}"
                    if v != given and not (v[0] == "vcall" and strip_typed(v[1]) == fn and [strip_typed(t_) for t_ in v[2]] == [at]):
                        bad = f"constructs the finder with {val}={show(v)[:40]}, neither the given value nor f({pt})"
    ctx.require(looped >= 1, "BRENT: no path of find_root_brents goes through the loop body")
    ctx.ob("BRENT-driver", "each abscissa is fed back with f at that abscissa", f.loc(), bad is None,
           "while not converged: x = get_next_abscissa(); provide_ordinate(x, f(x)); return current_guess" if bad is None else
           f"find_root_brents {bad}")
