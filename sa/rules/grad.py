"""C30 — structural clauses on differentiability: WGDIV, GRADPATH, AUTOGRAD (DESIGN.md A.8)."""
from __future__ import annotations

import ast

from ..algebra import canon, is_const
from ..interp import Interp, SELF, Event, Path, contains, show, strip_typed, walk
from ..model import AnalysisError, dotted
from . import util

PCHIP = "emu_base.math.pchip_torch."
TE = "emu_sv.time_evolution."


# ====================================================================== WGDIV
def _is_sanitising_where(t) -> bool:
    """where(mask, v, <non-zero constant / ones_like>) or clamp(min=c>0): a value that cannot be zero where masked."""
    t = strip_typed(t)
    if t[0] == "call" and t[1] == "torch.where" and len(t[2]) == 3:
        for alt in (t[2][1], t[2][2]):
            a = strip_typed(alt)
            if a[0] == "const" and isinstance(a[1], (int, float)) and a[1] != 0:
                return True
            if a[0] == "call" and a[1] in ("torch.ones_like", "torch.ones", "torch.full_like", "torch.full"):
                return True
    if t[0] == "call" and t[1] in ("torch.clamp", "torch.clamp_min"):
        kw = dict(t[3])
        m = kw.get("min") or (t[2][1] if len(t[2]) > 1 else None)
        if m is not None and strip_typed(m)[0] == "const" and strip_typed(m)[1] > 0:
            return True
    return False


def _raw_atoms(t, seeds_ok) -> set:
    """Leaf values a term depends on, not looking through sanitising where/clamp nodes."""
    out = set()

    def rec(x):
        x = strip_typed(x)
        if not isinstance(x, tuple) or not x or not isinstance(x[0], str):
            return
        if _is_sanitising_where(x):
            return
        k = x[0]
        if k == "param":
            out.add(x)
            return
        if k == "sub":
            base = strip_typed(x[1])
            if base[0] == "param":
                out.add(base)
                return
        for y in x[1:]:
            if isinstance(y, tuple):
                if y and isinstance(y[0], str):
                    rec(y)
                else:
                    for z in y:
                        if isinstance(z, tuple):
                            if z and isinstance(z[0], str):
                                rec(z)
                            else:
                                for w in z:
                                    if isinstance(w, tuple):
                                        rec(w)
    rec(t)
    return out


def _divisors(t) -> list:
    out = []
    for x in walk(t):
        if x[0] == "bin" and x[1] in ("Div", "TrueDiv"):
            out.append(x[3])
        elif x[0] == "call" and x[1] in ("torch.reciprocal", "torch.log", "torch.sqrt", "torch.rsqrt") and x[2]:
            out.append(x[2][0])
        elif x[0] == "bin" and x[1] == "Pow" and strip_typed(x[3])[0] == "const" and isinstance(strip_typed(x[3])[1], (int, float)) \
                and strip_typed(x[3])[1] < 1:
            out.append(x[2])
    return out


def wgdiv(ctx) -> None:
    prog = ctx.prog
    # positivity seed: knot spacings h are validated strictly increasing
    v = prog.func(PCHIP + "PCHIP1D._validate_xy")
    seed_ok = False
    cfg = util.cfg_of(v)
    for n, st in cfg.stmts():
        d = cfg.g.nodes[n]
        if d["kind"] == "test":
            s = util.text(d["ast"], 200).replace(" ", "")
            if "x[1:]>x[:-1]" in s or "x[:-1]<x[1:]" in s or "diff(x)>0" in s:
                seed_ok = True
    ctx.ob("WGDIV-seed", "knots strictly increasing", v.loc(), seed_ok,
           "PCHIP1D validates x strictly increasing, so the knot spacings h are > 0 (divisions by h are safe)"
           if seed_ok else "the strictly-increasing check on the knots is gone: divisions by the spacings h can be by zero")
    positive = {"h", "h_l", "h_r"} if seed_ok else set()

    def inline(callee, recv, depth):
        return callee.qualname.startswith(PCHIP) and callee.cls is None

    entry = prog.func(PCHIP + "_pchip_derivatives")
    it = Interp(prog, None, inline=inline, max_depth=5)
    paths = [p for p in it.run(entry) if p.status == "return"]
    ctx.count("paths", len(paths))
    nwhere = 0
    seen = set()
    for p in paths:
        for e in p.events:
            if e.kind != "call" or e.name != "torch.where" or len(e.pos) != 3:
                continue
            key = (e.func.qualname, e.lineno)
            if key in seen:
                continue
            seen.add(key)
            nwhere += 1
            m, a, b = e.pos
            mask_atoms = _raw_atoms(m, positive)
            bad = []
            for alt in (a, b):
                for dv in _divisors(alt):
                    atoms = {x for x in _raw_atoms(dv, positive) if not (x[0] == "param" and x[2] in positive)}
                    if not atoms:
                        continue
                    if atoms & mask_atoms:
                        bad.append((dv, atoms & mask_atoms))
            ok = not bad
            ctx.ob("WGDIV", f"{e.func.qualname}|{util.akey(e.node, e.func, 70)}", e.loc(), ok,
                   "no branch of this where() divides by a value that the mask itself is computed from" if ok else
                   f"torch.where({show(m)[:50]}, …) selects between branches one of which divides by "
                   f"{show(bad[0][0])[:60]}, computed from the same data as the mask ({sorted(show(x) for x in bad[0][1])}): "
                   f"where the divisor is 0 the forward value is masked but the backward pass multiplies 0 by inf — "
                   f"e.g. y=[0,1,1,1,2,3] gives nan gradients at the flat knots", entry=entry.qualname)
    ctx.require(nwhere >= 3, f"WGDIV: {nwhere} where() sites reachable from _pchip_derivatives, 3 confirmed by hand")


# =================================================================== GRADPATH
FORWARD_FUNCS = [
    "emu_base.pulser_adapter._extract_omega_delta_phi",
    "emu_base.pulser_adapter.PulserData.get_sequences",
    "emu_base.pulser_adapter._InteractionMatrixCallable.__call__",
    PCHIP + "PCHIP1D.__init__", PCHIP + "PCHIP1D.__call__", PCHIP + "PCHIP1D._validate_xy",
    PCHIP + "_pchip_derivatives", PCHIP + "_polynomial_coeffs", PCHIP + "_weighted_harmonic_mean",
    PCHIP + "_endpoint_slope", PCHIP + "_limit_endpoint",
    "emu_sv.sv_backend_impl.SVBackendImpl.__init__", "emu_sv.sv_backend_impl.SVBackendImpl.init_dark_qubits",
    "emu_sv.sv_backend_impl.SVBackendImpl.step", "emu_sv.sv_backend_impl.SVBackendImpl._evolve_step",
    "emu_sv.sv_backend_impl.SVBackendImpl._apply_observables",
    "emu_sv.custom_callback_implementations.qubit_occupation_sv_impl",
    "emu_sv.custom_callback_implementations.correlation_matrix_sv_impl",
    "emu_sv.custom_callback_implementations.energy_variance_sv_impl",
    "emu_sv.custom_callback_implementations.energy_second_moment_sv_impl",
    "emu_sv.hamiltonian.RydbergHamiltonian.__init__", "emu_sv.hamiltonian.RydbergHamiltonian.__mul__",
    "emu_sv.hamiltonian.RydbergHamiltonian._create_diagonal", "emu_sv.hamiltonian.RydbergHamiltonian.expect",
    "emu_sv.hamiltonian.RydbergHamiltonian._apply_sigma_operators_real",
    "emu_sv.hamiltonian.RydbergHamiltonian._apply_sigma_operators_complex",
    "emu_sv.state_vector.StateVector.__init__", "emu_sv.state_vector.StateVector.norm",
    "emu_sv.state_vector.StateVector.inner", "emu_sv.state_vector.StateVector.overlap",
]
BREAKER_METHODS = {"item", "detach", "tolist", "numpy", "detach_", "requires_grad_"}
BREAKER_CALLS = {"float", "int", "complex", "torch.tensor", "numpy.array", "np.array", "numpy.asarray", "np.asarray"}
TENSOR_HINTS = ("Tensor", "StateVector", "DensityMatrix", "State", "RydbergHamiltonian", "SequenceSamples",
                "SequenceData", "Callable")
TENSOR_FIELDS = {"omega", "delta", "phi", "state", "interaction_matrix", "data", "x", "y", "_coeffs", "omegas",
                 "deltas", "phis", "diag", "full_matrix", "masked_matrix", "full_interaction_matrix", "_data"}
# parameters that are numbers/structure, not differentiable tensors
NON_DIFF_PARAMS = {"target_times", "qubit_ids", "step_idx", "dt", "n", "i", "gpu", "device", "nqubits", "num_sites",
                   "config", "krylov_tolerance", "t"}


CLEAN_FIELDS = {"target_times", "bad_atoms", "qubit_ids", "state_prep_error", "lindblad_ops", "eigenstates",
                "hamiltonian_type", "shape", "device", "dtype", "is_cuda", "is_cpu", "n_qudits", "nqubits", "nsteps",
                "observables", "evaluation_times", "krylov_tolerance", "gpu", "reps", "slm_end_time"}


def _tainted(t, f) -> bool:
    t = strip_typed(t)
    if not isinstance(t, tuple) or not t or not isinstance(t[0], str):
        return False
    k = t[0]
    if k == "param":
        if t[1] != f.qualname or t[2] in NON_DIFF_PARAMS:
            return False
        a = f.node.args
        for p in a.posonlyargs + a.args + a.kwonlyargs:
            if p.arg == t[2]:
                ann = ast.unparse(p.annotation) if p.annotation is not None else ""
                return "Tensor" in ann or ann == ""
        return False
    if k == "attr":
        if t[2] in CLEAN_FIELDS:
            return False
        if t[2] in TENSOR_FIELDS:
            return True
        return _tainted(t[1], f)
    if k == "mcall" and t[2] == "to_nested_dict":
        return True
    if k in ("const", "ref", "ext", "global"):
        return False
    for x in t[1:]:
        if isinstance(x, tuple):
            if x and isinstance(x[0], str):
                if _tainted(x, f):
                    return True
            else:
                for y in x:
                    if isinstance(y, tuple):
                        if y and isinstance(y[0], str):
                            if _tainted(y, f):
                                return True
                        else:
                            for z in y:
                                if isinstance(z, tuple) and z and isinstance(z[0], str) and _tainted(z, f):
                                    return True
    return False


def gradpath(ctx) -> None:
    prog = ctx.prog
    nf = 0
    total_breakers = 0
    for q in FORWARD_FUNCS:
        f = prog.funcs.get(q)
        if f is None:
            raise AnalysisError(f"GRADPATH: forward-path function not found: {q}")
        nf += 1
        it = Interp(prog, f.cls, inline=lambda c, r, d: False, loop_iters=(1,), max_paths=20000)
        bad = {}
        for p in it.run(f):
            for e in p.events:
                if e.kind != "call":
                    continue
                hit = None
                if e.name.startswith(".") and e.name[1:] in BREAKER_METHODS and e.recv is not None and _tainted(e.recv, f):
                    hit = e.recv
                elif e.name in BREAKER_CALLS and e.pos and _tainted(e.pos[0], f):
                    hit = e.pos[0]
                if hit is not None:
                    bad[(e.lineno, e.name)] = (e, hit)
        total_breakers += len(bad)
        for (ln, name), (e, hit) in bad.items():
            ctx.ob("GRADPATH", f"{q}|{util.akey(e.node, e.func, 60)}", e.loc(), False,
                   f"{name.lstrip('.')}() is applied to {show(hit)[:70]}, which derives from a differentiable input, on "
                   f"the forward path of emu-sv: the autograd graph is cut and gradients w.r.t. waveform parameters / "
                   f"interaction matrix / initial state silently become zero or None", entry=q)
        if not bad:
            ctx.ob("GRADPATH", f"{q}", f.loc(), True, "no graph-breaking operation on a value derived from a "
                                                        "differentiable input")
    ctx.count("forward_functions", nf)


# =================================================================== AUTOGRAD
def autograd(ctx) -> None:
    prog = ctx.prog
    C = prog.cls(TE + "EvolveStateVector")
    fwd, bwd = C.methods["forward"], C.methods["backward"]
    inputs = fwd.params[1:]
    # save_for_backward order == saved_tensors unpack order
    saved = None
    for n in ast.walk(fwd.node):
        if isinstance(n, ast.Call) and isinstance(n.func, ast.Attribute) and n.func.attr == "save_for_backward":
            saved = [util.text(a) for a in n.args]
    unpack = None
    for n in ast.walk(bwd.node):
        if isinstance(n, ast.Assign) and isinstance(n.value, ast.Attribute) and n.value.attr == "saved_tensors" \
                and isinstance(n.targets[0], ast.Tuple):
            unpack = [util.text(a) for a in n.targets[0].elts]
    # backward rebuilds the Hamiltonian from the saved tensors: keyword k must receive the tensor saved at the
    # position of forward's parameter k (and the Krylov decomposition starts from the saved state)
    itb = Interp(prog, C, inline=lambda c, r, d: False, loop_iters=(1,), max_paths=20000)
    ok = saved is not None and unpack is not None and len(saved) == len(unpack)
    detail = ""
    role_kw = {"omegas": "omegas", "deltas": "deltas", "phis": "phis", "interaction_matrix": "interaction_matrix"}
    checked = False
    for pb in itb.run(bwd):
        for e in pb.events:
            if e.kind == "call" and e.name.endswith("get_hamiltonian") and not checked:
                checked = True
                for kw, pname in role_kw.items():
                    v = strip_typed(dict(e.kw).get(kw) or e.args.get(kw) or ("bottom",))
                    if not (v[0] == "unpack" and "saved_tensors" in show(v[1]) and saved is not None
                            and v[2] < len(saved) and saved[v[2]] == pname):
                        ok = False
                        detail = f"get_hamiltonian({kw}=) receives saved tensor #{v[2] if v[0] == 'unpack' else '?'}"
            if e.kind == "call" and e.name.endswith("double_krylov"):
                st = strip_typed(e.args.get("state") or ("bottom",))
                if not (st[0] == "unpack" and saved is not None and st[2] < len(saved) and saved[st[2]] == "state"):
                    ok = False
                    detail = "double_krylov does not start from the saved input state"
    ok = ok and checked
    ctx.ob("AUTOGRAD", "saved tensors order", bwd.loc(), ok,
           f"backward uses ctx.saved_tensors in the order forward saved them ({saved})" if ok else
           f"forward saves {saved} but backward uses them inconsistently ({detail or unpack}): gradients are computed "
           f"from the wrong tensors")
    okp = saved is not None and all(s in inputs for s in saved)
    ctx.ob("AUTOGRAD", "saved tensors are inputs", fwd.loc(), okp,
           "the saved tensors are forward's own inputs" if okp else f"forward saves {saved}, not all are inputs {inputs}")
    # ctx attributes
    stored = {util.text(n.targets[0]): util.text(n.value) for n in ast.walk(fwd.node)
              if isinstance(n, ast.Assign) and isinstance(n.targets[0], ast.Attribute) and util.text(n.targets[0]).startswith("ctx.")}
    okc = stored.get("ctx.dt") == "dt" and stored.get("ctx.tolerance") == "krylov_tolerance"
    ctx.ob("AUTOGRAD", "ctx scalars", fwd.loc(), okc,
           "ctx.dt = dt and ctx.tolerance = krylov_tolerance are stashed for backward" if okc else
           f"forward stores {stored}")
    # the returned tuple: one entry per forward input, in order
    it = Interp(prog, C, inline=lambda c, r, d: False, loop_iters=(1,), max_paths=20000)
    paths = [p for p in it.run(bwd) if p.status == "return"]
    ctx.require(paths, "backward: no returning path")
    want_src = {1: "DHDOmegaSparse", 2: "DHDDeltaSparse", 3: "DHDPhiSparse", 4: "DHDUSparse"}
    want_like = {1: 0, 2: 1, 3: 2, 4: 3}   # position in forward's inputs -> index in saved_tensors
    lens = set()
    pos_ok = {i: True for i in range(8)}
    guard_ok = {i: True for i in range(1, 6)}
    for p in paths:
        r = strip_typed(p.retval)
        if r[0] != "tuple":
            raise AnalysisError(f"backward returns {show(r)[:60]}")
        lens.add(len(r[1]))
        if len(r[1]) != len(inputs):
            continue
        needs = {}
        for c, t in p.cond_log:
            c0 = strip_typed(c)
            if c0[0] == "sub" and "needs_input_grad" in show(c0[1]) and c0[2][0] == "const":
                needs[c0[2][1]] = t
        for i, v in enumerate(r[1]):
            v0 = strip_typed(v)
            if i in (0, 6, 7):
                pos_ok[i] = pos_ok[i] and v0 == ("const", None)
                continue
            if needs.get(i) is not True:
                # not requested (or never asked) on this path: the slot must be None
                guard_ok[i] = guard_ok[i] and v0 == ("const", None)
            elif needs.get(i) is True:
                if i <= 4:
                    arg = strip_typed(v0[2][0]) if v0[0] == "call" and v0[2] else ("bottom",)
                    like = v0[0] == "call" and v0[1] == "torch.zeros_like" and arg[0] == "unpack" and \
                        arg[2] == want_like[i] and "saved_tensors" in show(arg[1])
                    src = False
                    for e in p.events:
                        if e.kind == "setitem" and canon(strip_typed(e.target[0])) == canon(v0):
                            src = src or want_src[i] in show(e.value)
                    pos_ok[i] = pos_ok[i] and like and src
                else:
                    pos_ok[i] = pos_ok[i] and v0[0] == "call" and v0[1].endswith("krylov_exp") and "grad_state_out" in show(v0)
    okl = lens == {len(inputs)}
    ctx.ob("AUTOGRAD", "one gradient per input", bwd.loc(), okl,
           f"backward returns {len(inputs)} values, one per forward input" if okl else
           f"backward returns tuples of length {sorted(lens)} for {len(inputs)} forward inputs")
    names = ["dt", "omegas", "deltas", "phis", "interaction_matrix", "state", "krylov_tolerance", "pulser_lindblads"]
    for i in range(8):
        if i in (0, 6, 7):
            ctx.ob("AUTOGRAD", f"position {i} ({names[i]})", bwd.loc(), pos_ok[i],
                   f"no gradient for the non-tensor input {names[i]}" if pos_ok[i] else
                   f"position {i} of backward's result is not None although input {names[i]} is not differentiable")
        else:
            ctx.ob("AUTOGRAD", f"position {i} ({names[i]})", bwd.loc(), pos_ok[i] and guard_ok[i],
                   f"gradient {i} is the derivative w.r.t. {names[i]}, computed only when needs_input_grad[{i}]"
                   if pos_ok[i] and guard_ok[i] else
                   f"position {i} of backward's result is not (only) the gradient w.r.t. {names[i]} guarded by "
                   f"needs_input_grad[{i}]: gradients are attributed to the wrong input")
    # forward inputs are in the order the driver passes them (checked by ROLE-sv) and forward's first result is the state
    okr = False
    itf = Interp(prog, C, inline=lambda c, r, d: False)
    for pf in itf.run(fwd):
        rv = strip_typed(pf.retval) if pf.status == "return" else ("bottom",)
        if rv[0] == "tuple" and len(rv[1]) == 2:
            a0, a1 = strip_typed(rv[1][0]), strip_typed(rv[1][1])
            okr = a0[0] == "unpack" and a0[2] == 0 and a1[0] == "unpack" and a1[2] == 1 and a0[1] == a1[1] \
                and "evolve" in show(a0[1])
    ctx.ob("AUTOGRAD", "forward result order", fwd.loc(), okr,
           "forward returns (evolved state, hamiltonian)" if okr else "forward no longer returns (state, hamiltonian)")
    # the adjoint state uses the opposite sign in the exponent: each generator defined in backward, as a polynomial
    from ..algebra import monomials
    from ..model import FuncInfo
    # the local that holds the step length saved by forward (`dt = ctx.dt`), whatever it is called
    dt_names = {t.id for st in ast.walk(bwd.node) if isinstance(st, ast.Assign) and util.text(st.value).endswith(".dt")
                for t in st.targets if isinstance(t, ast.Name)} or {"dt"}
    found = {}
    for blk_owner in ast.walk(bwd.node):
        for fld in ("body", "orelse"):
            blk = getattr(blk_owner, fld, None)
            if not isinstance(blk, list):
                continue
            for i, g in enumerate(blk):
                if not (isinstance(g, ast.FunctionDef) and g is not bwd.node):
                    continue
                user = None
                for st in blk[i + 1:]:
                    for c in ast.walk(st):
                        if isinstance(c, ast.Call) and any(isinstance(x, ast.Name) and x.id == g.name for x in c.args):
                            user = user or util.text(c.func).split(".")[-1]
                fi = FuncInfo(qualname=f"{bwd.qualname}.<locals>.{g.name}@{g.lineno}", name=g.name, node=g, module=bwd.module, parent=bwd)
                ps = [q for q in Interp(prog, None, inline=lambda c_, r_, d_: False).run(fi) if q.status == "return"]
                mons = monomials(ps[0].retval) if ps else {}
                desc = "?"
                if len(mons) == 1:
                    (m, coef), = mons.items()
                    atoms = sorted(show(x).replace(" ", "") for x in m)
                    xname = fi.params[0] if fi.params else "x"
                    if sum(atoms.count(d_) for d_ in dt_names) == 1 and len(atoms) == 3 and xname in atoms and all(x.isidentifier() for x in atoms):
                        desc = "-" if abs(coef + 1j) < 1e-12 else "+" if abs(coef - 1j) < 1e-12 else f"coefficient {coef}"
                    else:
                        desc = "not c·dt·(H x): " + "·".join(atoms)
                found[(user or "?", g.lineno)] = desc
    want = {"double_krylov": "-", "krylov_exp": "+"}
    got = {u: d for (u, _), d in found.items()}
    oks = len(found) == 2 and got == want
    ctx.ob("AUTOGRAD", "adjoint exponent", bwd.loc(), oks,
           "parameter gradients use the generator −i·dt·(H x) (double_krylov), the state gradient +i·dt·(H x) (krylov_exp)" if oks else
           f"the generators defined in backward are {got} (expected −i·dt·H x for double_krylov and +i·dt·H x for krylov_exp)")


# ------------------------------------------------------------------ derivative operators of the emu-sv backward pass
REAL_APPLY = "emu_sv.time_evolution._apply_omega_real"
DERIV_CLASSES = {
    # class -> (parameter whose derivative it is, phase offset of alpha's exponent in units of pi, extra real factor)
    "emu_sv.time_evolution.DHDOmegaSparse": ("omega", 0.0, None),
    "emu_sv.time_evolution.DHDPhiSparse": ("phi", 0.5, "omega"),
}


def _exp_argument(alpha, cls_q):
    """alpha = 0.5 · [real factor ·] exp(1j · (phi + c)) [.item()]: returns (c in units of pi, set of other factor names)
    or None when alpha does not have that shape."""
    from ..algebra import monomials
    t = strip_typed(alpha)
    exps = [x for x in walk(t) if x[0] == "call" and x[1] == "torch.exp" and len(x[2]) == 1]
    if len(exps) != 1:
        return None
    arg = strip_typed(exps[0][2][0])
    phi = ("param", cls_q + ".__init__", "phi")
    pi = ("ext", "torch.pi")
    mons = monomials(arg)
    off = None
    coef_phi = None
    for m, c in mons.items():
        atoms = [strip_typed(a) for a in m]
        if atoms == [phi]:
            coef_phi = c
        elif atoms == [pi]:
            off = c
        elif atoms == []:
            off = (off or 0) + c / 3.141592653589793
        else:
            return None
    if coef_phi is None or abs(coef_phi - 1j) > 1e-12:
        return None
    off = 0.0 if off is None else (off / 1j).real if abs(off.imag if isinstance(off, complex) else 0) > 0 else float(off.real if isinstance(off, complex) else off)
    # the rest of alpha: constant 0.5 and possibly real parameters
    others = {x[2] for x in walk(t) if x[0] == "param" and x[2] != "phi" and not contains(exps[0], lambda y: y == x)}
    half = any(x == ("const", 0.5) for x in walk(t))
    imag_outside = any(x[0] == "const" and isinstance(x[1], complex) and not contains(exps[0], lambda y: y is x) for x in walk(t)
                       if not contains(exps[0], lambda y: y == x))
    if not half or imag_outside:
        return None
    return off, others


def derivative_ops(ctx) -> None:
    """∂H/∂Ω_k = ½(e^{iφ}σ⁺ + h.c.), ∂H/∂φ_k = ½Ω(e^{i(φ+π/2)}σ⁺ + h.c.).  The σˣ shortcut (`_apply_omega_real`, which
    applies α·σˣ and is only right for real α) may be chosen only where α is real: exponent exactly i·φ and φ tested zero."""
    from ..interp import field_defs
    prog = ctx.prog
    for cq, (what, want_off, factor) in DERIV_CLASSES.items():
        K = prog.cls(cq)
        fd = field_defs(prog, K)
        alphas = [(v, ev) for v, ev in fd.get("alpha", []) if ev is not None]
        ctx.require(len(alphas) == 1, f"GRAD-ops: {len(alphas)} definitions of {K.name}.alpha")
        shape = _exp_argument(alphas[0][0], cq)
        ok_alpha = shape is not None and abs(shape[0] - want_off) < 1e-9 and shape[1] == ({factor} if factor else set())
        ctx.ob("GRAD-ops", f"{K.name}.alpha", alphas[0][1].loc(), ok_alpha,
               f"α = ½{'·' + factor if factor else ''}·exp(i(φ{' + π/2' if want_off else ''})): the coefficient of σ⁺ in ∂H/∂{what}" if ok_alpha else
               f"{K.name}.alpha = {show(alphas[0][0])[:100]} is not ½{'·' + factor if factor else ''}·exp(i(φ + {want_off}π)): "
               f"the gradient with respect to {what} is computed from the wrong operator")
        # every way the real shortcut can be selected
        sel = []
        for name, defs in fd.items():
            for v, ev in defs:
                if ev is not None and strip_typed(v) == ("ref", REAL_APPLY):
                    sel += [(ev, conds) for conds in getattr(ev, "alt_conds", [ev.conds])]
        it = Interp(prog, K, inline=lambda c, r, d: False)
        for m in K.methods.values():
            for p in it.run(m):
                for e in p.events:
                    if e.kind == "call" and e.name == REAL_APPLY:
                        sel.append((e, e.conds))
        bad = []
        for ev, conds in sel:
            phi_zero = any(strip_typed(c)[0] == "mcall" and strip_typed(c)[2] in ("is_nonzero", "any") and
                           strip_typed(strip_typed(c)[1]) == ("param", cq + ".__init__", "phi") and t is False for c, t in conds)
            if not (phi_zero and shape is not None and abs(shape[0]) < 1e-12):
                bad.append(ev)
        ctx.ob("GRAD-ops", f"{K.name} real shortcut", (bad[0] if bad else alphas[0][1]).loc(), not bad,
               (f"{K.name} applies α·σˣ only when φ = 0 and α = ½·e^(iφ) is real" if sel else
                f"{K.name} always applies ασ⁺ + α*σ⁻") if not bad else
               f"{K.name} selects the σˣ shortcut (_apply_omega_real applies α to both σ⁺ and σ⁻) although α = "
               f"{show(alphas[0][0])[:70]} is not real there: the gradient with respect to {what} is wrong wherever the "
               f"shortcut is taken (e.g. φ = 0 gives α = iΩ/2, which needs ασ⁺ + α*σ⁻)")


def inplace(ctx) -> None:
    """A custom autograd Function must not write into the storage of its tensor inputs (forward) or of the incoming
    gradients (backward): other nodes of the graph may have saved those tensors — e.g. the occupation computed from the
    state of an intermediate evaluation time — and autograd then refuses to differentiate ('modified by an inplace
    operation').  Decided on interprocedural mutates-parameter summaries restricted to tensor storage."""
    from .pure import Effects
    prog = ctx.prog
    E = Effects(prog, tensor_only=True)
    K = prog.cls("emu_sv.time_evolution.EvolveStateVector")
    n = 0
    for mname, exempt in (("forward", {"ctx"}), ("backward", {"ctx"})):
        m = K.methods.get(mname)
        ctx.require(m is not None, f"AUTOGRAD-inplace: EvolveStateVector.{mname} not found")
        summ = E.summary(m)
        params = [p for p in m.params if p not in exempt]
        for p in params:
            n += 1
            reasons = summ.get(p, set())
            chain = _mutation_chain(E, prog, m, p) if reasons else ""
            ctx.ob("AUTOGRAD-inplace", f"EvolveStateVector.{mname}|{p}", m.loc(), not reasons,
                   f"{mname} never writes into the storage of `{p}`" if not reasons else
                   f"EvolveStateVector.{mname} modifies its input `{p}` in place ({chain}): a loss that also uses the "
                   f"tensor elsewhere (an observable at an intermediate evaluation time was computed from the state "
                   f"the next step overwrites) cannot be differentiated — torch.autograd raises 'one of the variables "
                   f"needed for gradient computation has been modified by an inplace operation'", entry=m.qualname)
    ctx.require(n >= 8, f"AUTOGRAD-inplace: only {n} tensor parameters examined")


def _mutation_chain(E, prog, f, param: str, depth: int = 0) -> str:
    """Human-readable path from a mutated parameter down to the statement that writes."""
    reasons = sorted(E.summary(f).get(param, ()))
    for r in reasons:
        if r.startswith("direct:"):
            return f"{f.qualname.split('.')[-1]}: `{r[7:]}`"
    for r in reasons:
        if r.startswith("call:") and depth < 6:
            callee = prog.funcs.get(r[5:])
            if callee is not None:
                for q in callee.params:
                    if q in E.summary(callee):
                        return f"{f.qualname.split('.')[-1]} → " + _mutation_chain(E, prog, callee, q, depth + 1)
    return "; ".join(reasons)


def backward_covers_every_qubit(ctx) -> None:
    """EvolveStateVector.backward fills one gradient entry per qubit (per pair for the interaction matrix): the loops
    run over range(nqubits) with nqubits = len(omegas) — a loop over a subset (driven qubits, non-zero phases …) leaves
    the skipped entries at zero although ∂L/∂Ω_k ≠ 0 where Ω_k = 0."""
    prog = ctx.prog
    K = prog.cls("emu_sv.time_evolution.EvolveStateVector")
    bwd = K.methods["backward"]
    loops = [n for n in util.walk_own(bwd.node) if isinstance(n, ast.For)]
    ctx.require(len(loops) >= 4, f"AUTOGRAD-cover: {len(loops)} loops in backward, 5 confirmed by hand")
    saved = None
    for st in ast.walk(bwd.node):
        if isinstance(st, ast.Assign) and util.text(st.value).endswith("saved_tensors") and isinstance(st.targets[0], ast.Tuple):
            saved = [t.id for t in st.targets[0].elts if isinstance(t, ast.Name)]
    ctx.require(saved, "AUTOGRAD-cover: saved_tensors unpacking not found")
    first = saved[0]
    full = {f"range(len({first}))", f"range({first}.shape[0])", f"range({first}.numel())"}
    bad = []
    for lp in loops:
        it = util.text(util.inline_locals(bwd, lp.iter)).replace(" ", "")
        outer = [o for o in loops if o is not lp and any(x is lp for x in ast.walk(o))]
        if outer:
            i = outer[0].target.id if isinstance(outer[0].target, ast.Name) else "?"
            ok = it in {f"range({i}+1,len({first}))", f"range({i}+1,{first}.shape[0])"}
        else:
            ok = it in full
        filt = any(isinstance(x, (ast.Continue, ast.Break)) for st in lp.body for x in ast.walk(st))
        # ∂H/∂φ_k carries the factor Ω_k: restricting the phase loop to the driven qubits changes nothing
        phase_loop = any(isinstance(x, ast.Call) and util.text(x.func).endswith("DHDPhiSparse") for st in lp.body for x in ast.walk(st))
        if phase_loop and not ok and not outer and f"{first}.nonzero()" in it and "!" not in it:
            ok = True
        if not ok or filt:
            bad.append(f"line {lp.lineno}: for {util.text(lp.target)} in {util.text(lp.iter, 50)}" + (" with continue/break" if filt else ""))
    bad.sort()
    ctx.ob("AUTOGRAD", "gradient loops cover every qubit", bwd.loc(), not bad,
           f"all {len(loops)} gradient loops run over every qubit (every pair i<j for the interaction matrix)" if not bad else
           f"backward fills the gradients in a loop over a subset — {bad[0]}: the entries that are skipped stay zero "
           f"(e.g. the amplitude gradient of an atom whose amplitude is exactly 0)")


def observable_generator_on_graph(ctx) -> None:
    """Losses built from the energy observables differentiate through the generator handed to the callbacks
    (`hamiltonian.expect(state)` and its moments).  `torch.autograd.Function.forward` runs without gradient recording, so
    an object *created inside* forward — here the RydbergHamiltonian returned next to the evolved state — holds tensors
    with no graph: the explicit dependence of E on the last step's amplitude, detuning, phase and interaction matrix is
    lost, while the dependence through the state is kept by `backward`.  The rule: no non-tensor output of a custom
    Function.forward that was constructed inside it may reach the observables as the generator."""
    prog = ctx.prog
    K = prog.cls("emu_sv.time_evolution.EvolveStateVector")
    is_fn = any(b.endswith("autograd.Function") for b in K.bases) or any(util.text(b).endswith("autograd.Function") for b in K.base_exprs)
    ctx.require(is_fn, "GRADPATH-observable: EvolveStateVector is no longer a torch.autograd.Function")
    f = K.methods["forward"]
    paths = [p for p in Interp(prog, K, inline=lambda c, r, d: c is not None and c.name in ("evolve",), loop_iters=(1,)).run(f) if p.status == "return"]
    ctx.require(paths, "GRADPATH-observable: forward has no returning path")
    built_inside = None
    for p in paths:
        r = strip_typed(p.retval)
        comps = [strip_typed(x) for x in r[1]] if r[0] == "tuple" else [r]
        for k, c in enumerate(comps):
            txt = show(c)
            if c[0] in ("new", "call", "mcall", "unpack") and ("RydbergHamiltonian" in txt or "get_hamiltonian" in txt or ".evolve(" in txt and k == 1):
                built_inside = (k, txt[:60])
    # does that output reach the observables?  (_evolve_step stores component 1 of stepper.apply as _current_H, and
    # _apply_observables passes _current_H to every callback — both decided by ROLE-sv)
    B = prog.cls("emu_sv.sv_backend_impl.SVBackendImpl")
    reaches = False
    for p in Interp(prog, B, inline=lambda c, r, d: False).run(B.methods["_evolve_step"]):
        h = strip_typed(p.heap.get((SELF, "_current_H"), ("const", None)))
        if h[0] in ("unpack", "sub") and "stepper.apply" in show(h):
            reaches = True
    ok = built_inside is None or not reaches
    ctx.ob("GRADPATH-observable", "generator of the energy observables carries the graph", f.loc(), ok,
           "the generator handed to the observables is not an object created inside autograd.Function.forward" if ok else
           f"EvolveStateVector.forward returns, as output {built_inside[0]}, the generator it built itself ({built_inside[1]}); "
           f"Function.forward records no graph, and SVBackendImpl hands exactly this object to the observables: the gradient of an "
           f"energy-type loss misses E's explicit dependence on the last step's amplitude/detuning/phase/interaction matrix "
           f"(dE/dδ of the last step: autograd +0.063, finite differences −0.048 on 2 atoms, 3 steps)")
