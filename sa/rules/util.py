"""Helpers shared by the rule modules."""
from __future__ import annotations

import ast
import glob
import os
import re
from fractions import Fraction

from ..cfg import CFG, ENTRY, EXIT, RAISE, own_nodes
from ..model import AnalysisError, ClassInfo, FuncInfo, Module, Program, dotted


def text(node: ast.AST, limit: int = 160) -> str:
    """Normalised source text of a node (independent of layout, quotes, comments)."""
    s = ast.unparse(node)
    s = re.sub(r"\s+", " ", s)
    return s if len(s) <= limit else s[: limit - 1] + "…"


def call_name(prog: Program, mod: Module, call: ast.Call, func: FuncInfo | None = None) -> str | None:
    """Canonical qualified name of a call's callee when it is a plain dotted name."""
    d = dotted(call.func)
    if d is None:
        return None
    head = d.split(".")[0]
    if func is not None and head in local_names(func):
        return None
    return prog.canon(prog.qualify(mod, d))


_local_cache: dict = {}


def local_names(func: FuncInfo) -> set:
    k = id(func.node)
    if k in _local_cache:
        return _local_cache[k]
    names = set(func.params)
    a = func.node.args
    if a.vararg:
        names.add(a.vararg.arg)
    if a.kwarg:
        names.add(a.kwarg.arg)
    for n in walk_own(func.node):
        if isinstance(n, ast.Name) and isinstance(n.ctx, ast.Store):
            names.add(n.id)
        elif isinstance(n, (ast.FunctionDef, ast.ClassDef)) and n is not func.node:
            names.add(n.name)
    _local_cache[k] = names
    return names


def walk_own(fn: ast.AST):
    """Walk a function body without descending into nested defs / lambdas / classes."""
    stack = list(ast.iter_child_nodes(fn))
    while stack:
        n = stack.pop()
        yield n
        if isinstance(n, (ast.FunctionDef, ast.AsyncFunctionDef, ast.Lambda, ast.ClassDef)):
            continue
        stack.extend(ast.iter_child_nodes(n))


def walk_all(fn: ast.AST):
    return ast.walk(fn)


def calls_to(prog: Program, func: FuncInfo, qualname: str, nested: bool = True) -> list[ast.Call]:
    out = []
    it = walk_all(func.node) if nested else walk_own(func.node)
    for n in it:
        if isinstance(n, ast.Call) and call_name(prog, func.module, n) == qualname:
            out.append(n)
    return sorted(out, key=lambda c: (c.lineno, c.col_offset))


def method_calls(func: FuncInfo, attr: str) -> list[ast.Call]:
    out = []
    for n in walk_all(func.node):
        if isinstance(n, ast.Call) and isinstance(n.func, ast.Attribute) and n.func.attr == attr:
            out.append(n)
    return sorted(out, key=lambda c: (c.lineno, c.col_offset))


def kwarg(call: ast.Call, name: str) -> ast.AST | None:
    for k in call.keywords:
        if k.arg == name:
            return k.value
    return None


def arg_of(call: ast.Call, callee: FuncInfo | None, name: str, pos: int | None = None) -> ast.AST | None:
    """Expression bound to parameter `name` at a call site (keyword first, then position)."""
    v = kwarg(call, name)
    if v is not None:
        return v
    if callee is not None:
        params = [a.arg for a in callee.node.args.posonlyargs + callee.node.args.args]
        if callee.cls is not None and not callee.is_static and params:
            params = params[1:]
        if name in params:
            i = params.index(name)
            if i < len(call.args) and not any(isinstance(a, ast.Starred) for a in call.args[: i + 1]):
                return call.args[i]
    elif pos is not None and pos < len(call.args):
        return call.args[pos]
    return None


def stmt_of(func: FuncInfo, node: ast.AST) -> ast.stmt | None:
    """Innermost simple statement of `func` containing `node` (test of an If for nodes in its test)."""
    best = None
    for st in ast.walk(func.node):
        if isinstance(st, ast.stmt) and st is not func.node:
            for sub in own_nodes(st):
                if sub is node:
                    best = st
    return best


def cfg_of(func: FuncInfo, assert_edges: bool = True) -> CFG:
    return CFG(func.node, assert_edges=assert_edges)


def cfg_node_containing(cfg: CFG, node: ast.AST) -> int | None:
    for n, st in cfg.stmts():
        kind = cfg.g.nodes[n]["kind"]
        if kind == "test":
            it = ast.walk(st)
        else:
            it = own_nodes(st)
        for sub in it:
            if sub is node:
                return n
    return None


# ------------------------------------------------------------- constant eval
def const_value(prog: Program, mod: Module, node: ast.AST, func: FuncInfo | None = None, depth: int = 0):
    """Evaluate a constant expression: literals, arithmetic, module constants, single-assigned locals."""
    if depth > 8:
        return None
    try:
        return ast.literal_eval(node)
    except Exception:
        pass
    if isinstance(node, ast.BinOp):
        a = const_value(prog, mod, node.left, func, depth + 1)
        b = const_value(prog, mod, node.right, func, depth + 1)
        if isinstance(a, (int, float)) and isinstance(b, (int, float)):
            try:
                return {ast.Add: lambda: a + b, ast.Sub: lambda: a - b, ast.Mult: lambda: a * b,
                        ast.Div: lambda: a / b, ast.Pow: lambda: a ** b}[type(node.op)]()
            except Exception:
                return None
        return None
    if isinstance(node, ast.UnaryOp) and isinstance(node.op, ast.USub):
        a = const_value(prog, mod, node.operand, func, depth + 1)
        return -a if isinstance(a, (int, float)) else None
    if isinstance(node, ast.Call) and dotted(node.func) == "float" and len(node.args) == 1:
        a = const_value(prog, mod, node.args[0], func, depth + 1)
        try:
            return float(a) if a is not None else None
        except Exception:
            return None
    d = dotted(node)
    if d is not None:
        if func is not None and "." not in d:
            defs = single_assignments(func).get(d)
            if defs is not None:
                return const_value(prog, mod, defs, func, depth + 1)
            if d in local_names(func):
                return None
        gv = prog.global_value(prog.qualify(mod, d))
        if gv is not None:
            return const_value(prog, gv[0], gv[1], None, depth + 1)
    return None


_sa_cache: dict = {}


def single_assignments(func: FuncInfo) -> dict:
    """name -> value expression for locals assigned exactly once by a plain ``name = expr``."""
    k = id(func.node)
    if k in _sa_cache:
        return _sa_cache[k]
    counts: dict = {}
    vals: dict = {}
    for n in walk_own(func.node):
        if isinstance(n, ast.Assign) and len(n.targets) == 1 and isinstance(n.targets[0], ast.Name):
            counts[n.targets[0].id] = counts.get(n.targets[0].id, 0) + 1
            vals[n.targets[0].id] = n.value
        elif isinstance(n, ast.AnnAssign) and isinstance(n.target, ast.Name) and n.value is not None:
            counts[n.target.id] = counts.get(n.target.id, 0) + 1
            vals[n.target.id] = n.value
        elif isinstance(n, ast.Name) and isinstance(n.ctx, ast.Store):
            counts[n.id] = counts.get(n.id, 0) + 0
    # names stored in other ways (aug-assign, loop targets, tuple unpack, with-as) are disqualified
    stores: dict = {}
    for n in walk_own(func.node):
        if isinstance(n, ast.Name) and isinstance(n.ctx, ast.Store):
            stores[n.id] = stores.get(n.id, 0) + 1
        elif isinstance(n, ast.AugAssign) and isinstance(n.target, ast.Name):
            stores[n.target.id] = stores.get(n.target.id, 0) + 1
    out = {name: vals[name] for name, c in counts.items() if c == 1 and stores.get(name, 0) == 1
           and name not in func.params}
    _sa_cache[k] = out
    return out


def inline_locals(func: FuncInfo, node: ast.AST, depth: int = 6) -> ast.AST:
    """Copy of `node` with single-assignment locals replaced by their defining expressions."""
    defs = single_assignments(func)

    class T(ast.NodeTransformer):
        def __init__(self, d):
            self.d = d

        def visit_Name(self, n):
            if isinstance(n.ctx, ast.Load) and n.id in defs and self.d > 0:
                return T(self.d - 1).visit(_copy(defs[n.id]))
            return n

    return ast.fix_missing_locations(T(depth).visit(_copy(node)))


def _copy(node: ast.AST) -> ast.AST:
    return ast.parse(ast.unparse(node), mode="eval").body


# --------------------------------------------------------------- linear forms
def linear(node: ast.AST, func: FuncInfo | None = None) -> dict | None:
    """Affine form {atom text: Fraction, '': constant} of an arithmetic expression, or None."""
    if func is not None:
        node = inline_locals(func, node)
    return _lin(node)


def _lin(n: ast.AST) -> dict | None:
    if isinstance(n, ast.Constant) and isinstance(n.value, (int, float)) and not isinstance(n.value, bool):
        return {"": Fraction(n.value).limit_denominator(10 ** 12)}
    if isinstance(n, ast.UnaryOp) and isinstance(n.op, ast.USub):
        a = _lin(n.operand)
        return None if a is None else {k: -v for k, v in a.items()}
    if isinstance(n, ast.UnaryOp) and isinstance(n.op, ast.UAdd):
        return _lin(n.operand)
    if isinstance(n, ast.BinOp):
        a, b = _lin(n.left), _lin(n.right)
        if a is None or b is None:
            return None
        if isinstance(n.op, ast.Add):
            return _add(a, b, 1)
        if isinstance(n.op, ast.Sub):
            return _add(a, b, -1)
        if isinstance(n.op, ast.Mult):
            if set(a) <= {""}:
                c = a.get("", Fraction(0))
                return {k: v * c for k, v in b.items()}
            if set(b) <= {""}:
                c = b.get("", Fraction(0))
                return {k: v * c for k, v in a.items()}
            return {f"({_show(a)})*({_show(b)})": Fraction(1)}
        if isinstance(n.op, ast.Div):
            if set(b) <= {""} and b.get("", 0) != 0:
                c = b[""]
                return {k: v / c for k, v in a.items()}
            return {f"({_show(a)})/({_show(b)})": Fraction(1)}
        return {text(n): Fraction(1)}
    return {text(n): Fraction(1)}


def _add(a: dict, b: dict, sign: int) -> dict:
    out = dict(a)
    for k, v in b.items():
        out[k] = out.get(k, Fraction(0)) + sign * v
    return {k: v for k, v in out.items() if v != 0 or k == ""} or {"": Fraction(0)}


def _show(a: dict) -> str:
    return " + ".join(f"{v}*{k}" if k else f"{v}" for k, v in sorted(a.items()))


def coef(node: ast.AST, atom: str, func: FuncInfo | None = None) -> Fraction | None:
    """c if node == c * atom exactly (no other terms), else None."""
    lf = linear(node, func)
    if lf is None:
        return None
    rest = {k: v for k, v in lf.items() if v != 0}
    if set(rest) == {atom}:
        return rest[atom]
    return None


# -------------------------------------------------------------------- pulser
def pulser_root() -> str:
    """Directory of the installed pulser package (located on disk, never imported)."""
    env = os.environ.get("VERIF_PULSER")
    if env:
        return env
    for pat in ("/venv/lib/python3*/site-packages/pulser", "/venv/lib64/python3*/site-packages/pulser"):
        hits = sorted(glob.glob(pat))
        if hits:
            return hits[0]
    raise AnalysisError("installed pulser package not found under /venv")


def pulser_version() -> str:
    root = os.path.dirname(pulser_root())
    hits = sorted(glob.glob(os.path.join(root, "pulser_core-*.dist-info")))
    if not hits:
        raise AnalysisError("pulser_core dist-info not found")
    m = re.search(r"pulser_core-(.+)\.dist-info$", hits[-1])
    return m.group(1)


_pulser_prog = None


def pulser_program() -> Program:
    global _pulser_prog
    if _pulser_prog is None:
        root = os.path.dirname(pulser_root())
        _pulser_prog = Program(root=root, packages=("pulser",))
    return _pulser_prog


def loc(func: FuncInfo, node: ast.AST | None = None) -> str:
    return func.loc(node)


def akey(node: ast.AST, func: FuncInfo | None, limit: int = 70) -> str:
    """Normalised statement text with the *local variable* names of `func` replaced by v1, v2, … in order of first
    appearance: an obligation key built from it survives reformatting and renaming of locals."""
    if func is None:
        return text(node, limit)
    # locals of the outermost enclosing function (nested defs share the numbering)
    top = func
    while top.parent is not None:
        top = top.parent
    loc = set()
    for f in (top,):
        for n in ast.walk(f.node):
            if isinstance(n, ast.Name) and isinstance(n.ctx, (ast.Store, ast.Del)):
                loc.add(n.id)
            elif isinstance(n, (ast.FunctionDef, ast.AsyncFunctionDef)) and n is not f.node:
                loc.add(n.name)
    params = set()
    for n in ast.walk(top.node):
        if isinstance(n, (ast.FunctionDef, ast.AsyncFunctionDef, ast.Lambda)):
            a = n.args
            params |= {x.arg for x in a.posonlyargs + a.args + a.kwonlyargs}
            if a.vararg:
                params.add(a.vararg.arg)
            if a.kwarg:
                params.add(a.kwarg.arg)
    loc -= params
    mapping: dict = {}

    class T(ast.NodeTransformer):
        def visit_Name(self, n):
            if n.id in loc:
                if n.id not in mapping:
                    mapping[n.id] = f"v{len(mapping) + 1}"
                return ast.copy_location(ast.Name(id=mapping[n.id], ctx=n.ctx), n)
            return n

    try:
        copy = ast.parse(ast.unparse(node)).body[0]
    except SyntaxError:
        return text(node, limit)
    if isinstance(copy, ast.Expr):
        copy = copy.value
    # temporaries (assigned once, read once) are folded back into the statement that uses them, so that the key
    # does not depend on whether an argument was first bound to a local
    once = _used_once(func)
    if once:
        class F(ast.NodeTransformer):
            def __init__(self, d):
                self.d = d

            def visit_Name(self, n):
                if isinstance(n.ctx, ast.Load) and n.id in once and self.d > 0:
                    return F(self.d - 1).visit(_copy(once[n.id]))
                return n
        copy = F(4).visit(copy)
    new = T().visit(copy)
    return text(new, limit)


_once_cache: dict = {}


def _used_once(func: FuncInfo) -> dict:
    k = id(func.node)
    if k not in _once_cache:
        loads: dict = {}
        for n in ast.walk(func.node):
            if isinstance(n, ast.Name) and isinstance(n.ctx, ast.Load):
                loads[n.id] = loads.get(n.id, 0) + 1
        _once_cache[k] = {name: v for name, v in single_assignments(func).items() if loads.get(name, 0) == 1}
    return _once_cache[k]


def formats_index_as_padded_binary(func: FuncInfo) -> bool:
    """`return format(index, f"0{nqubits}b")` (temporaries folded): zero-padded binary of width nqubits, MSB first."""
    for st in walk_own(func.node):
        if isinstance(st, ast.Return) and st.value is not None:
            v = inline_locals(func, st.value)
            if isinstance(v, ast.Call) and text(v.func) == "format" and len(v.args) == 2 and not v.keywords \
                    and text(v.args[0]) == "index" and isinstance(v.args[1], ast.JoinedStr):
                parts = v.args[1].values
                if len(parts) == 3 and isinstance(parts[0], ast.Constant) and parts[0].value == "0" and \
                        isinstance(parts[1], ast.FormattedValue) and text(parts[1].value) == "nqubits" and \
                        isinstance(parts[2], ast.Constant) and parts[2].value == "b":
                    return True
    return False
