"""APICOMPAT — every reference from the repo into Pulser is satisfiable in the admitted, offline-available
Pulser release (DESIGN.md A.10).  Pulser is parsed from its installed source, never imported."""
from __future__ import annotations

import ast
import glob
import os
import re
import tomllib

from ..model import AnalysisError, ClassInfo, FuncInfo, Module, Program, dotted
from . import util


# ------------------------------------------------------------------ versions
def _specifiers(prog: Program) -> dict:
    out = {}
    for rel in ("pyproject.toml", "ci/emu_base/pyproject.toml"):
        try:
            data = tomllib.loads(prog.read(rel))
        except FileNotFoundError:
            raise AnalysisError(f"APICOMPAT: {rel} not found")
        deps = data.get("project", {}).get("dependencies", [])
        spec = None
        for d in deps:
            m = re.match(r"\s*pulser-core(\[[^\]]*\])?\s*(.*)$", d)
            if m:
                spec = m.group(2).strip()
        if spec is None:
            raise AnalysisError(f"APICOMPAT: no pulser-core dependency in {rel}")
        out[rel] = spec
    return out


def _offline_releases() -> list[str]:
    vers = {util.pulser_version()}
    for w in glob.glob("/opt/veriftools/wheels/pulser_core-*.whl"):
        m = re.search(r"pulser_core-([^-]+)-", os.path.basename(w))
        if m:
            vers.add(m.group(1))
    return sorted(vers)


# ----------------------------------------------------------------- signatures
def bind_problems(callee: FuncInfo, call: ast.Call, skip_first: bool) -> list[str]:
    a = callee.node.args
    pos_params = [x.arg for x in a.posonlyargs + a.args]
    if skip_first and pos_params:
        pos_params = pos_params[1:]
    n_pos_defaults = len(a.defaults)
    required_pos = pos_params[: len(pos_params) - n_pos_defaults] if n_pos_defaults else list(pos_params)
    kwonly = [x.arg for x in a.kwonlyargs]
    required_kw = [n for n, d in zip(kwonly, a.kw_defaults) if d is None]
    probs = []
    if any(isinstance(x, ast.Starred) for x in call.args) or any(k.arg is None for k in call.keywords):
        # *args / **kwargs at the call site: only unknown explicit keywords can be judged
        given_kw = {k.arg for k in call.keywords if k.arg}
        if not a.kwarg:
            unknown = given_kw - set(pos_params) - set(kwonly)
            if unknown:
                probs.append(f"unknown keyword(s) {sorted(unknown)}")
        star_kw = any(k.arg is None for k in call.keywords)
        if not star_kw:
            missing = [n for n in required_kw if n not in given_kw]
            if missing:
                probs.append(f"missing required keyword-only argument(s) {missing}")
        return probs
    npos = len(call.args)
    given_kw = {k.arg for k in call.keywords}
    if npos > len(pos_params) and not a.vararg:
        probs.append(f"{npos} positional argument(s) given, at most {len(pos_params)} accepted")
    bound = set(pos_params[:npos])
    dup = bound & given_kw
    if dup:
        probs.append(f"argument(s) {sorted(dup)} given twice")
    posonly = {x.arg for x in a.posonlyargs}
    missing = [n for n in required_pos if n not in bound and (n not in given_kw or n in posonly)]
    if missing:
        probs.append(f"missing required argument(s) {missing}")
    missing_kw = [n for n in required_kw if n not in given_kw]
    if missing_kw:
        probs.append(f"missing required keyword-only argument(s) {missing_kw}")
    if not a.kwarg:
        unknown = given_kw - set(pos_params) - set(kwonly)
        if unknown:
            probs.append(f"unknown keyword(s) {sorted(unknown)}")
    return probs


def accepts_keywords(fn: ast.FunctionDef, kws: set[str], skip_first: bool) -> list[str]:
    a = fn.args
    names = [x.arg for x in a.args]
    if skip_first and names:
        names = names[1:]
    allowed = set(names) | {x.arg for x in a.kwonlyargs}
    probs = []
    if not a.kwarg:
        unknown = kws - allowed
        if unknown:
            probs.append(f"does not accept keyword(s) {sorted(unknown)}")
    n_def = len(a.defaults)
    req = names[: len(names) - n_def] if n_def else list(names)
    req += [n for n, d in zip([x.arg for x in a.kwonlyargs], a.kw_defaults) if d is None]
    missing = [n for n in req if n not in kws]
    if missing:
        probs.append(f"requires argument(s) {missing} that Pulser does not pass")
    return probs


# ------------------------------------------------------------------- helpers
def _pulser_bases(prog: Program, P: Program, ci: ClassInfo) -> list[ClassInfo]:
    out = []
    for b in prog.external_bases(ci):
        if b.startswith("pulser"):
            c = P.lookup(b)
            if isinstance(c, ClassInfo):
                out.append(c)
            else:
                out.append(None)
    return out


def _is_abstract(f: FuncInfo) -> bool:
    return "abstractmethod" in f.decorators


def _class_members(P: Program, c: ClassInfo) -> tuple[set, bool]:
    """(attribute names available on instances, has __getattr__)"""
    names = set()
    dyn = False
    for k in P.mro(c):
        names |= set(k.methods)
        names |= set(k.attrs)
        if "__getattr__" in k.methods:
            dyn = True
        for m in k.methods.values():
            if m.is_static:
                continue
            selfname = m.params[0] if m.params else "self"
            for n in ast.walk(m.node):
                if isinstance(n, ast.Attribute) and isinstance(n.ctx, ast.Store) and isinstance(n.value, ast.Name) \
                        and n.value.id == selfname:
                    names.add(n.attr)
                if isinstance(n, ast.Call) and dotted(n.func) in ("object.__setattr__", "setattr") and len(n.args) >= 2 \
                        and isinstance(n.args[1], ast.Constant):
                    names.add(n.args[1].value)
        for st in k.node.body:
            if isinstance(st, ast.Assign) and any(isinstance(t, ast.Name) and t.id == "__slots__" for t in st.targets):
                try:
                    names |= set(ast.literal_eval(st.value))
                except Exception:
                    pass
        if any(b for b in k.bases if b not in P.classes and not b.startswith(("abc.", "typing.", "object", "Generic", "enum.")) and b not in ("ABC", "Generic", "object")):
            # a base outside the parsed package: cannot enumerate members
            if not all(x in ("ABC", "abc.ABC", "typing.Generic", "Generic", "object", "enum.Enum", "enum.IntEnum",
                             "typing.Protocol", "str") or x.startswith("typing.") for x in k.bases if x not in P.classes):
                dyn = True
    return names, dyn


def _ann_class(P: Program, mod: Module, ann) -> ClassInfo | None:
    if ann is None:
        return None
    if isinstance(ann, ast.Constant) and isinstance(ann.value, str):
        try:
            ann = ast.parse(ann.value, mode="eval").body
        except SyntaxError:
            return None
    if isinstance(ann, ast.Subscript):
        return _ann_class(P, mod, ann.value)
    if isinstance(ann, ast.BinOp) and isinstance(ann.op, ast.BitOr):
        found = [x for x in (_ann_class(P, mod, ann.left), _ann_class(P, mod, ann.right)) if x is not None]
        return found[0] if len(found) == 1 else None
    d = dotted(ann)
    if d is None:
        return None
    return None


# --------------------------------------------------------------------- check
OVERRIDE_NAMES = {"apply", "sample", "_from_state_amplitudes", "_from_operator_repr"}


def check(ctx) -> None:
    prog = ctx.prog
    P = util.pulser_program()
    ver = util.pulser_version()
    ctx.extra["pulser_version"] = ver
    ctx.extra["pulser_parse"] = dict(P.parse_stats)
    # --- admitted versions
    from packaging.specifiers import SpecifierSet
    from packaging.version import Version
    specs = _specifiers(prog)
    vals = set(specs.values())
    ctx.ob("APICOMPAT-spec", "specifiers agree", "pyproject.toml:25", len(vals) == 1,
           f"both pyproject files declare pulser-core{next(iter(vals))}" if len(vals) == 1 else
           f"pulser-core specifiers differ: {specs}", nontrivial=False)
    spec = SpecifierSet(specs["pyproject.toml"])
    releases = _offline_releases()
    admitted = [v for v in releases if Version(v) in spec]
    ctx.extra["admitted_offline_releases"] = admitted
    ctx.require(ver in releases, "APICOMPAT: installed pulser version not determined")
    if ver not in admitted:
        ctx.note(f"the installed pulser-core {ver} is not admitted by {spec}; nothing to check")
        ctx.ob("APICOMPAT-spec", "installed release admitted", "pyproject.toml:25", True,
               f"installed pulser-core {ver} is outside {spec}: no admitted release available offline", nontrivial=False)
        return
    ctx.ob("APICOMPAT-spec", "installed release admitted", "pyproject.toml:25", True,
           f"pulser-core {ver} ∈ '{spec}' is the admitted release available offline; its source is the reference",
           nontrivial=False)

    # --- I: imports
    n_imp = 0
    for mod in prog.modules.values():
        for st in ast.walk(mod.tree):
            if isinstance(st, ast.ImportFrom) and st.module and st.module.split(".")[0] == "pulser" and st.level == 0:
                for a in st.names:
                    n_imp += 1
                    tgt = f"{st.module}.{a.name}"
                    ok = _pulser_name_exists(P, tgt)
                    ctx.ob("APICOMPAT-import", f"{mod.name}|{tgt}", f"{mod.relpath}:{st.lineno}", ok,
                           f"{tgt} exists in pulser-core {ver}" if ok else
                           f"`from {st.module} import {a.name}` fails with pulser-core {ver}: no such name")
            elif isinstance(st, ast.Import):
                for a in st.names:
                    if a.name.split(".")[0] == "pulser":
                        n_imp += 1
                        ok = a.name in P.modules
                        ctx.ob("APICOMPAT-import", f"{mod.name}|{a.name}", f"{mod.relpath}:{st.lineno}", ok,
                               f"module {a.name} exists" if ok else f"`import {a.name}` fails with pulser-core {ver}")
    ctx.require(n_imp >= 30, f"APICOMPAT: {n_imp} pulser import names found, ≥30 confirmed by hand")

    # --- S, A: subclasses of Pulser classes
    n_sub = 0
    for ci in prog.classes.values():
        pb = _pulser_bases(prog, P, ci)
        if not pb:
            continue
        n_sub += 1
        if any(b is None for b in pb):
            ctx.ob("APICOMPAT-base", f"{ci.qualname}", f"{ci.module.relpath}:{ci.node.lineno}", False,
                   f"a Pulser base class of {ci.name} does not exist in pulser-core {ver}: {prog.external_bases(ci)}")
            continue
        base = pb[0]
        # S: super().__init__ calls in every __init__ of the repo part of the MRO
        for k in prog.mro(ci):
            init = k.methods.get("__init__")
            if init is None or k is not ci:
                continue
            # the next __init__ after k: repo first, then pulser
            nxt = prog.find_method(ci, "__init__", after=k)
            target, skip = None, True
            if nxt is None:
                target = P.find_method(base, "__init__")
            if target is None and nxt is None:
                continue
            for n in ast.walk(init.node):
                if isinstance(n, ast.Call) and isinstance(n.func, ast.Attribute) and n.func.attr == "__init__" and \
                        isinstance(n.func.value, ast.Call) and dotted(n.func.value.func) == "super":
                    if nxt is not None:
                        continue  # repo-to-repo chaining is checked by the repo's own tests
                    probs = bind_problems(target, n, True)
                    ctx.ob("APICOMPAT-super", f"{ci.qualname}.__init__", init.loc(n), not probs,
                           f"super().__init__(…) binds to {target.qualname} of pulser-core {ver}" if not probs else
                           f"{ci.name}.__init__ calls {target.qualname}({util.text(n, 90)}): {'; '.join(probs)} — "
                           f"constructing the object raises TypeError under pulser-core {ver}, which the declared "
                           f"dependency '{spec}' admits")
        # A: abstract methods
        abstract = {}
        for b in pb:
            for k in P.mro(b):
                for name, m in k.methods.items():
                    if _is_abstract(m) and name not in abstract:
                        # is it overridden concretely lower in pulser's own MRO?
                        first = P.find_method(b, name)
                        if first is not None and _is_abstract(first):
                            abstract[name] = m
        missing = [n for n in abstract if prog.find_method(ci, n) is None and prog.find_class_attr(ci, n) is None]
        is_abstract_itself = any(_is_abstract(m) for m in ci.methods.values())
        if not is_abstract_itself:
            ctx.ob("APICOMPAT-abstract", f"{ci.qualname}", f"{ci.module.relpath}:{ci.node.lineno}", not missing,
                   f"{ci.name} defines all {len(abstract)} abstract member(s) of its Pulser base(s)" if not missing else
                   f"{ci.name} does not define abstract member(s) {sorted(missing)} required by pulser-core {ver}: it "
                   f"cannot be instantiated")
        # O: overrides Pulser calls with keywords
        for name in OVERRIDE_NAMES:
            m = ci.methods.get(name)
            if m is None or not any(P.find_method(b, name) is not None for b in pb):
                continue  # not an override of a Pulser method
            for site_mod, call in _pulser_calls_of(P, name):
                kws = {k.arg for k in call.keywords if k.arg}
                if call.args or any(k.arg is None for k in call.keywords):
                    continue
                skip = not m.is_static
                probs = accepts_keywords(m.node, kws, skip)
                ctx.ob("APICOMPAT-override", f"{ci.qualname}.{name}|{site_mod.name}:{util.text(call, 50)}", m.loc(), not probs,
                       f"{ci.name}.{name} accepts the keywords Pulser passes ({sorted(kws)})" if not probs else
                       f"{ci.name}.{name} {'; '.join(probs)} at {site_mod.relpath}:{call.lineno}")
    ctx.require(n_sub >= 12, f"APICOMPAT: {n_sub} subclasses of Pulser classes found, ≥12 confirmed by hand")

    # monkey-patched observable implementations are called like Observable.apply
    apply_calls = [c for _, c in _pulser_calls_of(P, "apply") if {k.arg for k in c.keywords} >= {"config", "state"}]
    ctx.require(apply_calls, "APICOMPAT: Observable.__call__'s apply(...) call not found in Pulser")
    kws = {k.arg for k in apply_calls[0].keywords if k.arg}
    for f in prog.funcs.values():
        if f.cls is None and f.parent is None and f.name.endswith("_impl") and f.params[:1] == ["self"]:
            probs = accepts_keywords(f.node, kws, True)
            ctx.ob("APICOMPAT-override", f"{f.qualname}", f.loc(), not probs,
                   f"{f.name} accepts apply's keywords {sorted(kws)}" if not probs else f"{f.name} {'; '.join(probs)}")

    # --- C: direct calls of Pulser callables
    n_calls = 0
    for f in prog.funcs.values():
        for n in util.walk_own(f.node):
            if not isinstance(n, ast.Call):
                continue
            d = dotted(n.func)
            if d is None or d.split(".")[0] in util.local_names(f):
                continue
            q = prog.qualify(f.module, d)
            if not q.startswith("pulser."):
                continue
            obj = P.lookup(q)
            if obj is None:
                head, _, last = P.canon(q).rpartition(".")
                hc = P.lookup(head)
                if isinstance(hc, ClassInfo):
                    obj = P.find_method(hc, last)
                    if obj is None:
                        members, dyn = _class_members(P, hc)
                        ctx.ob("APICOMPAT-call", f"{f.qualname}|{d}", f.loc(n), last in members or dyn,
                               f"{d} exists" if last in members or dyn else f"{d} does not exist in pulser-core {ver}")
                        continue
            if isinstance(obj, ClassInfo):
                init = P.find_method(obj, "__init__")
                if init is None:
                    if "dataclass" in obj.decorators:
                        n_calls += 1
                        probs = _dataclass_bind(P, obj, n)
                        ctx.ob("APICOMPAT-call", f"{f.qualname}|{util.akey(n, f, 60)}", f.loc(n), not probs,
                               f"{obj.name}(…) binds to the dataclass fields" if not probs else
                               f"{util.text(n, 80)}: {'; '.join(probs)} under pulser-core {ver}")
                    continue
                n_calls += 1
                probs = bind_problems(init, n, True)
                ctx.ob("APICOMPAT-call", f"{f.qualname}|{util.akey(n, f, 60)}", f.loc(n), not probs,
                       f"{obj.name}(…) binds to its constructor" if not probs else
                       f"{util.text(n, 80)}: {'; '.join(probs)} under pulser-core {ver}")
            elif isinstance(obj, FuncInfo):
                n_calls += 1
                skip = obj.cls is not None and not obj.is_static
                probs = bind_problems(obj, n, skip)
                ctx.ob("APICOMPAT-call", f"{f.qualname}|{util.akey(n, f, 60)}", f.loc(n), not probs,
                       f"{d}(…) binds to {obj.qualname}" if not probs else
                       f"{util.text(n, 80)}: {'; '.join(probs)} under pulser-core {ver}")
    ctx.count("pulser_calls", n_calls)

    # --- F: attributes read on parameters annotated with Pulser classes (one level, plus typed chains)
    n_attr = 0
    for f in prog.funcs.values():
        a = f.node.args
        for x in a.posonlyargs + a.args + a.kwonlyargs:
            c = _repo_ann_to_pulser(prog, P, f.module, x.annotation)
            if c is None:
                continue
            members, dyn = _class_members(P, c)
            narrowed = any(isinstance(n, ast.Call) and dotted(n.func) == "isinstance" and n.args and
                           isinstance(n.args[0], ast.Name) and n.args[0].id == x.arg for n in util.walk_all(f.node))
            if narrowed:
                continue  # isinstance-narrowed to a repo class: reads refer to that class
            for n in util.walk_all(f.node):
                if isinstance(n, ast.Attribute) and isinstance(n.value, ast.Name) and n.value.id == x.arg \
                        and isinstance(n.ctx, ast.Load):
                    n_attr += 1
                    ok = n.attr in members or dyn
                    ctx.ob("APICOMPAT-attr", f"{c.qualname}.{n.attr}", f.loc(n), ok,
                           f"{c.name}.{n.attr} exists" + (" (dynamic attributes)" if dyn and n.attr not in members else "")
                           if ok else f"{x.arg}.{n.attr}: {c.qualname} of pulser-core {ver} has no attribute {n.attr}")
    ctx.count("pulser_attribute_reads", n_attr)
    ctx.require(n_attr >= 20, f"APICOMPAT: {n_attr} attribute reads on Pulser-typed parameters, ≥20 confirmed by hand")


def _repo_ann_to_pulser(prog: Program, P: Program, mod: Module, ann) -> ClassInfo | None:
    if ann is None:
        return None
    if isinstance(ann, ast.Constant) and isinstance(ann.value, str):
        try:
            ann = ast.parse(ann.value, mode="eval").body
        except SyntaxError:
            return None
    if isinstance(ann, ast.BinOp) and isinstance(ann.op, ast.BitOr):
        found = [x for x in (_repo_ann_to_pulser(prog, P, mod, ann.left), _repo_ann_to_pulser(prog, P, mod, ann.right))
                 if x is not None]
        return found[0] if len(found) == 1 else None
    if isinstance(ann, ast.Subscript):
        base = dotted(ann.value) or ""
        if base.split(".")[-1] in ("Optional",):
            return _repo_ann_to_pulser(prog, P, mod, ann.slice)
        return None
    d = dotted(ann)
    if d is None:
        return None
    q = prog.qualify(mod, d)
    if not q.startswith("pulser"):
        return None
    obj = P.lookup(q)
    return obj if isinstance(obj, ClassInfo) else None


def _pulser_name_exists(P: Program, q: str) -> bool:
    c = P.canon(q)
    if P.lookup(c) is not None or c in P.modules:
        return True
    if P.global_value(c) is not None:
        return True
    mname, _, name = q.rpartition(".")
    mod = P.modules.get(mname)
    if mod is not None and (name in mod.imports or name in mod.globals or name in mod.funcs or name in mod.classes):
        return True
    # annotated-only module globals / names bound in other ways
    if mod is not None:
        for st in ast.walk(mod.tree):
            if isinstance(st, ast.AnnAssign) and isinstance(st.target, ast.Name) and st.target.id == name:
                return True
            if isinstance(st, (ast.Assign,)) and any(isinstance(t, ast.Name) and t.id == name for t in st.targets):
                return True
    return False


_calls_cache: dict = {}


def _pulser_calls_of(P: Program, name: str):
    """Attribute calls `<x>.name(...)` inside pulser/backend (where Pulser drives backends)."""
    if name in _calls_cache:
        return _calls_cache[name]
    out = []
    for mod in P.modules.values():
        if not mod.name.startswith("pulser.backend"):
            continue
        for n in ast.walk(mod.tree):
            if isinstance(n, ast.Call) and isinstance(n.func, ast.Attribute) and n.func.attr == name:
                recv = dotted(n.func.value) or ""
                if recv.split(".")[0] in ("self", "cls", "state", "observable", "obs", "op", "operator", "hamiltonian",
                                          "initial_state", "config") or recv == "":
                    out.append((mod, n))
    _calls_cache[name] = out
    return out


def _dataclass_bind(P: Program, c: ClassInfo, call: ast.Call) -> list[str]:
    fields, required = [], []
    for k in reversed(P.mro(c)):
        for name, (ann, val) in k.attrs.items():
            if ann is None or "ClassVar" in ast.unparse(ann):
                continue
            if isinstance(val, ast.Call) and dotted(val.func) in ("field", "dataclasses.field"):
                kw = {x.arg: x.value for x in val.keywords}
                if "init" in kw and isinstance(kw["init"], ast.Constant) and kw["init"].value is False:
                    continue
                has_default = "default" in kw or "default_factory" in kw
            else:
                has_default = val is not None
            if name not in fields:
                fields.append(name)
            if not has_default and name not in required:
                required.append(name)
    probs = []
    given = {k.arg for k in call.keywords if k.arg}
    bound = set(fields[: len(call.args)])
    if len(call.args) > len(fields):
        probs.append(f"{len(call.args)} positional arguments for {len(fields)} fields")
    unknown = given - set(fields)
    if unknown:
        probs.append(f"unknown field(s) {sorted(unknown)}")
    missing = [n for n in required if n not in given and n not in bound]
    if missing and not any(k.arg is None for k in call.keywords):
        probs.append(f"missing required field(s) {missing}")
    return probs


def serialisation_tolerance(ctx) -> None:
    """Pulser's State._to_abstract_repr refuses a state whose overlap with the state rebuilt from its own amplitudes
    differs from 1 by more than a tolerance.  An emu-mps state built by _from_state_amplitudes and left un-normalised
    has overlap norm⁴ with its rebuilt twin, so the constructor must renormalise whenever |norm⁴ − 1| exceeds that
    tolerance (the constant is read from the installed Pulser)."""
    from ..interp import Interp, show, strip_typed
    from ..algebra import is_const
    prog = ctx.prog
    P = util.pulser_program()
    pf = P.func("pulser.backend.state.State._to_abstract_repr")
    tol_p = None
    for n in ast.walk(pf.node):
        if isinstance(n, ast.If) and isinstance(n.test, ast.Compare) and len(n.test.ops) == 1 and isinstance(n.test.ops[0], ast.Gt) \
                and "overlap" in util.text(n.test.left) and any(isinstance(x, ast.Raise) for x in n.body):
            tol_p = util.const_value(P, pf.module, n.test.comparators[0], pf)
    ctx.require(isinstance(tol_p, float), "APICOMPAT-norm: Pulser's serialisation tolerance not found in State._to_abstract_repr")
    M = prog.cls("emu_mps.mps.MPS")
    f = M.methods["_from_state_amplitudes"]
    it = Interp(prog, M, inline=lambda c, r, d: False, loop_iters=(1,), max_paths=20000)
    guards = set()
    normalised_when_off = False
    for p in it.run(f):
        if p.status != "return":
            continue
        for c, t in p.cond_log:
            c0 = strip_typed(c)
            if c0[0] == "cmp" and c0[1] in (">", ">=") and strip_typed(c0[3])[0] == "const" and "norm()" in show(c0[2]):
                q = strip_typed(c0[2])
                # abs(X - 1.0)
                if q[0] == "call" and q[1] == "abs" and len(q[2]) == 1:
                    d = strip_typed(q[2][0])
                    if d[0] == "bin" and d[1] == "Sub" and is_const(d[3], 1.0):
                        x = strip_typed(d[2])
                        power = x[3][1] if x[0] == "bin" and x[1] == "Pow" and strip_typed(x[3])[0] == "const" else 1
                        base = strip_typed(x[2]) if x[0] == "bin" and x[1] == "Pow" else x
                        if base[0] == "mcall" and base[2].endswith("norm"):
                            guards.add((power, strip_typed(c0[3])[1], c0[1]))
                            if t:
                                scaled = any(e.kind == "call" and e.name.endswith("__imul__") or
                                             (e.kind == "call" and e.name.endswith(("__rmul__", "__mul__"))) for e in p.events)
                                normalised_when_off = normalised_when_off or scaled or "norm" in show(p.retval)
    ctx.require(guards, "APICOMPAT-norm: normalisation guard of MPS._from_state_amplitudes not recognised")
    ok = all(pw == 4 and tol <= tol_p for pw, tol, _ in guards)
    ctx.ob("APICOMPAT-norm", "MPS._from_state_amplitudes renormalises at Pulser's tolerance", f.loc(), ok,
           f"the state is renormalised whenever |norm⁴ − 1| > {sorted(g[1] for g in guards)[0]:g}, Pulser {util.pulser_version()} "
           f"rejects |overlap − 1| > {tol_p:g} (overlap of the un-normalised state with its rebuilt twin is norm⁴)" if ok else
           f"MPS._from_state_amplitudes renormalises only when |norm^{sorted(guards)[0][0]} − 1| > {sorted(guards)[0][1]:g}, but Pulser "
           f"{util.pulser_version()} rejects a state whose self-overlap norm⁴ differs from 1 by more than {tol_p:g}: states with a "
           f"norm error in between are left un-normalised and State._to_abstract_repr() (used when the qubit order is "
           f"optimised) raises AbstractReprError")
    ov = M.methods["overlap"]
    rets = [p for p in Interp(prog, M, inline=lambda c, r, d: False).run(ov) if p.status == "return"]
    r = strip_typed(rets[0].retval) if rets else ("const", None)
    okov = r[0] == "bin" and r[1] == "Pow" and is_const(r[3], 2) and "abs(" in show(r[2]) and "inner(" in show(r[2])
    ctx.ob("APICOMPAT-norm", "MPS.overlap is |<a|b>|²", ov.loc(), okov,
           "overlap(a, b) = |inner(a, b)|² (so overlap(ψ, ψ) = norm⁴)" if okov else f"MPS.overlap returns {show(r)[:80]}")


def base_instance_state(ctx) -> None:
    """Instance attributes that a Pulser base class creates in its own __init__ exist on an object of a repository
    subclass only if that subclass's constructor chain calls the Pulser __init__.  Where it does not (the operator
    classes build `self.data` and nothing else), no method of the subclass may read those attributes from `self`: an
    object built directly or by arithmetic does not have them."""
    prog = ctx.prog
    P = util.pulser_program()
    n = 0
    for C in prog.classes.values():
        if not C.module.name.startswith(("emu_base", "emu_mps", "emu_sv")):
            continue
        ext = [P.classes.get(P.canon(b)) or P.classes.get(b) for b in prog.external_bases(C)]
        ext = [e for e in ext if e is not None]
        if not ext:
            continue
        owned = {}   # attribute -> pulser class that creates it in __init__
        for e in ext:
            for pc in P.mro(e):
                init = pc.methods.get("__init__")
                if init is None:
                    continue
                for node in ast.walk(init.node):
                    if isinstance(node, (ast.Assign, ast.AnnAssign)):
                        for t in (node.targets if isinstance(node, ast.Assign) else [node.target]):
                            if isinstance(t, ast.Attribute) and isinstance(t.value, ast.Name) and t.value.id == init.params[0]:
                                owned.setdefault(t.attr, pc.name)
        if not owned:
            continue
        # does the repository constructor chain reach the Pulser __init__ ?
        reaches = False
        chain = [c for c in prog.mro(C) if "__init__" in c.methods]
        if not chain:
            reaches = True   # no own constructor: Pulser's runs
        else:
            reaches = all(any(isinstance(x, ast.Call) and isinstance(x.func, ast.Attribute) and x.func.attr == "__init__" and
                              isinstance(x.func.value, ast.Call) and util.text(x.func.value.func) == "super"
                              for x in ast.walk(c.methods["__init__"].node)) for c in chain)
        own_defs = {t.attr for c in prog.mro(C) for m in c.methods.values() if m.name == "__init__"
                    for node in ast.walk(m.node) if isinstance(node, (ast.Assign, ast.AnnAssign))
                    for t in (node.targets if isinstance(node, ast.Assign) else [node.target])
                    if isinstance(t, ast.Attribute) and isinstance(t.value, ast.Name) and t.value.id == m.params[0]}
        n += 1
        bad = []
        if not reaches:
            for m in C.methods.values():
                if m.is_static or m.is_classmethod or not m.params:
                    continue
                selfname = m.params[0]
                for node in ast.walk(m.node):
                    if isinstance(node, ast.Attribute) and isinstance(node.ctx, ast.Load) and isinstance(node.value, ast.Name) \
                            and node.value.id == selfname and node.attr in owned and node.attr not in own_defs:
                        bad.append(f"{C.name}.{m.name} reads self.{node.attr} (line {node.lineno}), created only by "
                                   f"{owned[node.attr]}.__init__")
        ctx.ob("APICOMPAT-basestate", f"{C.qualname}", C.module.relpath + f":{C.node.lineno}", not bad,
               (f"{C.name}'s constructor runs the Pulser __init__" if reaches else
                f"{C.name} never runs {', '.join(sorted(set(owned.values())))}.__init__ and reads none of the attributes it creates "
                f"({', '.join(sorted(owned))})") if not bad else
               f"{bad[0]}, which {C.name}.__init__ never calls: an operator built directly or by arithmetic has no such "
               f"attribute (AttributeError, e.g. when Pulser deep-copies the observables of a config)")
    ctx.require(n >= 3, f"APICOMPAT-basestate: only {n} repository classes with Pulser-created instance state")


def interaction_matrix_rank(ctx) -> None:
    """Producer/consumer agreement on the rank of the per-trajectory interaction matrix.  The installed pulser-core builds
    it in HamiltonianData._interaction_matrix; the repo consumes `samples.trajectory.interaction_matrix.as_tensor()` in
    PulserData.get_sequences as an (N, N) matrix (row/column masking with two index positions, a cut-off mask, then
    HamiltonianMPOFactors._validate_interaction_matrix insists on ndim == 2).  If the producer adds a leading axis
    (`d.reshape((1,) + d.shape)`: one (N, N) block per interaction kind) the consumer must select a block first."""
    prog = ctx.prog
    P = util.pulser_program()
    prod = None
    for q, f in P.funcs.items():
        if q.endswith("HamiltonianData._interaction_matrix"):
            prod = f
    g = prog.func("emu_base.pulser_adapter.PulserData.get_sequences")
    if prod is None:
        ctx.ob("APICOMPAT-rank", "trajectory interaction matrix", g.loc(), True,
               "the installed pulser-core has no HamiltonianData._interaction_matrix: producer layout not decided (older layout)")
        return
    # producer rank: the returned array starts as zeros_like(d.reshape((1,) + d.shape)) with d = _distances(register)
    lead = False
    for n in ast.walk(prod.node):
        if isinstance(n, ast.Call) and isinstance(n.func, ast.Attribute) and n.func.attr == "reshape" and n.args:
            a = n.args[0]
            if isinstance(a, ast.BinOp) and isinstance(a.op, ast.Add) and isinstance(a.left, ast.Tuple) and len(a.left.elts) == 1 \
                    and isinstance(a.right, ast.Attribute) and a.right.attr == "shape":
                lead = True
    stacked = any(isinstance(n, ast.Call) and util.text(n.func).endswith("vstack") for n in ast.walk(prod.node))
    # consumer: is a block selected from the trajectory's matrix before it is used as (N, N)?
    selects = False
    raw = False
    for n in ast.walk(g.node):
        if isinstance(n, ast.Call) and isinstance(n.func, ast.Attribute) and n.func.attr == "as_tensor" and \
                "trajectory.interaction_matrix" in util.text(n.func.value):
            raw = True
    for n in ast.walk(g.node):
        if isinstance(n, ast.Subscript) and "trajectory.interaction_matrix" in util.text(n.value) and \
                isinstance(n.slice, (ast.Constant, ast.UnaryOp)):
            selects = True
        if isinstance(n, ast.Call) and isinstance(n.func, ast.Attribute) and n.func.attr in ("squeeze", "select") and \
                "trajectory.interaction_matrix" in util.text(n.func.value):
            selects = True
    ctx.require(raw or selects, "APICOMPAT-rank: get_sequences no longer reads samples.trajectory.interaction_matrix")
    ok = not lead or selects
    ctx.ob("APICOMPAT-rank", "trajectory interaction matrix", g.loc(), ok,
           ("the installed pulser-core builds an (N, N) matrix" if not lead else
            "the consumer selects one (N, N) block of the (k, N, N) array") if ok else
           f"the installed pulser-core builds NoiseTrajectory.interaction_matrix with a leading axis "
           f"({prod.module.relpath}:{prod.node.lineno}: reshape((1,) + d.shape){', vstack for XY' if stacked else ''}) — shape (1, N, N) "
           f"resp. (2, N, N) — but get_sequences uses as_tensor() as an (N, N) matrix: masking hits the wrong axes and "
           f"make_H/_validate_interaction_matrix (ndim must be 2) rejects it, so no run through PulserData succeeds")
