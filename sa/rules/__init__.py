"""Rule families (DESIGN.md §4)."""
