"""Rules on emu_base.pulser_adapter: GRID, TIMEEQ, STEP-adapter, CLAMP, TRAJ-reps, INTERACT."""
from __future__ import annotations

import ast
import os

from ..algebra import canon, is_const, linear_in, monomials, poly, same
from ..interp import Interp, SELF, Event, Path, contains, field_defs, show, strip_typed, walk
from ..model import AnalysisError, dotted
from . import util

PA = "emu_base.pulser_adapter."


def _run(ctx, q: str, cls: str | None = None, inline=None, **kw):
    prog = ctx.prog
    f = prog.func(q)
    it = Interp(prog, prog.cls(cls) if cls else None, inline=inline or (lambda c, r, d: False), **kw)
    paths = it.run(f)
    ctx.count("paths", len(paths))
    return f, paths


# ======================================================================== GRID
def grid(ctx) -> None:
    prog = ctx.prog
    f, paths = _run(ctx, PA + "_get_target_times")
    rets = [p for p in paths if p.status == "return"]
    ctx.require(len(rets) >= 1, "_get_target_times: no returning path")
    for p in rets[:1]:
        ret = strip_typed(p.retval)
        dur = None
        for t in walk(ret):
            if t[0] == "call" and t[1] == "float" and len(t[2]) == 1 and strip_typed(t[2][0])[0] == "mcall" \
                    and strip_typed(t[2][0])[2] == "get_duration":
                dur = t
        if dur is None:
            for t in walk(ret):
                if t[0] == "mcall" and t[2] == "get_duration":
                    dur = t
        # 1. sorted of a set  ⇒ strictly increasing
        ok_sorted = ret[0] == "call" and ret[1] == "sorted" and len(ret[2]) == 1 and _is_set(ret[2][0])
        ctx.ob("GRID", "sorted set", f.loc(), ok_sorted,
               "the target times are sorted(<set>): strictly increasing" if ok_sorted else
               f"_get_target_times returns {show(ret)[:100]}, not the sorted() of a set: duplicates or disorder possible")
        # 2. one duration, with the modulation flag of the config
        durs = {t for t in walk(ret) if t[0] == "mcall" and t[2] == "get_duration"}
        ok_dur = len(durs) == 1 and all(dict(d[4]).get("include_fall_time") is not None and
                                        show(dict(d[4])["include_fall_time"]).endswith("config.with_modulation")
                                        for d in durs)
        ctx.ob("GRID", "duration", f.loc(), ok_dur,
               "one duration = get_duration(include_fall_time=config.with_modulation) scales grid and evaluation times"
               if ok_dur else f"duration terms used: {[show(d)[:80] for d in durs]}")
        # 3. elements: every member of the merged relative set times the duration
        body = strip_typed(ret[2][0]) if ok_sorted else None
        ok_scale = False
        rel = None
        if body is not None and body[0] == "comp":
            elt = body[2][0]
            rel = body[3][0][0]
            e0 = ("elem", rel, body[4])
            li = monomials(elt)
            ok_scale = dur is not None and len(li) == 1 and same(elt, ("bin", "Mult", e0, dur))
        ctx.ob("GRID", "scaling", f.loc(), ok_scale,
               "each relative time is multiplied by the duration" if ok_scale else
               "the returned set is not {t·duration for t in relative times}")
        # 4. the relative set contains the dt grid from 0, the end point 1.0 and the observable times
        has_obs = rel is not None and contains(rel, lambda t: t[0] == "call" and t[1] == PA + "_unique_observable_times")
        grids = [t for t in walk(rel)] if rel is not None else []
        grid_ok = False
        for t in grids:
            if t[0] == "comp" and t[1] == "set":
                it_ = strip_typed(t[3][0][0])
                if it_[0] == "call" and it_[1] == "range" and len(it_[2]) == 1:
                    k = ("elem", it_, t[4])
                    n = it_[2][0]
                    # element = k*dt/duration
                    want = ("bin", "Div", ("bin", "Mult", k, ("call", "float", (("param", f.qualname, "dt"),), ())), dur)
                    want2 = ("bin", "Div", ("bin", "Mult", k, ("param", f.qualname, "dt")), dur)
                    elt_ok = same(t[2][0], want) or same(t[2][0], want2)
                    # n = floor(duration/dt) + 1
                    li = monomials(n)
                    nst = [m for m in li if m and "floor" in show(m[0])]
                    n_ok = len(li) == 2 and abs(li.get((), 0) - 1) < 1e-12 and len(nst) == 1 and \
                        _is_floor_ratio(nst[0][0], dur, ("param", f.qualname, "dt"))
                    grid_ok = elt_ok and n_ok
        added_one = any(e.kind == "call" and e.name == ".add" and e.pos and is_const(e.pos[0], 1.0) for e in p.events)
        ctx.ob("GRID", "grid from 0", f.loc(), grid_ok,
               "the grid is {i·dt/duration : i ∈ range(floor(duration/dt)+1)}: starts at 0, every multiple of dt"
               if grid_ok else "the dt grid is not {i·dt/duration for i in range(floor(duration/dt)+1)}: it no longer "
                               "starts at 0 or skips multiples of dt")
        ctx.ob("GRID", "end point", f.loc(), added_one,
               "1.0 (the sequence end) is always a target time" if added_one else
               "the end of the sequence (relative time 1.0) is not added to the target times")
        ctx.ob("GRID", "observable times", f.loc(), has_obs,
               "every observable evaluation time is a target time" if has_obs else
               "the observables' evaluation times are not merged into the target times")
    # 5. PulserData.__init__: same flag to the sampler, same config to the grid
    g, gp = _run(ctx, PA + "PulserData.__init__", cls=PA + "PulserData")
    okm = okn = okt = okg = False
    seen_fs = False
    for p in gp:
        for e in p.events:
            if e.kind == "call" and e.name.endswith("HamiltonianData.from_sequence"):
                kw = dict(e.kw)
                okm = show(kw.get("with_modulation", ("const", None))).endswith("config.with_modulation")
                okt = show(kw.get("n_trajectories", ("const", None))).endswith("config.n_trajectories")
                nm_ = show(kw.get("noise_model", ("const", None)))
                okn_here = "noise_model" in nm_ or nm_.startswith("NoiseModel(")
                okn = okn_here if not seen_fs else (okn and okn_here)
                seen_fs = True
            if e.kind == "call" and e.name == PA + "_get_target_times":
                okg = all(show(e.args.get(k, ("const", None))) == k for k in ("sequence", "config", "dt"))
    ctx.ob("GRID", "sampler flags", g.loc(), okm and okt and okn,
           "HamiltonianData.from_sequence gets config.with_modulation, the effective noise model and "
           "config.n_trajectories" if okm and okt and okn else
           f"HamiltonianData.from_sequence arguments: with_modulation ok={okm}, n_trajectories ok={okt}, noise_model ok={okn}")
    ctx.ob("GRID", "grid arguments", g.loc(), okg,
           "_get_target_times receives the same sequence, config and dt" if okg else
           "_get_target_times is not called with the constructor's sequence/config/dt")


def _is_set(t) -> bool:
    t = strip_typed(t)
    return (t[0] == "comp" and t[1] == "set") or t[0] == "set" or (t[0] == "call" and t[1] == "set")


def _is_floor_ratio(atom, dur, dt) -> bool:
    a = strip_typed(atom)
    return a[0] == "call" and a[1] == "math.floor" and len(a[2]) == 1 and same(a[2][0], ("bin", "Div", dur, dt))


# ===================================================================== TIMEEQ
TRANSPARENT_CALLS = {"sorted", "set", "list", "tuple", "frozenset"}


def timeeq(ctx) -> None:
    """Exact-equality merge of float times from different expression families must be followed by a
    tolerance-based de-duplication before reaching Observable(evaluation_times=) (unique up to TIME_TOLERANCE)."""
    prog = ctx.prog
    tol_sink = _pulser_time_tolerance()
    f, paths = _run(ctx, PA + "_get_target_times")
    p = [q for q in paths if q.status == "return"][0]
    ret = p.retval
    merges = _find_exact_merges(ret)
    ctx.require(merges is not None, "TIMEEQ: cannot analyse the provenance of the target times")
    verdict = "no-merge"
    detail = ""
    if merges:
        verdict = "unsanitised"
        for chain in merges:
            for w in chain:
                k = _wrapper_kind(prog, w)
                if k == "sanitiser":
                    verdict = "sanitised"
                    detail = show(w)[:60]
                    break
                if k == "opaque":
                    raise AnalysisError(f"TIMEEQ: the merged times flow through {show(w)[:80]}, which is neither a "
                                        f"recognised tolerance de-duplication nor a transparent container operation")
            if verdict == "sanitised":
                break
    # sinks: Observable subclasses constructed with evaluation_times derived from target_times
    sinks = []
    for cq in ("emu_mps.mps_backend_impl.MPSBackendImpl", "emu_sv.sv_backend_impl.SVBackendImpl"):
        K = prog.cls(cq)
        init = K.methods["__init__"]
        it = Interp(prog, K, inline=lambda c, r, d: False)
        for q in it.run(init):
            for e in q.events:
                if e.kind == "call" and e.callee is not None and "evaluation_times" in e.args and \
                        "target_times" in show(e.args["evaluation_times"]):
                    sinks.append((K, e))
    keys = set()
    for K, e in sinks:
        key = f"{K.name}|{e.name.split('.')[-1]}(evaluation_times=)"
        if key in keys:
            continue
        keys.add(key)
        ok = verdict in ("sanitised", "no-merge")
        ctx.ob("TIMEEQ", key, e.loc(), ok,
               (f"grid and observable times are merged with a tolerance de-duplication ({detail}) before reaching "
                f"{e.name.split('.')[-1]}(evaluation_times=), which requires uniqueness up to {tol_sink:g}") if ok else
               (f"_get_target_times merges the dt grid and the observables' evaluation times by exact float equality; "
                f"{e.name.split('.')[-1]}(evaluation_times=[t/T[-1]…]) then requires uniqueness up to {tol_sink:g}: "
                f"dt=0.1, duration=100, evaluation time 0.003 gives 0.003 and 0.0030000000000000005 and the run "
                f"raises ValueError"), entry=f.qualname)
    ctx.require(len(keys) >= 2, f"TIMEEQ: {len(keys)} evaluation_times sinks found, 2 confirmed by hand")


def _pulser_time_tolerance() -> float:
    src = os.path.join(util.pulser_root(), "backend", "observable.py")
    with open(src, encoding="utf-8") as fh:
        tree = ast.parse(fh.read())
    for st in tree.body:
        if isinstance(st, ast.Assign) and any(isinstance(t, ast.Name) and t.id == "TIME_TOLERANCE" for t in st.targets):
            return float(ast.literal_eval(st.value))
    raise AnalysisError("TIMEEQ: TIME_TOLERANCE not found in the installed Pulser")


def _find_exact_merges(term):
    """List of wrapper chains (innermost first) around each set-union of two different float families."""
    out = []

    def rec(t, wrappers):
        t = strip_typed(t)
        if not isinstance(t, tuple) or not t:
            return
        if t[0] == "bin" and t[1] == "BitOr":
            out.append(list(reversed(wrappers)))
        if t[0] == "mcall" and t[2] in ("union",):
            out.append(list(reversed(wrappers)))
        for x in t[1:]:
            if isinstance(x, tuple):
                if x and isinstance(x[0], str):
                    rec(x, wrappers + [t])
                else:
                    for y in x:
                        if isinstance(y, tuple):
                            rec2(y, wrappers + [t])

    def rec2(y, wrappers):
        if y and isinstance(y[0], str):
            rec(y, wrappers)
        else:
            for z in y:
                if isinstance(z, tuple):
                    rec2(z, wrappers)

    rec(term, [])
    return out


def _wrapper_kind(prog, w) -> str:
    w = strip_typed(w)
    k = w[0]
    if k in ("comp", "bin", "elem", "tuple", "list", "set", "unpack", "un", "typed"):
        return "transparent"
    if k == "call":
        name = w[1]
        if name in TRANSPARENT_CALLS:
            return "transparent"
        if name in ("round",):
            return "sanitiser"
        fi = prog.funcs.get(name)
        if fi is not None:
            return "sanitiser" if is_tolerance_dedup(prog, fi) else "opaque"
        if name.endswith("_fuzzy_unique_sorted"):
            return "sanitiser"
        return "opaque"
    if k == "mcall":
        return "opaque"
    return "transparent"


def is_tolerance_dedup(prog, fi) -> bool:
    """A loop over (sorted) times comparing the gap to the previously kept time against a tolerance."""
    for n in ast.walk(fi.node):
        if isinstance(n, (ast.For, ast.comprehension, ast.ListComp)):
            pass
    has_loop = any(isinstance(n, (ast.For, ast.While, ast.ListComp, ast.GeneratorExp)) for n in ast.walk(fi.node))
    if not has_loop:
        return False
    for n in ast.walk(fi.node):
        if isinstance(n, ast.Compare) and len(n.ops) == 1 and isinstance(n.ops[0], (ast.Lt, ast.LtE, ast.Gt, ast.GtE)):
            sides = [n.left, n.comparators[0]]
            diff = [s for s in sides if (isinstance(s, ast.BinOp) and isinstance(s.op, ast.Sub)) or
                    (isinstance(s, ast.Call) and dotted(s.func) in ("abs", "math.fabs", "np.abs", "numpy.abs"))]
            other = [s for s in sides if s not in diff]
            if diff and other:
                v = util.const_value(prog, fi.module, other[0], fi)
                if isinstance(v, (int, float)) and 0 < v < 1e-3:
                    return True
                if isinstance(other[0], ast.Name) and other[0].id in fi.params and "tol" in other[0].id.lower():
                    return True
    return False


# =============================================================== STEP-adapter
FIELD_OF_KEY = {"omega": "amp", "delta": "det", "phi": "phase"}


def step_adapter(ctx) -> None:
    prog = ctx.prog
    f, paths = _run(ctx, PA + "_extract_omega_delta_phi")
    rets = [p for p in paths if p.status == "return"]
    ctx.require(rets, "_extract_omega_delta_phi: no returning path")
    tt = ("param", f.qualname, "target_times")
    done = set()
    for p in rets:
        # --- the dict key -> array association and the returned order
        table = None
        for e in p.events:
            if e.kind == "call" and e.name == ".items" and strip_typed(e.recv)[0] == "dict":
                table = strip_typed(e.recv)
        ctx.require(table is not None, "STEP-adapter: the name→array mapping iterated by the interpolation loop was "
                                       "not found")
        key_of = {}
        for k, v in table[1]:
            if k[0] == "const":
                key_of[canon(v)] = k[1]
        ret = strip_typed(p.retval)
        ctx.require(ret[0] == "tuple" and len(ret[1]) == 3, f"STEP-adapter: unexpected return {show(ret)[:80]}")
        order = []
        for r in ret[1]:
            arr = _array_behind(r)
            order.append(key_of.get(canon(arr)) if arr is not None else None)
        ok = order == ["amp", "det", "phase"]
        ctx.ob("STEP-adapter", "return order", f.loc(), ok,
               "returns (array filled from 'amp', from 'det', from 'phase')" if ok else
               f"returns the arrays filled from {order} in the positions the caller unpacks as (omega, delta, phi)")
        # --- interpolation: PCHIP1D(t_grid, signal[key]) evaluated at the midpoints, stored in the key's array
        for e in p.events:
            if e.kind != "setitem":
                continue
            v = strip_typed(e.value)
            if v[0] != "vcall":
                continue
            recv = strip_typed(v[1])
            if not (recv[0] == "new" and recv[1].endswith("PCHIP1D")):
                continue
            if "interp" in done:
                continue
            done.add("interp")
            base = strip_typed(e.target[0])
            keyterm = None
            if base[0] == "unpack" and base[2] == 1:
                keyterm = ("unpack", base[1], 0, base[3])
            x, y = recv[2][0], recv[2][1]
            okx = same(x, ("call", "torch.arange", (("sub", tt, ("const", -1)),), ())) or \
                (strip_typed(x)[0] == "call" and strip_typed(x)[1] == "torch.arange" and
                 same(strip_typed(x)[2][0], ("sub", tt, ("const", -1))))
            oky = keyterm is not None and contains(y, lambda t: t == keyterm)
            xq = v[2][0]
            mons = monomials(xq)
            okq = False
            if len(mons) == 2 and all(abs(c - 0.5) < 1e-12 for c in mons.values()):
                sl = set()
                for m in mons:
                    a = m[0]
                    if a[0] == "sub" and a[2][0] == "slice" and "target_times" in show(a[1]):
                        sl.add((show(a[2][1]), show(a[2][2])))
                okq = sl == {("None", "-1"), ("1", "None")}
            idx = e.target[1]
            okcol = idx[0] == "tuple" and len(idx[1]) == 2 and idx[1][0][0] == "slice" and \
                all(z == ("const", None) for z in idx[1][0][1:])
            ctx.ob("STEP-adapter", "knots", e.loc(), okx,
                   "interpolation knots are Pulser's sample times 0,1,…,T−1" if okx else
                   f"interpolation knots are {show(x)[:80]}, not arange(target_times[-1])")
            ctx.ob("STEP-adapter", "signal", e.loc(), oky,
                   "the array of key K interpolates the sampled signal K of that atom" if oky else
                   f"the interpolated signal {show(y)[:100]} is not indexed by the key of the array being filled")
            ctx.ob("STEP-adapter", "midpoints", e.loc(), okq,
                   "evaluated at the step midpoints ½(T[:-1]+T[1:])" if okq else
                   f"evaluated at {show(xq)[:100]}, not at the step midpoints ½(T[:-1]+T[1:])")
            ctx.ob("STEP-adapter", "column store", e.loc(), okcol,
                   "the whole column of the atom is filled" if okcol else
                   f"the interpolated values are stored at {show(idx)[:60]}, not in the atom's whole column")
    ctx.require("interp" in done, "STEP-adapter: PCHIP interpolation store not found")
    # --- consumer: unpack order and positional construction of SequenceData
    g, gp = _run(ctx, PA + "PulserData.get_sequences", cls=PA + "PulserData")
    SD = prog.cls(PA + "SequenceData")
    fields = [n for n, (ann, _) in SD.attrs.items() if ann is not None]
    want = {
        "omega": lambda t: _is_unpack_of(t, PA + "_extract_omega_delta_phi", 0),
        "delta": lambda t: _is_unpack_of(t, PA + "_extract_omega_delta_phi", 1),
        "phi": lambda t: _is_unpack_of(t, PA + "_extract_omega_delta_phi", 2),
        "interaction_matrix": lambda t: strip_typed(t)[0] == "new" and strip_typed(t)[1].endswith("_InteractionMatrixCallable"),
        "qubit_ids": lambda t: "bad_atoms.keys()" in show(t),
        "bad_atoms": lambda t: "bad_atoms.values()" in show(t),
        "lindblad_ops": lambda t: show(t).endswith("self.lindblad_ops"),
        "state_prep_error": lambda t: show(t).endswith("noise_model.state_prep_error"),
        "target_times": lambda t: show(t).endswith("self.target_times"),
        "eigenstates": lambda t: show(t).endswith("self.eigenstates"),
        "hamiltonian_type": lambda t: show(t).endswith("self.hamiltonian_type"),
    }
    seen = False
    for p in gp:
        for e in p.events:
            if e.kind == "call" and e.callee is SD or (e.kind == "call" and e.name == SD.qualname):
                seen = True
                for fld in fields:
                    v = e.args.get(fld)
                    ok = v is not None and want.get(fld, lambda t: True)(v)
                    ctx.ob("ROLE-seqdata", f"SequenceData.{fld}", e.loc(), ok,
                           f"SequenceData.{fld} receives the matching quantity" if ok else
                           f"SequenceData.{fld} receives {show(v)[:80] if v is not None else 'nothing'}")
    ctx.require(seen, "ROLE-seqdata: SequenceData construction not found in get_sequences")
    ctx.floor("ROLE-seqdata", 11)


def _array_behind(t):
    """The allocation-site array a returned value was derived from: handles x.to(...), unpack of a generator over
    a tuple of arrays, direct reference."""
    t = strip_typed(t)
    if t[0] == "call" and len(t) == 5:
        return t
    if t[0] == "unpack" and isinstance(t[2], int):
        src = strip_typed(t[1])
        if src[0] == "comp" and len(src[3]) == 1:
            it_ = strip_typed(src[3][0][0])
            if it_[0] in ("tuple", "list") and t[2] < len(it_[1]):
                return _array_behind(it_[1][t[2]])
        if src[0] in ("tuple", "list") and t[2] < len(src[1]):
            return _array_behind(src[1][t[2]])
    if t[0] == "mcall" and t[2] in ("to", "type", "clone", "contiguous"):
        return _array_behind(t[1])
    if t[0] == "call" and t[1] in ("torch.clamp", "torch.relu", "torch.where", "torch.maximum", "torch.clamp_min") and t[2]:
        for a in t[2]:
            r = _array_behind(a)
            if r is not None:
                return r
    return None


def _is_unpack_of(t, q: str, i: int) -> bool:
    t = strip_typed(t)
    return t[0] == "unpack" and t[2] == i and strip_typed(t[1])[0] == "call" and strip_typed(t[1])[1] == q


# ====================================================================== CLAMP
def _is_sanitised(v) -> bool:
    """Value is the non-negative part of something: where(x>0|>=0, x, 0), clamp(min=0), relu, maximum(x, 0)."""
    v = strip_typed(v)
    if v[0] == "call" and v[1] == "torch.where" and len(v[2]) == 3:
        c, a, b = (strip_typed(x) for x in v[2])
        if c[0] == "cmp" and c[1] in (">", ">=") and is_const(c[3], 0) and canon(c[2]) == canon(a) and is_const(b, 0):
            return True
        if c[0] == "cmp" and c[1] in ("<", "<=") and is_const(c[3], 0) and canon(c[2]) == canon(b) and is_const(a, 0):
            return True
    if v[0] == "call" and v[1] in ("torch.clamp", "torch.clip"):
        kw = dict(v[3])
        if "min" in kw and is_const(kw["min"], 0):
            return True
        if len(v[2]) >= 2 and is_const(v[2][1], 0):
            return True
    if v[0] == "mcall" and v[2] in ("clamp", "clip", "clamp_min"):
        kw = dict(v[4])
        if ("min" in kw and is_const(kw["min"], 0)) or (v[3] and is_const(v[3][0], 0)):
            return True
    if v[0] == "call" and v[1] in ("torch.relu", "torch.nn.functional.relu", "torch.clamp_min"):
        return v[1] != "torch.clamp_min" or (len(v[2]) > 1 and is_const(v[2][1], 0))
    if v[0] == "mcall" and v[2] == "relu":
        return True
    if v[0] == "call" and v[1] == "torch.maximum" and len(v[2]) == 2:
        return any(is_const(x, 0) or "zeros_like" in show(x) for x in v[2])
    return False


def _covers(a, b) -> bool:
    """Index region a ⊇ region b (component-wise: full slice covers anything, equal components cover each other)."""
    ca = a[1] if a[0] == "tuple" else (a,)
    cb = b[1] if b[0] == "tuple" else (b,)
    if len(ca) != len(cb):
        return False
    for x, y in zip(ca, cb):
        full = x[0] == "slice" and all(z == ("const", None) for z in x[1:])
        if not full and canon(x) != canon(y):
            return False
    return True


def clamp(ctx) -> None:
    prog = ctx.prog
    f, paths = _run(ctx, PA + "_extract_omega_delta_phi")
    rets = [p for p in paths if p.status == "return"]
    n_amp = n_other = 0
    for p in rets:
        keycond = None
        for c, t in p.cond_log:
            c0 = strip_typed(c)
            if c0[0] == "cmp" and c0[1] == "==" and any(x == ("const", "amp") for x in (c0[2], c0[3])):
                keycond = t
        tainted = []   # regions still possibly negative
        sanit_on_other = []
        whole_sanitised = False
        ret = strip_typed(p.retval)
        if ret[0] == "tuple" and ret[1]:
            r0 = strip_typed(ret[1][0])
            if _wrapped_by_sanitiser(r0):
                whole_sanitised = True
        for e in p.events:
            if e.kind != "setitem":
                continue
            base = strip_typed(e.target[0])
            if not (base[0] == "unpack" or (base[0] == "call" and len(base) == 5)):
                continue
            region = e.target[1]
            if _is_sanitised(e.value):
                if keycond is False:
                    sanit_on_other.append(e)
                tainted = [r for r in tainted if not _covers(region, r)]
            elif contains(e.value, lambda t: t[0] == "vcall" and strip_typed(t[1])[0] == "new"
                          and strip_typed(t[1])[1].endswith("PCHIP1D")) and not _is_sanitised(e.value):
                tainted.append(region)
        if keycond is True or keycond is None:
            n_amp += 1
            ok = whole_sanitised or not tainted
            ctx.ob("CLAMP", "amplitude non-negative", f.loc(), ok,
                   "every interpolated amplitude value passes a non-negativity clamp before it is returned" if ok else
                   f"interpolated amplitude values stored at region(s) {[show(r) for r in tainted]} are returned "
                   f"without a non-negativity clamp (only a sub-region is clamped): PCHIP extrapolates past the last "
                   f"Pulser sample, e.g. a ramp to 0 with target times […,19,19.5,20] gives Ω=−0.0395 at the "
                   f"last-but-one midpoint", entry=f.qualname)
        if keycond is False:
            n_other += 1
            ok = not sanit_on_other
            ctx.ob("CLAMP", "detuning/phase not clamped", f.loc(), ok,
                   "the clamp applies to the amplitude only" if ok else
                   "detuning/phase arrays are clamped to non-negative values: negative detunings are physical",
                   entry=f.qualname)
    ctx.require(n_amp >= 1, "CLAMP: no path fills the amplitude array")


def _wrapped_by_sanitiser(t) -> bool:
    t = strip_typed(t)
    if _is_sanitised(t):
        return True
    if t[0] == "mcall" and t[2] in ("to", "type", "contiguous"):
        return _wrapped_by_sanitiser(t[1])
    if t[0] == "unpack" and isinstance(t[2], int):
        src = strip_typed(t[1])
        if src[0] == "comp" and len(src[3]) == 1:
            it_ = strip_typed(src[3][0][0])
            if it_[0] in ("tuple", "list") and t[2] < len(it_[1]):
                return _wrapped_by_sanitiser(it_[1][t[2]])
    return False


# ======================================================================= TRAJ
def traj_reps(ctx) -> None:
    prog = ctx.prog
    g, gp = _run(ctx, PA + "PulserData.get_sequences", cls=PA + "PulserData")
    ys = []
    for p in gp:
        for e in p.events:
            if e.kind == "yield":
                ys.append((p, e))
    ctx.require(ys, "TRAJ: get_sequences yields nothing")
    for p, e in ys[:1]:
        loops = [c for c in e.ctx if c[0] == "loop"]
        ok = len(loops) == 2
        iters = []
        nodes = []
        for lp in loops:
            node = None
            for n in ast.walk(g.node):
                if isinstance(n, ast.For) and n.lineno == lp[1][1]:
                    node = n
            nodes.append(node)
            iters.append(util.text(node.iter) if node is not None else "?")
        inner_ok = False
        if ok and all(nodes):
            outer, inner = nodes
            it2 = util.inline_locals(g, inner.iter)   # `n = samples.reps; for _ in range(n)` is the same loop
            inner_ok = isinstance(it2, ast.Call) and util.text(it2.func) == "range" and len(it2.args) == 1 and \
                isinstance(it2.args[0], ast.Attribute) and it2.args[0].attr == "reps" and \
                isinstance(it2.args[0].value, ast.Name) and isinstance(outer.target, ast.Name) and \
                it2.args[0].value.id == outer.target.id
        ok = ok and iters[0].endswith("noisy_samples") and inner_ok
        brk = any(isinstance(n, (ast.Break, ast.Continue, ast.Return)) for n in ast.walk(g.node))
        ctx.ob("TRAJ-reps", "yield nesting", e.loc(), ok and not brk,
               "one SequenceData is yielded per repetition of every noise trajectory (for samples in noisy_samples: "
               "for _ in range(samples.reps): yield)" if ok and not brk else
               f"the yield sits in loops over {iters}" + (" with break/continue/return" if brk else "")
               + " — trajectories are not simulated as many times as Pulser requests")


def traj_runs(ctx, backend_q: str) -> None:
    """run(): every yielded SequenceData is simulated once and every result is aggregated."""
    prog = ctx.prog
    B = prog.cls(backend_q)
    f = B.methods.get("run")
    ctx.require(f is not None, f"{backend_q}.run not found")
    it = Interp(prog, B, inline=lambda c, r, d: False)
    paths = [p for p in it.run(f) if p.status == "return"]
    ctx.require(paths, f"{backend_q}.run: no returning path")
    loop = [n for n in util.walk_own(f.node) if isinstance(n, (ast.For, ast.While))]
    ctx.require(len(loop) == 1, f"{backend_q}.run: expected exactly one loop, found {len(loop)}")
    ln = loop[0]
    it_ok = isinstance(ln, ast.For) and util.text(ln.iter).endswith(".get_sequences()")
    jumps = any(isinstance(n, (ast.Break, ast.Continue, ast.Return, ast.If)) for st in ln.body for n in ast.walk(st))
    for p in paths[:1]:
        ret = strip_typed(p.retval)
        ok_agg = ret[0] == "call" and ret[1].endswith("Results.aggregate") and len(ret[2]) >= 1
        lst = strip_typed(ret[2][0]) if ok_agg else None
        sims = [e for e in p.events if e.kind == "call" and e.name.endswith("._run_from_sequence_data")]
        ok_one = len(sims) == 1 and lst is not None and lst[0] == "list" and len(lst[1]) == 1 and \
            strip_typed(lst[1][0]) == strip_typed(sims[0].result if sims[0].result is not None else ("bottom",))
        args_ok = False
        if sims:
            a = sims[0].args
            sd = strip_typed(a.get("sequence_data", ("bottom",)))
            args_ok = sd[0] == "elem" and "get_sequences" in show(sd[1]) and show(a.get("config")).endswith("self._config")
        ok = it_ok and not jumps and ok_agg and ok_one and args_ok
        ctx.ob("TRAJ", f"{B.name}.run", f.loc(), ok,
               "each yielded SequenceData is simulated exactly once with the backend's config, appended, and the "
               "whole list is aggregated" if ok else
               f"{B.name}.run: loop over get_sequences ok={it_ok}, no filtering/break={not jumps}, "
               f"aggregate(list) ok={ok_agg}, one simulation appended per iteration ok={ok_one}, arguments ok={args_ok}")
    # PulserData built from the backend's own sequence/config/dt
    pd = [e for p in paths for e in p.events if e.kind == "call" and e.name == PA + "PulserData"]
    ok_pd = bool(pd) and all(show(e.args.get("sequence")).endswith("self._sequence") and
                             show(e.args.get("config")).endswith("self._config") and
                             show(e.args.get("dt")).endswith("self._config.dt") for e in pd)
    ctx.ob("TRAJ", f"{B.name}.run PulserData", f.loc(), ok_pd,
           "PulserData(sequence=self._sequence, config=self._config, dt=self._config.dt)" if ok_pd else
           "PulserData is not built from the backend's sequence, config and config.dt")


# =================================================================== INTERACT
def interact(ctx) -> None:
    prog = ctx.prog
    g, gp = _run(ctx, PA + "PulserData.get_sequences", cls=PA + "PulserData")
    ctx.require(gp, "get_sequences: no path")
    user = ("attr", SELF, "full_interaction_matrix")
    checked = False
    pols = set()
    for p in gp:
        news = [e for e in p.events if e.kind == "call" and e.name.endswith("_InteractionMatrixCallable")]
        if not news:
            continue
        e = news[0]
        full, masked, slm = e.args.get("full_matrix"), e.args.get("masked_matrix"), e.args.get("slm_end_time")
        user_pref = None
        for c, t in p.cond_log:
            if "full_interaction_matrix is None" in show(c):
                user_pref = t
        checked = True
        # (1) source: user matrix when given, register matrix otherwise — established by the ifexp / branches
        src_ok = _source_ok(p, full, user)
        pols.add(_is_none(p, user))
        ctx.ob("INTERACT", "source preference", e.loc(), src_ok,
               "the user-supplied matrix is used when given, the register's otherwise" if src_ok else
               f"full matrix provenance {show(full)[:120]} does not prefer config.interaction_matrix")
        # (2) clone before the in-place edits
        cl_ok = strip_typed(full)[0] == "mcall" and strip_typed(full)[2] == "clone"
        ctx.ob("INTERACT", "clone before edit", e.loc(), cl_ok,
               "the matrix is cloned before entries are zeroed in place (the user's / Pulser's tensor is untouched)"
               if cl_ok else "entries are zeroed in place on a tensor that is not a fresh clone")
        # (3) cutoff mask: abs(M) < interaction_cutoff, set to 0
        cut = [x for x in p.events if x.kind == "setitem" and canon(strip_typed(x.target[0])) == canon(strip_typed(full))]
        cut_ok = False
        for x in cut:
            m = strip_typed(x.target[1])
            if m[0] == "cmp" and is_const(x.value, 0):
                a, b, op = strip_typed(m[2]), strip_typed(m[3]), m[1]
                if op in (">", ">="):
                    a, b, op = b, a, {">": "<", ">=": "<="}[op]
                is_abs = (a[0] == "call" and a[1] in ("torch.abs", "abs") and canon(a[2][0]) == canon(strip_typed(full))) or \
                         (a[0] == "mcall" and a[2] == "abs" and canon(a[1]) == canon(strip_typed(full)))
                cut_ok = op == "<" and is_abs and b == ("attr", SELF, "interaction_cutoff")
        ctx.ob("INTERACT", "cutoff mask", e.loc(), cut_ok,
               "entries with |U| < interaction_cutoff are zeroed, all others unchanged" if cut_ok else
               "the cutoff is not applied as M[abs(M) < self.interaction_cutoff] = 0")
        # (3b) the SLM-masked matrix is derived from the matrix *after* the cutoff (or receives its own cutoff store)
        mk0 = strip_typed(masked)
        clones = [i for i, x in enumerate(p.events) if x.kind == "call" and x.name == ".clone" and x.recv is not None
                  and canon(strip_typed(x.recv)) == canon(strip_typed(full)) and mk0[0] == "mcall"]
        cut_idx = [i for i, x in enumerate(p.events) if x in cut and strip_typed(x.target[1])[0] == "cmp"]
        own_cut = any(x.kind == "setitem" and canon(strip_typed(x.target[0])) == canon(mk0) and is_const(x.value, 0)
                      and strip_typed(x.target[1])[0] == "cmp" and "interaction_cutoff" in show(x.target[1]) for x in p.events)
        ord_ok = own_cut or (bool(clones) and bool(cut_idx) and min(cut_idx) < clones[-1])
        ctx.ob("INTERACT", "cutoff before the SLM copy", e.loc(), ord_ok,
               "the masked matrix is cloned from the matrix after the cutoff was applied" if ord_ok else
               "the SLM-masked matrix is cloned before the interaction cutoff is applied: until the SLM mask ends, "
               "interactions below the cutoff between unmasked atoms are kept")
        fd = field_defs(prog, prog.cls(PA + "PulserData"))
        okc = any(show(v).endswith("config.interaction_cutoff") for v, _ in fd.get("interaction_cutoff", []))
        ctx.ob("INTERACT", "cutoff source", g.loc(), okc,
               "interaction_cutoff comes from the config" if okc else "self.interaction_cutoff is not config.interaction_cutoff")
        # (4) SLM: rows and columns of every masked target zeroed on a clone of the full matrix
        mk = strip_typed(masked)
        mk_ok = mk[0] == "mcall" and mk[2] == "clone" and canon(mk[1]) == canon(strip_typed(full))
        rows = cols = False
        for x in p.events:
            if x.kind == "setitem" and canon(strip_typed(x.target[0])) == canon(mk) and is_const(x.value, 0):
                idx = strip_typed(x.target[1])
                if idx[0] == "elem":
                    rows = True
                if idx[0] == "tuple" and len(idx[1]) == 2 and idx[1][0][0] == "slice" and idx[1][1][0] == "elem":
                    cols = True
                if idx[0] == "tuple" and len(idx[1]) == 2 and idx[1][1][0] == "slice" and idx[1][0][0] == "elem":
                    rows = True
        ctx.ob("INTERACT", "SLM rows and columns", e.loc(), mk_ok and rows and cols,
               "the masked matrix is a clone of the full one with the rows and the columns of SLM targets zeroed"
               if mk_ok and rows and cols else
               f"masked matrix: clone of full={mk_ok}, rows zeroed={rows}, columns zeroed={cols}")
        okslm = strip_typed(slm) == ("attr", SELF, "slm_end_time")
        ctx.ob("INTERACT", "slm_end_time", e.loc(), okslm,
               "slm_end_time is forwarded" if okslm else f"slm_end_time={show(slm)[:60]}")
    ctx.require(checked, "INTERACT: _InteractionMatrixCallable construction not found")
    ctx.require(pols in ({None}, {True, False}), f"INTERACT: paths of get_sequences decide `full_interaction_matrix is None` as {pols}")
    # (5) the callable: masked strictly before the SLM end, full from then on
    c, cp = _run(ctx, PA + "_InteractionMatrixCallable.__call__", cls=PA + "_InteractionMatrixCallable")
    sel = {}
    for p in cp:
        if p.status != "return":
            continue
        for cnd, t in p.cond_log:
            c0 = strip_typed(cnd)
            if c0[0] == "cmp":
                a, b, op = strip_typed(c0[2]), strip_typed(c0[3]), c0[1]
                if op in (">", ">="):
                    a, b, op = b, a, {">": "<", ">=": "<="}[op]
                if show(a) == "t" and b == ("attr", SELF, "slm_end_time"):
                    sel[(op, t)] = strip_typed(p.retval)
    ok = sel.get(("<", True)) == ("attr", SELF, "masked_matrix") and sel.get(("<", False)) == ("attr", SELF, "full_matrix")
    ctx.ob("INTERACT", "callable", c.loc(), ok,
           "t < slm_end_time → masked matrix, otherwise the full matrix" if ok else
           f"the time switch of the interaction matrix is {[(k, show(v)) for k, v in sel.items()]}")
    # slm end time from the sequence
    fdp = field_defs(prog, prog.cls(PA + "PulserData"))
    defs_end = fdp.get("slm_end_time", [])
    okend = any("_slm_mask_time[1]" in show(v) and "0.0" in show(v) for v, _ in defs_end)
    if not okend:
        # the same selection written as two paths: mask time set (len(_slm_mask_time) > 1) → its end, otherwise 0.0
        got = {}
        for v, ev in defs_end:
            if ev is None:
                continue
            d = [t for c, t in ev.conds if "_slm_mask_time" in show(c) and strip_typed(c)[0] == "cmp"
                 and strip_typed(c)[1] == ">" and is_const(strip_typed(c)[3], 1)]
            if d:
                got[d[-1]] = strip_typed(v)
        okend = set(got) == {True, False} and "_slm_mask_time[1]" in show(got[True]) and is_const(got[False], 0.0)
    ctx.ob("INTERACT", "slm end", prog.func(PA + "PulserData.__init__").loc(), okend,
           "slm_end_time = sequence._slm_mask_time[1] when an SLM mask is set, 0.0 otherwise" if okend else
           f"slm_end_time is {[show(v)[:80] for v, _ in fdp.get('slm_end_time', [])]}")


def _is_none(p: Path, user):
    """How the path decided `user is None` (True / False), None when it did not."""
    d = None
    for c, t in p.cond_log:
        c = strip_typed(c)
        if c[0] == "cmp" and c[1] in ("is", "isnot", "==", "!=") and strip_typed(c[2]) == user and c[3] == ("const", None):
            d = t if c[1] in ("is", "==") else (not t)
    return d


def _source_ok(p: Path, full, user) -> bool:
    t = strip_typed(full)
    if t[0] == "mcall" and t[2] == "clone":
        t = strip_typed(t[1])
    if t[0] == "ifexp":
        c, a, b = strip_typed(t[1]), strip_typed(t[2]), strip_typed(t[3])
        isnt = c[0] == "cmp" and c[1] == "isnot" and strip_typed(c[2]) == user and c[3] == ("const", None)
        isn = c[0] == "cmp" and c[1] == "is" and strip_typed(c[2]) == user and c[3] == ("const", None)
        reg = "trajectory.interaction_matrix" in show(b if isnt else a)
        return (isnt and a == user and reg) or (isn and b == user and reg)
    d = _is_none(p, user)
    if d is False:
        return t == user                                   # a user matrix is present on this path: it is the source
    if d is True:
        return "trajectory.interaction_matrix" in show(t)  # none given: the register's matrix
    return False


def consumers(ctx) -> None:
    """Consumers of SequenceData.interaction_matrix call it with a time inside the step being evolved."""
    prog = ctx.prog
    K = prog.cls("emu_mps.mps_backend_impl.MPSBackendImpl")
    f = K.methods["_get_interaction_matrix"]
    it = Interp(prog, K, inline=lambda c, r, d: False)
    n = 0
    for p in it.run(f):
        for e in p.events:
            if e.kind == "call" and e.name == ".interaction_matrix" and e.pos:
                n += 1
                li = linear_in(e.pos[0], [("attr", SELF, "current_time"), ("attr", SELF, "target_time")])
                ok = li is not None and all(abs(c.imag) < 1e-12 and c.real >= -1e-12 for c in li[:2]) and \
                    abs(li[0] + li[1] - 1) < 1e-12 and abs(li[2]) < 1e-12 and li[0].real > 1e-12   # in [current, target)
                ctx.ob("INTERACT-time", "emu-mps query time", e.loc(), ok,
                       "the interaction matrix is queried at a convex combination of current_time and target_time"
                       if ok else f"the interaction matrix is queried at {show(e.pos[0])[:80]}, not at a time of the "
                                  f"step being evolved")
    ctx.require(n >= 1, "INTERACT-time: interaction_matrix query not found in _get_interaction_matrix")
    # optimiser sees the final (full) matrix
    init = K.methods["__init__"]
    for p in it.run(init):
        for e in p.events:
            if e.kind == "call" and e.name == "emu_mps.optimatrix.optimiser.minimize_bandwidth":
                a = strip_typed(e.args.get("input_matrix"))
                ok = a[0] == "mcall" and a[2] == "interaction_matrix" and "target_times[-1]" in show(a)
                ctx.ob("INTERACT-time", "optimiser matrix", e.loc(), ok,
                       "the qubit order is optimised for the matrix at the end of the sequence (SLM mask lifted)"
                       if ok else f"the qubit order is optimised for {show(a)[:80]}")


def unique_observable_times(ctx) -> None:
    """_unique_observable_times: per-observable times are used when given, the config's default times otherwise,
    and the unsupported 'Full' default raises."""
    prog = ctx.prog
    f, paths = _run(ctx, PA + "_unique_observable_times", loop_iters=(1,))
    own = dflt = full = 0
    for p in paths:
        own_none = None
        for c, t in p.cond_log:
            c0 = strip_typed(c)
            if c0[0] == "cmp" and c0[1] == "is" and "evaluation_times" in show(c0[2]) and c0[3] == ("const", None):
                own_none = t
        if p.status == "raise":
            full += 1
            continue
        r = p.retval
        s = show(r) if r is not None else ""
        if own_none is False:
            own += 1
            ok = "set(elem(config.observables).evaluation_times)" in s
            ctx.ob("GRID", "observable's own times", f.loc(), ok,
                   "an observable's own evaluation_times are collected" if ok else f"own times path yields {s[:80]}")
        elif own_none is True:
            dflt += 1
            ok = "default_evaluation_times" in s
            ctx.ob("GRID", "default evaluation times", f.loc(), ok,
                   "observables without own times contribute the config's default_evaluation_times" if ok else
                   f"default-times path yields {s[:80]}")
    ctx.ob("GRID", "unsupported default raises", f.loc(), full >= 1,
           "a string-valued default_evaluation_times ('Full') raises" if full else
           "the unsupported 'Full' default no longer raises")
    ctx.require(own >= 1 and dflt >= 1, "_unique_observable_times: own/default paths not found")


def noise_source(ctx) -> None:
    """The noise model that reaches Pulser's sampler and the jump-operator builder is the device's default when
    config.prefer_device_noise_model, config.noise_model otherwise — and the empty NoiseModel() only when that source
    is empty (a replaced model silently drops every noise channel of the run)."""
    prog = ctx.prog
    g, gp = _run(ctx, PA + "PulserData.__init__", cls=PA + "PulserData", loop_iters=(1,))
    cfgp = ("param", g.qualname, "config")
    seqp = ("param", g.qualname, "sequence")
    dev = ("attr", ("attr", seqp, "device"), "default_noise_model")
    usr = ("attr", cfgp, "noise_model")
    pref = ("attr", cfgp, "prefer_device_noise_model")
    n = 0
    bad = []
    seen = set()
    for p in gp:
        if p.status != "return":
            continue
        flag = None
        for c, t in p.cond_log:
            if strip_typed(c) == pref:
                flag = t
        for e in p.events:
            if not (e.kind == "call" and (e.name.endswith("HamiltonianData.from_sequence") or e.name == PA + "_get_all_lindblad_noise_operators")):
                continue
            v = dict(e.kw).get("noise_model") if dict(e.kw).get("noise_model") is not None else e.args.get("noise_model")
            if v is None:
                bad.append(f"{e.name.split('.')[-1]} receives no noise model")
                continue
            v = strip_typed(v)
            n += 1
            src = dev if flag else usr
            if flag is None:
                bad.append(f"{e.name.split('.')[-1]}: the path never consults prefer_device_noise_model")
                continue
            empty = None
            for c, t in p.cond_log[: e.ncond]:
                if strip_typed(c) == src:
                    empty = not t
            seen.add((flag, empty))
            if empty is True:
                ok = v[0] in ("new", "call") and v[1].endswith("NoiseModel") and not v[2] and not v[3]
            elif empty is False:
                ok = v == src
            else:
                ok = v == src   # never tested for emptiness: must be the source itself
            if not ok:
                bad.append(f"{e.name.split('.')[-1]}(noise_model={show(v)[:50]}) where prefer_device_noise_model={flag} and "
                           f"the selected model is {'empty' if empty else 'given'}")
    ctx.require(n >= 4, f"NOISE-source: only {n} consumer events of the noise model found")
    ctx.ob("NOISE-source", "PulserData.__init__", g.loc(), not bad,
           "sampler and jump operators receive the device's default / the config's noise model as selected by "
           "prefer_device_noise_model; NoiseModel() replaces it only when it is empty" if not bad else
           f"{bad[0]}: the run is emulated with another noise model than the one configured (channels are silently "
           f"dropped or invented)")


def merge_close_times(ctx) -> None:
    """_merge_close_times keeps every time that is not a rounding-duplicate of the previous kept one: per iteration of
    `for t in sorted(times)`, `t` is appended exactly when it is further than the tolerance from the last kept time (or
    nothing is kept yet); on the close branch nothing is appended, and the end point 1.0 replaces its near-duplicate.
    Decided on the paths of the loop body in the statement CFG."""
    prog = ctx.prog
    f = prog.func(PA + "_merge_close_times")
    cfg = util.cfg_of(f)
    loops = [(n, st) for n, st in cfg.stmts() if cfg.g.nodes[n]["kind"] == "loop"]
    ctx.require(len(loops) == 1, f"TIMEEQ-merge: {len(loops)} loops in _merge_close_times")
    head, loop = loops[0]
    it_ok = isinstance(loop.iter, ast.Call) and util.text(loop.iter.func) == "sorted" and len(loop.iter.args) == 1 and \
        isinstance(loop.iter.args[0], ast.Name) and loop.iter.args[0].id in f.params and isinstance(loop.target, ast.Name)
    ctx.ob("TIMEEQ-merge", "iterates the sorted times", f.loc(loop), it_ok,
           "the merge walks sorted(times)" if it_ok else f"the merge iterates {util.text(loop.iter, 50)}")
    if not it_ok:
        return
    t = loop.target.id
    tol = util.const_value(prog, f.module, ast.Name(id="_TIME_MERGE_TOLERANCE", ctx=ast.Load()), f)
    ok_tol = isinstance(tol, float) and 0 < tol <= 1e-10
    ctx.ob("TIMEEQ-merge", "tolerance", f.loc(), ok_tol,
           f"times closer than {tol:g} are one instant (the backends match evaluation times with 1e-10)" if ok_tol else
           f"_TIME_MERGE_TOLERANCE = {tol}: above the 1e-10 with which the backends match evaluation times, distinct "
           f"requested times would be merged away")

    def classify(test: ast.AST):
        """polarity of the edge on which `t` is a near-duplicate, or None if the test is not the closeness test.
        Two spellings: `kept and t - kept[-1] <= tol` (true = close) and its De Morgan dual
        `not kept or t - kept[-1] > tol` (true = far)."""
        pol = True
        while isinstance(test, ast.UnaryOp) and isinstance(test.op, ast.Not):
            test, pol = test.operand, not pol
        if not (isinstance(test, ast.BoolOp) and len(test.values) == 2):
            return None
        is_and = isinstance(test.op, ast.And)
        kept, cmp_ = test.values
        if not is_and:
            # `not kept or far`
            if not (isinstance(kept, ast.UnaryOp) and isinstance(kept.op, ast.Not)):
                return None
            kept = kept.operand
        if not (isinstance(kept, ast.Name) and isinstance(cmp_, ast.Compare) and len(cmp_.ops) == 1):
            return None
        l, r, op = cmp_.left, cmp_.comparators[0], cmp_.ops[0]
        diff_l = util.text(l).replace(" ", "") == f"{t}-{kept.id}[-1]"
        diff_r = util.text(r).replace(" ", "") == f"{t}-{kept.id}[-1]"
        if not (diff_l or diff_r):
            return None
        other = r if diff_l else l
        if util.const_value(prog, f.module, other, f) != tol:
            return None
        # orientation: diff OP tol
        opn = type(op)
        if diff_r:
            opn = {ast.Lt: ast.Gt, ast.Gt: ast.Lt, ast.LtE: ast.GtE, ast.GtE: ast.LtE}.get(opn)
        if is_and and opn in (ast.Lt, ast.LtE):
            return (pol, kept.id)            # true edge = near-duplicate
        if (not is_and) and opn in (ast.Gt, ast.GtE):
            return (not pol, kept.id)        # true edge = far, so the near-duplicate edge is the other one
        return None

    tests = [(n, classify(cfg.g.nodes[n]["ast"])) for n, st in cfg.stmts() if cfg.g.nodes[n]["kind"] == "test"]
    close = [(n, c) for n, c in tests if c is not None]
    ctx.require(len(close) == 1, f"TIMEEQ-merge: closeness test `kept and {t} - kept[-1] <= _TIME_MERGE_TOLERANCE` not found")
    tn, (pol, kept) = close[0]

    def appends(node) -> bool:
        st = cfg.g.nodes[node].get("ast")
        return isinstance(st, ast.Expr) and isinstance(st.value, ast.Call) and util.text(st.value.func) == f"{kept}.append" \
            and len(st.value.args) == 1 and util.text(st.value.args[0]) == t

    def one_iteration(label):
        """paths from the given edge of the closeness test back to the loop head: number of append(t) on each"""
        out = []
        for _, v, d in cfg.g.out_edges(tn, data=True):
            if d.get("label") is not label:
                continue
            for path in cfg.paths(start=v, ends=(head,), max_visits=1):
                out.append(sum(1 for n_, _ in path if n_ != head and appends(n_)))
        return out
    far, near = one_iteration(not pol), one_iteration(pol)
    ok_far = bool(far) and all(k == 1 for k in far)
    ok_near = bool(near) and all(k == 0 for k in near)
    ctx.ob("TIMEEQ-merge", "distinct times are kept", f.loc(cfg.g.nodes[tn]["ast"]), ok_far,
           "a time further than the tolerance from the last kept one (or the first time) is appended exactly once" if ok_far else
           f"on the branch where {t} is NOT a near-duplicate it is appended {sorted(set(far))} time(s): requested evaluation "
           f"times disappear from (or are duplicated in) the target times")
    ctx.ob("TIMEEQ-merge", "near-duplicates are dropped", f.loc(cfg.g.nodes[tn]["ast"]), ok_near,
           "a time within the tolerance of the last kept one is not appended" if ok_near else
           "near-duplicate times are appended as well: two target times closer than the backends' matching tolerance")
    # 1.0 wins over its near-duplicate
    end_ok = False
    for n, st in cfg.stmts():
        if isinstance(st, ast.Assign) and util.text(st.targets[0]).replace(" ", "") == f"{kept}[-1]" and util.text(st.value) == t:
            for m, c in tests:
                test = cfg.g.nodes[m]["ast"]
                pol1 = True
                while isinstance(test, ast.UnaryOp) and isinstance(test.op, ast.Not):
                    test, pol1 = test.operand, not pol1
                if isinstance(test, ast.Compare) and len(test.ops) == 1 and isinstance(test.ops[0], (ast.Eq, ast.NotEq)) and \
                        {util.text(test.left), util.text(test.comparators[0])} == {t, "1.0"}:
                    if isinstance(test.ops[0], ast.NotEq):
                        pol1 = not pol1
                    end_ok = cfg.edge_dominates(m, pol1, n) and cfg.edge_dominates(tn, pol, n)
    ctx.ob("TIMEEQ-merge", "1.0 replaces its near-duplicate", f.loc(), end_ok,
           "when the end point 1.0 is merged with a neighbour, 1.0 is the value kept" if end_ok else
           "the end of the sequence (1.0) can be merged into a slightly smaller time: the last target time is then not "
           "the sequence duration")
    rets = [st for n, st in cfg.stmts() if isinstance(st, ast.Return)]
    ok_ret = len(rets) == 1 and util.text(rets[0].value) == kept
    ctx.ob("TIMEEQ-merge", "returns the kept list", f.loc(), ok_ret, "the kept times are returned" if ok_ret else "the merged list is not what is returned")
